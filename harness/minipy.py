"""Python mirror of coq/Model/MiniPy.v used by the kernel checks (C08; C01/C02/C07 kernels).

Trees are nested tuples whose first component is the Coq constructor name:
  ("EName", n) ("EConst", c) ("EType", t) ("ETuple", [..]) ("EList", [..]) ("ESet", [..]) ("EMeth", recv, m, [..])
  ("ECall", f, [..]) ("EBool", par, op, l, r) ("ENot", par, a) ("ECmp", par, l, [(op, e)..]) ("EListComp", elt, x, it)
  ("EGen", par, elt, x, it) ("EFloorDiv", l, r)
  constants: ("CBool", b) ("CInt", z) ("CStr", s) ("CNone",) ("CNaN",)
  values:    ("VBool", b) ("VInt", z) ("VStr", s) ("VNone",) ("VNaN",) ("VTuple", [..]) ("VList", [..]) ("VSet", [ints])
             ("VObj", c, [cls attrs], [inst attrs]) ("VType", t)
  types:     "TObject" "TInt" ... or ("TUser", c)

`pp` mirrors Coq's `pp` (the Coq side re-checks `pp e = text` for every case), `to_coq` prints Coq terms,
`from_source` turns Python source back into the tree CPython's parser sees (all flags set), `Sandbox` executes
programs in `/venv/bin/python -I` subprocesses and prints results with the Python twin of Coq's `show`."""
from __future__ import annotations

import ast
import json
import subprocess

from harness import core
from harness.core import cN, cZ, cbool, clist, cstr

CMPOPS = {"Eq": "==", "NotEq": "!=", "Lt": "<", "LtE": "<=", "Gt": ">", "GtE": ">=", "Is": "is", "IsNot": "is not",
          "In": "in", "NotIn": "not in"}
TYPES = {"TObject": "object", "TInt": "int", "TBool": "bool", "TStr": "str", "TTuple": "tuple", "TList": "list",
         "TSet": "set", "TFloat": "float", "TType": "type", "TNoneT": "type(None)"}
BUILTINS = {"BIsinstance": "isinstance", "BIssubclass": "issubclass", "BHasattr": "hasattr", "BCallable": "callable",
            "BAny": "any", "BAll": "all", "BSum": "sum", "BMin": "min", "BMax": "max", "BSet": "set", "BLen": "len", "BBool": "bool"}
METHS = {"Startswith": "startswith", "Endswith": "endswith"}
BOPS = {"BOr": " or ", "BAnd": " and "}


# ------------------------------------------------------------------------------------------------ printer
def pp_ty(t):
    return TYPES[t] if isinstance(t, str) else "C%d" % t[1]


def pp_const(c):
    k = c[0]
    if k == "CBool":
        return "True" if c[1] else "False"
    if k == "CInt":
        return str(c[1]) if c[1] >= 0 else "(-%d)" % -c[1]
    if k == "CStr":
        return '"' + c[1] + '"'
    return {"CNone": "None", "CNaN": "NAN"}[k]


def paren(p, s):
    return "(" + s + ")" if p else s


def pp(e) -> str:
    k = e[0]
    if k == "EName":
        return "v%d" % e[1]
    if k == "EConst":
        return pp_const(e[1])
    if k == "EType":
        return pp_ty(e[1])
    if k == "ETuple":
        es = e[1]
        if not es:
            return "()"
        if len(es) == 1:
            return "(" + pp(es[0]) + ",)"
        return "(" + ", ".join(map(pp, es)) + ")"
    if k == "EList":
        return "[" + ", ".join(map(pp, e[1])) + "]"
    if k == "ESet":
        return "{" + ", ".join(map(pp, e[1])) + "}"
    if k == "EMeth":
        return "v%d.%s(%s)" % (e[1], METHS[e[2]], ", ".join(map(pp, e[3])))
    if k == "ECall":
        return "%s(%s)" % (BUILTINS[e[1]], ", ".join(map(pp, e[2])))
    if k == "EBool":
        return paren(e[1], pp(e[3]) + BOPS[e[2]] + pp(e[4]))
    if k == "ENot":
        return paren(e[1], "not " + pp(e[2]))
    if k == "ECmp":
        return paren(e[1], pp(e[2]) + "".join(" %s %s" % (CMPOPS[o], pp(b)) for o, b in e[3]))
    if k == "EListComp":
        return "[%s for v%d in %s]" % (pp(e[1]), e[2], pp(e[3]))
    if k == "EGen":
        return paren(e[1], "%s for v%d in %s" % (pp(e[2]), e[3], pp(e[4])))
    if k == "EFloorDiv":
        return "(%s // %s)" % (pp(e[1]), pp(e[2]))
    if k == "EJuxt":
        return pp(e[2]) * (2 + e[1])
    raise ValueError(k)


def size(e) -> int:
    k = e[0]
    if k in ("EName", "EConst", "EType"):
        return 1
    if k in ("ETuple", "EList", "ESet"):
        return 1 + sum(map(size, e[1]))
    if k == "EMeth":
        return 1 + sum(map(size, e[3]))
    if k == "ECall":
        return 1 + sum(map(size, e[2]))
    if k == "EBool":
        return 1 + size(e[3]) + size(e[4])
    if k == "ENot":
        return 1 + size(e[2])
    if k == "ECmp":
        return 1 + size(e[2]) + sum(size(b) for _, b in e[3])
    if k == "EListComp":
        return 1 + size(e[1]) + size(e[3])
    if k == "EGen":
        return 1 + size(e[2]) + size(e[4])
    if k == "EFloorDiv":
        return 1 + size(e[1]) + size(e[2])
    return 1 + size(e[2])


def subterms(e):
    yield e
    k = e[0]
    kids = []
    if k in ("ETuple", "EList", "ESet"):
        kids = e[1]
    elif k == "EMeth":
        kids = e[3]
    elif k == "ECall":
        kids = e[2]
    elif k == "EBool":
        kids = [e[3], e[4]]
    elif k == "ENot":
        kids = [e[2]]
    elif k == "ECmp":
        kids = [e[2]] + [b for _, b in e[3]]
    elif k == "EListComp":
        kids = [e[1], e[3]]
    elif k == "EGen":
        kids = [e[2], e[4]]
    elif k == "EFloorDiv":
        kids = [e[1], e[2]]
    elif k == "EJuxt":
        kids = [e[2]]
    for c in kids:
        yield from subterms(c)


# ------------------------------------------------------------------------------------------------ Coq terms
def c_ty(t):
    return t if isinstance(t, str) else "(TUser %s)" % cN(t[1])


def c_const(c):
    k = c[0]
    if k == "CBool":
        return "(CBool %s)" % cbool(c[1])
    if k == "CInt":
        return "(CInt %s)" % cZ(c[1])
    if k == "CStr":
        return "(CStr %s)" % cstr(c[1])
    return k


def c_exprs(es):
    return clist([to_coq(x) for x in es], "expr")


def to_coq(e) -> str:
    k = e[0]
    if k == "EName":
        return "(EName %s)" % cN(e[1])
    if k == "EConst":
        return "(EConst %s)" % c_const(e[1])
    if k == "EType":
        return "(EType %s)" % c_ty(e[1])
    if k in ("ETuple", "EList", "ESet"):
        return "(%s %s)" % (k, c_exprs(e[1]))
    if k == "EMeth":
        return "(EMeth %s %s %s)" % (cN(e[1]), e[2], c_exprs(e[3]))
    if k == "ECall":
        return "(ECall %s %s)" % (e[1], c_exprs(e[2]))
    if k == "EBool":
        return "(EBool %s %s %s %s)" % (cbool(e[1]), e[2], to_coq(e[3]), to_coq(e[4]))
    if k == "ENot":
        return "(ENot %s %s)" % (cbool(e[1]), to_coq(e[2]))
    if k == "ECmp":
        return "(ECmp %s %s %s)" % (cbool(e[1]), to_coq(e[2]),
                                    clist(["(%s, %s)" % (o, to_coq(b)) for o, b in e[3]], "cmpop * expr"))
    if k == "EListComp":
        return "(EListComp %s %s %s)" % (to_coq(e[1]), cN(e[2]), to_coq(e[3]))
    if k == "EGen":
        return "(EGen %s %s %s %s)" % (cbool(e[1]), to_coq(e[2]), cN(e[3]), to_coq(e[4]))
    if k == "EFloorDiv":
        return "(EFloorDiv %s %s)" % (to_coq(e[1]), to_coq(e[2]))
    if k == "EJuxt":
        return "(EJuxt %s %s)" % (cN(e[1]), to_coq(e[2]))
    raise ValueError(k)


def c_value(v) -> str:
    k = v[0]
    if k == "VBool":
        return "(VBool %s)" % cbool(v[1])
    if k == "VInt":
        return "(VInt %s)" % cZ(v[1])
    if k == "VStr":
        return "(VStr %s)" % cstr(v[1])
    if k in ("VNone", "VNaN"):
        return k
    if k in ("VTuple", "VList"):
        return "(%s %s)" % (k, clist([c_value(x) for x in v[1]], "value"))
    if k == "VSet":
        return "(VSet %s)" % clist([cZ(z) for z in sorted(set(v[1]))], "Z")
    if k == "VObj":
        return "(VObj %s %s %s)" % (cN(v[1]), clist([cstr(a) for a in v[2]], "str"), clist([cstr(a) for a in v[3]], "str"))
    if k == "VType":
        return "(VType %s)" % c_ty(v[1])
    raise ValueError(k)


def c_env(env) -> str:
    return clist(["(%s, %s)" % (cN(x), c_value(v)) for x, v in env], "N * value")


# ------------------------------------------------------------------------------------------------ source -> tree
class NotMiniPy(Exception):
    pass


_AST_CMP = {ast.Eq: "Eq", ast.NotEq: "NotEq", ast.Lt: "Lt", ast.LtE: "LtE", ast.Gt: "Gt", ast.GtE: "GtE", ast.Is: "Is",
            ast.IsNot: "IsNot", ast.In: "In", ast.NotIn: "NotIn"}
_R_TYPES = {v: k for k, v in TYPES.items() if k != "TNoneT"}
_R_BUILTINS = {v: k for k, v in BUILTINS.items()}
_R_METHS = {v: k for k, v in METHS.items()}


def _name_id(s):
    if len(s) >= 2 and s[0] == "v" and s[1:].isdigit() and (s[1] != "0" or len(s) == 2):
        return int(s[1:])
    return None


def from_ast(n, sole_arg=False):
    """The MiniPy tree of a CPython expression node, every flag set (= Coq's `norm` of the libcst tree)."""
    if isinstance(n, ast.Name):
        if n.id == "NAN":
            return ("EConst", ("CNaN",))
        if n.id in _R_TYPES:
            return ("EType", _R_TYPES[n.id])
        if len(n.id) >= 2 and n.id[0] == "C" and n.id[1:].isdigit():
            return ("EType", ("TUser", int(n.id[1:])))
        i = _name_id(n.id)
        if i is None:
            raise NotMiniPy("name " + n.id)
        return ("EName", i)
    if isinstance(n, ast.Constant):
        v = n.value
        if v is True or v is False:
            return ("EConst", ("CBool", v))
        if v is None:
            return ("EConst", ("CNone",))
        if isinstance(v, int):
            return ("EConst", ("CInt", v))
        if isinstance(v, str):
            return ("EConst", ("CStr", v))
        raise NotMiniPy("constant")
    if isinstance(n, ast.UnaryOp) and isinstance(n.op, ast.USub) and isinstance(n.operand, ast.Constant) \
            and type(n.operand.value) is int and n.operand.value > 0:
        return ("EConst", ("CInt", -n.operand.value))
    if isinstance(n, ast.Tuple):
        return ("ETuple", [from_ast(x) for x in n.elts])
    if isinstance(n, ast.List):
        return ("EList", [from_ast(x) for x in n.elts])
    if isinstance(n, ast.Set):
        return ("ESet", [from_ast(x) for x in n.elts])
    if isinstance(n, ast.Call):
        if n.keywords:
            raise NotMiniPy("keywords")
        if len(n.args) == 1 and isinstance(n.args[0], ast.GeneratorExp):
            # a sole generator argument: the text cannot tell `f(x for ..)` from `f((x for ..))`; both mean the same
            args = [from_ast(n.args[0], sole_arg=True)]
        else:
            args = [from_ast(a) for a in n.args]
        if isinstance(n.func, ast.Name) and n.func.id in _R_BUILTINS:
            return ("ECall", _R_BUILTINS[n.func.id], args)
        if isinstance(n.func, ast.Attribute) and isinstance(n.func.value, ast.Name) and n.func.attr in _R_METHS:
            i = _name_id(n.func.value.id)
            if i is None:
                raise NotMiniPy("receiver")
            return ("EMeth", i, _R_METHS[n.func.attr], args)
        raise NotMiniPy("call")
    if isinstance(n, ast.BoolOp):
        op = "BOr" if isinstance(n.op, ast.Or) else "BAnd"
        vals = [from_ast(x) for x in n.values]
        acc = vals[0]
        for v in vals[1:]:
            acc = ("EBool", True, op, acc, v)
        return acc
    if isinstance(n, ast.UnaryOp) and isinstance(n.op, ast.Not):
        return ("ENot", True, from_ast(n.operand))
    if isinstance(n, ast.Compare):
        return ("ECmp", True, from_ast(n.left), [(_AST_CMP[type(o)], from_ast(c)) for o, c in zip(n.ops, n.comparators)])
    if isinstance(n, (ast.ListComp, ast.GeneratorExp)):
        if len(n.generators) != 1 or n.generators[0].ifs or n.generators[0].is_async or not isinstance(n.generators[0].target, ast.Name):
            raise NotMiniPy("comprehension")
        x = _name_id(n.generators[0].target.id)
        if x is None:
            raise NotMiniPy("comprehension target")
        elt, it = from_ast(n.elt), from_ast(n.generators[0].iter)
        if isinstance(n, ast.ListComp):
            return ("EListComp", elt, x, it)
        return ("EGen", True, elt, x, it)
    if isinstance(n, ast.BinOp) and isinstance(n.op, ast.FloorDiv):
        return ("EFloorDiv", from_ast(n.left), from_ast(n.right))
    raise NotMiniPy(type(n).__name__)


def from_source(text: str):
    """tree of `result = <expr>`; raises SyntaxError / NotMiniPy"""
    mod = ast.parse(text)
    if len(mod.body) == 1 and isinstance(mod.body[0], ast.If):       # the expression as the test of an `if`
        return from_ast(mod.body[0].test)
    if len(mod.body) != 1 or not isinstance(mod.body[0], ast.Assign):
        raise NotMiniPy("module shape")
    return from_ast(mod.body[0].value)


def set_flags(e, flag=True):
    """the same tree with every parenthesisation flag set (Coq's `allpar`); a sole unparenthesised generator stays"""
    k = e[0]
    f = lambda x: set_flags(x, flag)
    if k in ("EName", "EConst", "EType"):
        return e
    if k in ("ETuple", "EList", "ESet"):
        return (k, [f(x) for x in e[1]])
    if k == "EMeth":
        return (k, e[1], e[2], [f(x) for x in e[3]])
    if k == "ECall":
        return (k, e[1], [f(x) for x in e[2]])
    if k == "EBool":
        return (k, flag, e[2], f(e[3]), f(e[4]))
    if k == "ENot":
        return (k, flag, f(e[2]))
    if k == "ECmp":
        return (k, flag, f(e[2]), [(o, f(b)) for o, b in e[3]])
    if k == "EListComp":
        return (k, f(e[1]), e[2], f(e[3]))
    if k == "EGen":
        return (k, flag, f(e[2]), e[3], f(e[4]))
    if k == "EFloorDiv":
        return (k, f(e[1]), f(e[2]))
    return (k, e[1], f(e[2]))


# ------------------------------------------------------------------------------------------------ sandbox
def py_value(v) -> str:
    """Python source building the runtime value (objects/classes come from the prelude)"""
    k = v[0]
    if k == "VBool":
        return "True" if v[1] else "False"
    if k == "VInt":
        return repr(v[1])
    if k == "VStr":
        return json.dumps(v[1])
    if k == "VNone":
        return "None"
    if k == "VNaN":
        return "NAN"
    if k == "VTuple":
        return "(" + "".join(py_value(x) + ", " for x in v[1]) + ")"
    if k == "VList":
        return "[" + ", ".join(py_value(x) for x in v[1]) + "]"
    if k == "VSet":
        return "set([" + ", ".join(repr(z) for z in v[1]) + "])"
    if k == "VObj":
        return "_OBJ[%d]" % v[1]
    if k == "VType":
        return pp_ty(v[1])
    raise ValueError(k)


def objects_of(v, acc):
    if v[0] == "VObj":
        acc[v[1]] = (tuple(v[2]), tuple(v[3]))
    elif v[0] in ("VTuple", "VList"):
        for x in v[1]:
            objects_of(x, acc)
    elif v[0] == "VType" and not isinstance(v[1], str):
        acc.setdefault(v[1][1], ((), ()))


def prelude(env) -> str:
    """Python source defining NAN, the classes C<c>, one instance per class in _OBJ, and the names of the environment."""
    objs = {}
    for _, v in env:
        objects_of(v, objs)
    lines = ["NAN = float('nan')", "_OBJ = {}"]
    for c, (cls, inst) in sorted(objs.items()):
        lines.append("class C%d:" % c)
        lines.append("    _id = %d" % c)
        for a in cls:
            lines.append("    def %s(self): return 1" % a if a == "__call__" else "    %s = 1" % a)
        lines.append("_OBJ[%d] = C%d()" % (c, c))
        for a in inst:
            lines.append("_OBJ[%d].__dict__[%r] = (lambda: 1)" % (c, a) if a == "__call__" else "_OBJ[%d].%s = 1" % (c, a))
    # later bindings shadow earlier ones in Coq's association list: define in reverse
    for x, v in reversed(env):
        lines.append("v%d = %s" % (x, py_value(v)))
    return "\n".join(lines) + "\n"


SHOW_SRC = r'''
import json, sys, warnings, math
warnings.simplefilter("ignore")
def show(v):
    if v is True: return "True"
    if v is False: return "False"
    if v is None: return "None"
    t = type(v)
    if t is int: return str(v)
    if t is float: return "nan" if math.isnan(v) else "<float>"
    if t is str: return '"' + v + '"'
    if t is tuple: return "(" + ", ".join(show(x) for x in v) + ")"
    if t is list: return "[" + ", ".join(show(x) for x in v) + "]"
    if t is set:
        if all(type(x) is int for x in v): return "{" + ", ".join(str(x) for x in sorted(v)) + "}"
        return "<set>"
    if isinstance(v, type):
        n = v.__name__
        return "<type " + ("type(None)" if n == "NoneType" else n) + ">"
    if hasattr(t, "_id"): return "<obj %d>" % t._id
    return "<" + t.__name__ + ">"
'''

RUNNER = SHOW_SRC + r'''
jobs = json.load(sys.stdin)
out = []
for prelude, stmt in jobs:
    ns = {}
    try:
        exec(compile(prelude, "<prelude>", "exec"), ns)
        code = compile(stmt, "<case>", "exec")
    except SyntaxError:
        out.append("raise SyntaxError"); continue
    try:
        exec(code, ns)
        out.append("value " + show(ns.get("result")))
    except RecursionError:
        out.append("raise RecursionError")
    except BaseException as ex:
        out.append("raise " + type(ex).__name__)
json.dump(out, sys.stdout)
'''


def run_sandbox(ctx, jobs, chunk=400, timeout=120):
    """jobs: list of (prelude source, statement source `result = ...`).  Each chunk runs in its own isolated
    interpreter (`python -I`: no user site, no PYTHON* variables, cwd = scratch); every job gets a fresh namespace.
    Returns 'value <show>' | 'raise <ExceptionType>' per job."""
    out = []
    cwd = ctx.scratch / "sandbox"
    cwd.mkdir(exist_ok=True)
    for off in range(0, len(jobs), chunk):
        part = jobs[off:off + chunk]
        try:
            p = subprocess.run([core.PY, "-I", "-c", RUNNER], input=json.dumps(part).encode(), cwd=cwd,
                               stdout=subprocess.PIPE, stderr=subprocess.PIPE, timeout=timeout, env={"PATH": "/usr/bin:/bin"})
            res = json.loads(p.stdout.decode())
            assert len(res) == len(part)
        except Exception as ex:  # one bad job must not hide the others: fall back to one process per job
            res = []
            for j in part:
                try:
                    p = subprocess.run([core.PY, "-I", "-c", RUNNER], input=json.dumps([j]).encode(), cwd=cwd,
                                       stdout=subprocess.PIPE, stderr=subprocess.PIPE, timeout=20, env={"PATH": "/usr/bin:/bin"})
                    res.append(json.loads(p.stdout.decode())[0])
                except Exception:
                    res.append("raise SandboxFailure")
        out.extend(res)
    return out


# ------------------------------------------------------------------------------------------------ generators
def N(i):
    return ("EName", i)


def K(c):
    return ("EConst", c)


def S(s):
    return K(("CStr", s))


def I(z):
    return K(("CInt", z))


def B(b):
    return K(("CBool", b))


NONE = K(("CNone",))
NANC = K(("CNaN",))
CALL = "__call__"

STRS = ["", "x", "xy", "yx", "abc", "y"]
INTS = [0, 1, 2, 3, -1, 7]
OBJ_KINDS = [([], []), ([CALL], []), ([], [CALL]), ([CALL], [CALL]), (["foo"], []), ([], ["foo"]), (["foo"], [CALL])]
TYPE_POOL = ["TInt", "TStr", "TBool", "TTuple", "TList", "TObject", "TSet", "TFloat", "TType"]


def gen_value(rng, kind=None, depth=0):
    kind = kind or rng.choice(["str", "str", "int", "int", "bool", "none", "nan", "tuple", "list", "set", "obj", "type", "typetuple"])
    if kind == "str":
        return ("VStr", rng.choice(STRS))
    if kind == "int":
        return ("VInt", rng.choice(INTS))
    if kind == "bool":
        return ("VBool", rng.random() < 0.5)
    if kind == "none":
        return ("VNone",)
    if kind == "nan":
        return ("VNaN",)
    if kind == "tuple":
        return ("VTuple", rng.choice([[], [("VStr", "x")], [("VStr", "x"), ("VStr", "y")], [("VStr", "q"), ("VInt", 1)],
                                      [("VInt", 1), ("VInt", 2)], [("VStr", "")], [("VNaN",)], [("VStr", "yx"), ("VStr", "xy")]]))
    if kind == "list":
        return ("VList", rng.choice([[], [("VInt", 1), ("VInt", 0)], [("VInt", 1), ("VInt", 2), ("VInt", 3)], [("VStr", "x")],
                                     [("VInt", 0)], [("VInt", 2), ("VInt", 1)], [("VBool", True), ("VInt", 1)], [("VNaN",), ("VInt", 1)],
                                     [("VNone",)], [("VInt", 0), ("VInt", 1)]]))
    if kind == "set":
        return ("VSet", rng.choice([[], [1], [1, 2], [2], [0, 1], [0], [3, 5]]))
    if kind == "obj":
        c = rng.randrange(len(OBJ_KINDS))
        return ("VObj", c, OBJ_KINDS[c][0], OBJ_KINDS[c][1])
    if kind == "type":
        return ("VType", rng.choice(TYPE_POOL + [("TUser", rng.randrange(len(OBJ_KINDS)))]))
    if kind == "typetuple":
        return ("VTuple", rng.choice([[("VType", "TInt"), ("VType", "TStr")], [("VType", "TStr")], [],
                                      [("VTuple", [("VType", "TInt")]), ("VType", "TBool")], [("VType", "TInt"), ("VInt", 5)]]))
    raise ValueError(kind)


def gen_env(rng, profile="mixed"):
    """v0..v7; v0,v1 mostly strings (method receivers); some names left unbound"""
    env = []
    for i in range(8):
        if rng.random() < (0.12 if i >= 6 else 0.04):
            continue
        if i < 2 and profile in ("sw", "mixed"):
            kind = rng.choice(["str"] * 8 + ["int", "none", "tuple", "type"])
        elif profile == "inst" and i < 2:
            kind = rng.choice(["int", "str", "bool", "obj", "type", "type", "none", "list", "nan"])
        elif profile == "inst":
            kind = rng.choice(["type", "type", "typetuple", "typetuple", "int", "str", "obj"])
        elif profile == "sw":
            kind = rng.choice(["str", "str", "str", "tuple", "tuple", "int", "bool", "none"])
        elif profile == "num":
            kind = rng.choice(["int", "int", "int", "str", "set", "set", "nan", "bool", "none", "list", "tuple"])
        elif profile == "seq":
            kind = rng.choice(["list", "list", "list", "tuple", "tuple", "str", "int", "none", "bool", "set", "nan", "obj"])
        elif profile == "obj":
            kind = rng.choice(["obj", "obj", "obj", "type", "int", "str", "none", "list"])
        else:
            kind = None
        env.append((i, gen_value(rng, kind)))
    return env


def env_kind(env, i):
    for x, v in env:
        if x == i:
            return v[0]
    return None


def gen_const(rng):
    r = rng.random()
    if r < 0.3:
        return I(rng.choice(INTS))
    if r < 0.6:
        return S(rng.choice(STRS))
    if r < 0.8:
        return B(rng.random() < 0.5)
    if r < 0.9:
        return NONE
    return NANC


def gen_expr(rng, budget, bound=()):
    """a random expression of size <= budget over the whole AST (all flags set)"""
    def atom():
        r = rng.random()
        if bound and r < 0.25:
            return N(rng.choice(bound))
        if r < 0.6:
            return N(rng.randrange(8))
        if r < 0.65:
            return ("EType", rng.choice(TYPE_POOL))
        return gen_const(rng)
    if budget <= 1:
        return atom()
    kind = rng.choice(["bool", "bool", "not", "cmp", "cmp", "tuple", "list", "set", "meth", "call", "call", "comp", "div", "atom", "gencall"])
    b = budget - 1
    if kind == "atom":
        return atom()
    if kind == "bool":
        k = rng.randint(1, b - 1) if b > 2 else 1
        return ("EBool", True, rng.choice(["BOr", "BAnd"]), gen_expr(rng, k, bound), gen_expr(rng, max(1, b - k), bound))
    if kind == "not":
        return ("ENot", True, gen_expr(rng, b, bound))
    if kind == "cmp":
        n = rng.choice([1, 1, 1, 2, 3])
        parts = [gen_expr(rng, max(1, b // (n + 1)), bound) for _ in range(n + 1)]
        return ("ECmp", True, parts[0], [(rng.choice(list(CMPOPS)), p) for p in parts[1:]])
    if kind in ("tuple", "list", "set"):
        n = rng.randint(0 if kind != "set" else 1, 3)
        es = [gen_expr(rng, max(1, b // max(n, 1)), bound) for _ in range(n)]
        if kind == "set":
            es = [I(rng.randrange(8)) if rng.random() < 0.7 else e for e in es]
        return ({"tuple": "ETuple", "list": "EList", "set": "ESet"}[kind], es)
    if kind == "meth":
        n = rng.choice([1, 1, 1, 1, 0, 2])
        return ("EMeth", rng.choice([0, 1, 0, 1, rng.randrange(8)]), rng.choice(list(METHS)),
                [gen_expr(rng, max(1, b // max(n, 1)), bound) for _ in range(n)])
    if kind == "call":
        f = rng.choice(list(BUILTINS))
        n = {"BIsinstance": 2, "BIssubclass": 2, "BHasattr": 2}.get(f, 1)
        if rng.random() < 0.08:
            n = rng.choice([0, 1, 2, 3])
        args = [gen_expr(rng, max(1, b // max(n, 1)), bound) for _ in range(n)]
        if f == "BHasattr" and n == 2 and rng.random() < 0.8:
            args[1] = S(rng.choice([CALL, CALL, "foo", "bar"]))
        if f in ("BIsinstance", "BIssubclass") and n == 2 and rng.random() < 0.6:
            args[1] = rng.choice([("EType", rng.choice(TYPE_POOL)),
                                  ("ETuple", [("EType", rng.choice(TYPE_POOL)) for _ in range(rng.randint(0, 2))])])
        return ("ECall", f, args)
    if kind in ("comp", "gencall"):
        x = rng.choice([4, 5])
        it = gen_expr(rng, max(1, b // 3), bound) if rng.random() < 0.5 else \
            rng.choice([("EList", [I(rng.choice(INTS)) for _ in range(rng.randint(0, 3))]), N(rng.randrange(8))])
        elt = gen_expr(rng, max(1, b // 2), tuple(bound) + (x,))
        if kind == "comp":
            return ("EListComp", elt, x, it)
        f = rng.choice(["BAny", "BAll", "BSum", "BMin", "BMax", "BSet", "BLen"])
        return ("ECall", f, [rng.choice([("EGen", False, elt, x, it), ("EGen", True, elt, x, it), ("EListComp", elt, x, it)])])
    if kind == "div":
        k = rng.randint(1, b - 1) if b > 2 else 1
        return ("EFloorDiv", gen_expr(rng, k, bound), gen_expr(rng, max(1, b - k), bound))
    raise ValueError(kind)


def wrap_context(rng, e):
    """put [e] into a position where precedence matters (or not)"""
    r = rng.random()
    if r < 0.45:
        return e
    if r < 0.55:
        return ("ENot", True, e)
    if r < 0.65:
        return ("EBool", True, rng.choice(["BOr", "BAnd"]), N(rng.randrange(8)), e)
    if r < 0.72:
        return ("EBool", True, rng.choice(["BOr", "BAnd"]), e, N(rng.randrange(8)))
    if r < 0.80:
        return ("ECmp", True, e, [(rng.choice(["Eq", "NotEq", "Is"]), rng.choice([B(True), B(False), N(rng.randrange(8))]))])
    if r < 0.86:
        return ("ECmp", True, rng.choice([B(True), B(False)]), [(rng.choice(["Eq", "NotEq"]), e)])
    if r < 0.91:
        return ("ETuple", [e, I(1)])
    if r < 0.96:
        return ("ECall", "BLen", [("EList", [e])])
    return ("EListComp", e, 5, ("EList", [I(1), I(0)]))


def gen_combine(rng, kind):
    """boolean trees over combinable calls"""
    recvs = [0, 0, 0, 1]

    def sw_arg():
        r = rng.random()
        if r < 0.40:
            return S(rng.choice(STRS))
        if r < 0.65:
            return ("ETuple", [rng.choice([S(rng.choice(STRS)), S(rng.choice(STRS)), I(rng.choice([1, 1, 2])), N(rng.randrange(2, 8))])
                               for _ in range(rng.randint(0, 3))])
        if r < 0.97:
            return N(rng.randrange(2, 8))
        return rng.choice([NONE, B(True), I(1), ("EList", [S("x")])])

    def inst_arg():
        r = rng.random()
        if r < 0.40:
            return ("EType", rng.choice(TYPE_POOL))
        if r < 0.65:
            return ("ETuple", [rng.choice([("EType", rng.choice(TYPE_POOL)), ("EType", rng.choice(TYPE_POOL)), N(rng.randrange(2, 8))])
                               for _ in range(rng.randint(0, 3))])
        if r < 0.97:
            return N(rng.randrange(2, 8))
        return rng.choice([NONE, I(1)])

    def leaf():
        r = rng.random()
        if r < 0.72:
            if kind == "sw":
                return ("EMeth", rng.choice(recvs), "Startswith" if rng.random() < 0.8 else "Endswith", [sw_arg()])
            first = rng.choice([N(rng.choice(recvs)), N(rng.choice(recvs)), ("EType", rng.choice(TYPE_POOL)), B(True)])
            return ("ECall", "BIsinstance" if rng.random() < 0.75 else "BIssubclass", [first, inst_arg()])
        if r < 0.86:
            return N(rng.randrange(2, 8))
        if r < 0.92:
            return gen_const(rng)
        return ("ENot", True, N(rng.randrange(8)))

    def tree(d):
        if d == 0 or rng.random() < 0.25:
            return leaf()
        return ("EBool", True, "BOr" if rng.random() < 0.72 else "BAnd", tree(d - 1), tree(d - 1))
    return wrap_context(rng, ("EBool", True, "BOr" if rng.random() < 0.85 else "BAnd", tree(rng.randint(0, 2)), tree(rng.randint(0, 2))))


def gen_invert(rng):
    def operand():
        r = rng.random()
        if r < 0.45:
            return N(rng.randrange(8))
        if r < 0.65:
            return I(rng.choice(INTS))
        if r < 0.78:
            return S(rng.choice(STRS))
        if r < 0.84:
            return ("ESet", [I(rng.randrange(4)) for _ in range(rng.randint(1, 2))])
        if r < 0.90:
            return ("EList", [I(rng.randrange(4)) for _ in range(rng.randint(0, 3))])
        if r < 0.94:
            return ("ETuple", [I(rng.randrange(4)) for _ in range(rng.randint(0, 2))])
        if r < 0.97:
            return NANC
        return rng.choice([B(True), B(False), NONE])

    def cmp():
        n = rng.choice([1, 1, 1, 1, 2, 3])
        ops = [rng.choice(["Eq", "NotEq", "Lt", "LtE", "Gt", "GtE", "Eq", "Lt", "Is", "IsNot", "In", "NotIn"]) for _ in range(n)]
        rest = []
        for o in ops:
            c = operand()
            if o in ("Is", "IsNot") and rng.random() < 0.8:
                c = rng.choice([B(True), B(False), NONE, B(True), B(False)])
            if o in ("In", "NotIn") and rng.random() < 0.7:
                c = rng.choice([("EList", [I(rng.randrange(3)) for _ in range(2)]), N(rng.randrange(8)), ("ESet", [I(1), I(2)])])
            rest.append((o, c))
        return ("ECmp", True, operand(), rest)
    e = ("ENot", True, cmp())
    r = rng.random()
    if r < 0.12:
        e = ("ENot", True, e)
    elif r < 0.2:
        e = ("EBool", True, rng.choice(["BOr", "BAnd"]), e, ("ENot", True, cmp()))
    return wrap_context(rng, e)


def gen_generator(rng):
    x = 5
    f = rng.choice(["BAny", "BAll", "BSum", "BMin", "BMax", "BAny", "BAll"])
    if rng.random() < 0.1:      # builtins the codemod must leave alone
        f = rng.choice(["BLen", "BSet", "BCallable"])
    it = rng.choice([("EList", [I(rng.choice(INTS)) for _ in range(rng.randint(0, 4))]), N(rng.randrange(8)),
                     ("ETuple", [I(rng.choice(INTS)) for _ in range(rng.randint(0, 3))]),
                     ("ESet", [I(rng.randrange(4)) for _ in range(rng.randint(1, 3))])])
    elt = rng.choice([N(x), ("EFloorDiv", I(rng.choice([1, 2, 6])), N(x)), ("EFloorDiv", N(x), I(rng.choice([1, 2, 0]))),
                      ("ECmp", True, N(x), [(rng.choice(["Gt", "Lt", "Eq", "GtE"]), I(rng.choice(INTS)))]),
                      ("ENot", True, N(x)), ("EBool", True, "BOr", N(x), N(rng.randrange(8))),
                      ("ECmp", True, N(x), [("In", N(rng.randrange(8)))]), N(rng.randrange(8)),
                      ("ECall", "BLen", [N(x)]), ("ETuple", [N(x), I(1)])])
    args = [("EListComp", elt, x, it)]
    r = rng.random()
    if r < 0.12:
        args.append(rng.choice([I(10), I(0), N(rng.randrange(8))]))
    elif r < 0.15:
        args = []
    elif r < 0.22:
        args = [rng.choice([N(rng.randrange(8)), ("EList", [I(1), I(2)])])]
    e = ("ECall", f, args)
    r = rng.random()
    if r < 0.1:
        return ("ECall", "BLen", [("EList", [e])])
    if r < 0.15:
        return ("EMeth", 0, "Startswith", [("ETuple", [S("x")])]) if rng.random() < 0.3 else ("ETuple", [e, e])
    if r < 0.22:
        return ("EListComp", e, 4, ("EList", [I(1), I(2)]))
    return wrap_context(rng, e)


def gen_setlit(rng):
    def el():
        r = rng.random()
        if r < 0.6:
            return I(rng.randrange(8))
        if r < 0.8:
            return N(rng.randrange(8))
        if r < 0.9:
            return ("EList", [I(1)])
        return gen_const(rng)
    arg = rng.choice([("EList", [el() for _ in range(rng.randint(0, 4))]), ("EList", [el() for _ in range(rng.randint(0, 4))]),
                      ("EList", []), N(rng.randrange(8)), ("ETuple", [I(1), I(2)]), ("EListComp", N(5), 5, ("EList", [I(1), I(1)]))])
    args = [arg]
    if rng.random() < 0.05:
        args = rng.choice([[], [arg, I(1)]])
    e = ("ECall", "BSet", args)
    r = rng.random()
    if r < 0.15:
        e = ("ECall", "BLen", [e])
    elif r < 0.25:
        e = ("ECall", "BSet", [("EList", [("ECall", "BLen", [e]), I(1)])])
    elif r < 0.35:
        e = ("ECmp", True, e, [(rng.choice(["Lt", "LtE", "Eq", "Gt"]), ("ECall", "BSet", [("EList", [I(1), I(2)])]))])
    return wrap_context(rng, e)


def gen_hasattr(rng):
    a = rng.choice([N(rng.randrange(8)), N(rng.randrange(8)), N(rng.randrange(8)), ("EType", rng.choice(TYPE_POOL)), I(1), S("x"),
                    ("EBool", True, "BOr", N(rng.randrange(8)), N(rng.randrange(8)))])
    attr = S(CALL) if rng.random() < 0.85 else S(rng.choice(["foo", "bar"]))
    e = ("ECall", "BHasattr", [a, attr])
    r = rng.random()
    if r < 0.06:        # one and three arguments: TypeError in the original
        e = ("ECall", "BHasattr", [attr])
    elif r < 0.14:
        e = ("ECall", "BHasattr", [a, S(rng.choice(["foo", "x"])), attr])
    r = rng.random()
    if r < 0.1:
        e = ("ECall", "BHasattr", [e, S(CALL)])
    elif r < 0.2:
        e = ("EBool", True, "BAnd", e, ("ECall", "BCallable", [a]))
    return wrap_context(rng, e)


def _level(e):
    """binding strength of the node's own operator when it stands without parentheses"""
    return {"EBool": 1 if e[0] == "EBool" and e[2] == "BOr" else 2, "ENot": 3, "ECmp": 4}.get(e[0], 5) if e[0] in ("EBool", "ENot", "ECmp") else 5


def minimal_flags(e, need=0):
    """the same tree printed with only the parentheses Python's precedences need (or < and < not < comparison < atom):
    `need` is the weakest binding the position accepts"""
    k = e[0]
    m = minimal_flags
    if k in ("EName", "EConst", "EType"):
        return e
    if k in ("ETuple", "EList", "ESet"):
        return (k, [m(x) for x in e[1]])
    if k == "EMeth":
        return (k, e[1], e[2], [m(x) for x in e[3]])
    if k == "ECall":
        return (k, e[1], [m(x) for x in e[2]])
    if k == "EBool":
        lv = 1 if e[2] == "BOr" else 2
        return (k, lv < need, e[2], m(e[3], lv), m(e[4], lv + 1))
    if k == "ENot":
        return (k, 3 < need, m(e[2], 3))
    if k == "ECmp":
        return (k, 4 < need, m(e[2], 5), [(o, m(b, 5)) for o, b in e[3]])
    if k == "EListComp":
        return (k, m(e[1]), e[2], m(e[3], 1))
    if k == "EGen":
        return (k, e[1], m(e[2]), e[3], m(e[4], 1))
    if k == "EFloorDiv":
        return (k, m(e[1], 5), m(e[2], 5))
    return (k, e[1], m(e[2], 5))


def gen_empty_seq(rng, top=False):
    """comparisons with an empty list / tuple display on either side (mostly == and !=), operands of every kind; near misses:
    other operators, chains, non-empty displays, empty set()/dict-like calls; nested comparisons"""
    def operand(d=0):
        r = rng.random()
        if r < 0.55:
            return N(rng.randrange(8))
        if r < 0.65:
            return rng.choice([I(rng.choice(INTS)), S(rng.choice(STRS)), B(True), NONE])
        if r < 0.72:
            return ("EList", [I(1)]) if rng.random() < 0.5 else ("ETuple", [I(1), I(2)])
        if r < 0.80:
            return ("ECall", rng.choice(["BLen", "BSet", "BBool"]), [N(rng.randrange(8))])
        if r < 0.86:
            return ("EBool", True, rng.choice(["BOr", "BAnd"]), N(rng.randrange(8)), N(rng.randrange(8)))
        if r < 0.92 and d < 2:
            return cmp(d + 1)
        return rng.choice([("EList", []), ("ETuple", [])])

    def cmp(d=0):
        emp = rng.choice([("EList", []), ("EList", []), ("ETuple", [])])
        op = rng.choice(["Eq", "Eq", "Eq", "NotEq", "NotEq", "NotEq", "Lt", "Is", "In", "GtE"])
        x = operand(d)
        rest = [(op, emp)] if rng.random() < 0.7 else [(op, x)]
        left = x if rest[0][1] is emp else emp
        if rng.random() < 0.1:
            rest.append((rng.choice(["Eq", "NotEq"]), operand(d)))
        return ("ECmp", True, left, rest)
    e = cmp()
    if top and rng.random() < 0.7:
        return e
    r = rng.random()
    if r < 0.15:
        e = ("ENot", True, e)
    elif r < 0.3:
        e = ("EBool", True, rng.choice(["BOr", "BAnd"]), e, cmp())
    elif r < 0.4:
        e = ("EFloorDiv", e, I(rng.choice([1, 2, 0])))
    elif r < 0.5:
        e = ("ECall", "BLen", [("EList", [e, cmp()])])
    return e if top else wrap_context(rng, e)


def gen_identity(rng):
    """`x is <literal or new object>` / `is not`, literals of every kind on either side; near misses: is None / True, names,
    negative ints, len(...) calls, chains; nested comparisons"""
    def lit():
        r = rng.random()
        if r < 0.25:
            return ("EList", [I(rng.randrange(3)) for _ in range(rng.randint(0, 2))])
        if r < 0.45:
            return ("ETuple", [I(rng.randrange(3)) for _ in range(rng.randint(0, 2))])
        if r < 0.55:
            return ("ESet", [I(rng.randrange(3))])
        if r < 0.7:
            return I(rng.choice([0, 1, 2, 7]))
        if r < 0.85:
            return S(rng.choice(STRS))
        return ("ECall", "BSet", [("EList", [I(1)])] if rng.random() < 0.5 else [])

    def other(d=0):
        r = rng.random()
        if r < 0.5:
            return N(rng.randrange(8))
        if r < 0.65:
            return rng.choice([NONE, B(True), B(False), NANC, I(-1)])
        if r < 0.75:
            return ("ECall", "BLen", [N(rng.randrange(8))])
        if r < 0.9 and d < 2:
            return cmp(d + 1)
        return lit()

    def cmp(d=0):
        op = rng.choice(["Is", "Is", "Is", "IsNot", "IsNot", "Eq", "In"])
        a, b = (other(d), lit()) if rng.random() < 0.6 else (lit(), other(d))
        if rng.random() < 0.15:
            b = other(d)
        rest = [(op, b)]
        if rng.random() < 0.08:
            rest.append((rng.choice(["Is", "Eq"]), other(d)))
        return ("ECmp", True, a, rest)
    e = cmp()
    r = rng.random()
    if r < 0.15:
        e = ("ENot", True, e)
    elif r < 0.3:
        e = ("EBool", True, rng.choice(["BOr", "BAnd"]), e, cmp())
    elif r < 0.4:
        e = ("ECall", "BLen", [("EList", [e, cmp()])])
    return wrap_context(rng, e)


def gen_str_concat(rng):
    """list / tuple / set displays with implicitly concatenated string literals among their elements, nested displays; near
    misses: a concatenation outside a display (call argument, comparison operand), displays without any"""
    def jx():
        return ("EJuxt", rng.choice([0, 0, 1]), S(rng.choice(["x", "y", "ab", "q z"])))

    def elem(d):
        r = rng.random()
        if r < 0.35:
            return jx()
        if r < 0.6:
            return S(rng.choice(STRS))
        if r < 0.75:
            return N(rng.randrange(8))
        if r < 0.9 and d < 2:
            return display(d + 1)
        return I(rng.choice(INTS))

    def display(d=0):
        kind = rng.choice(["EList", "EList", "ETuple", "ETuple", "ESet"])
        n = rng.randint(1, 3) if kind == "ESet" or rng.random() < 0.9 else 0
        return (kind, [elem(d) for _ in range(n)])
    e = display()
    r = rng.random()
    if r < 0.12:
        e = ("ECall", "BLen", [e])
    elif r < 0.2:
        e = ("ECall", "BLen", [jx()])
    elif r < 0.3:
        e = ("ECmp", True, N(rng.randrange(8)), [("In", e)])
    elif r < 0.36:
        e = ("ECmp", True, jx(), [("In", e)])
    return wrap_context(rng, e)


def randomise_flags(rng, e):
    """clear parenthesisation flags at random (the result may be ill-formed or parse differently: that is the point)"""
    k = e[0]
    f = lambda x: randomise_flags(rng, x)
    p = rng.random() < 0.5
    if k in ("EName", "EConst", "EType"):
        return e
    if k in ("ETuple", "EList", "ESet"):
        return (k, [f(x) for x in e[1]])
    if k == "EMeth":
        return (k, e[1], e[2], [f(x) for x in e[3]])
    if k == "ECall":
        return (k, e[1], [f(x) for x in e[2]])
    if k == "EBool":
        return (k, p, e[2], f(e[3]), f(e[4]))
    if k == "ENot":
        return (k, p, f(e[2]))
    if k == "ECmp":
        return (k, p, f(e[2]), [(o, f(b)) for o, b in e[3]])
    if k == "EListComp":
        return (k, f(e[1]), e[2], f(e[3]))
    if k == "EGen":
        return (k, e[1], f(e[2]), e[3], f(e[4]))
    if k == "EFloorDiv":
        return (k, f(e[1]), f(e[2]))
    return (k, e[1], f(e[2]))
