from typing import List, Union

import libcst as cst

from codemodder.codemods.libcst_transformer import (
    LibcstResultTransformer,
    LibcstTransformerPipeline,
)
from codemodder.codemods.utils_mixin import NameResolutionMixin
from core_codemods.api import Metadata, ReviewGuidance
from core_codemods.api.core_codemod import CoreCodemod


class FixAssertTupleTransform(LibcstResultTransformer, NameResolutionMixin):
    change_description = "Separate assertion on a non-empty tuple literal into multiple assert statements."

    def leave_SimpleStatementLine(
        self,
        original_node: cst.SimpleStatementLine,
        updated_node: cst.SimpleStatementLine,
    ) -> Union[cst.FlattenSentinel, cst.SimpleStatementLine]:

        if len(original_node.body) == 1 and isinstance(
            assert_node := original_node.body[0], cst.Assert
        ):
            match assert_test := assert_node.test:
                case cst.Tuple():
                    if not self.node_is_selected(assert_test):
                        return updated_node

                    if not assert_test.elements:
                        return updated_node
                    new_asserts = self._make_asserts(assert_node)
                    self._report_new_lines(original_node, len(new_asserts))
                    return cst.FlattenSentinel(new_asserts)
        return updated_node

    def _make_asserts(self, node: cst.Assert) -> List[cst.SimpleStatementLine]:
        return [
            cst.SimpleStatementLine(
                body=[cst.Assert(test=self._standalone(element.value), msg=node.msg)]
            )
            for element in node.test.elements
        ]

    def _standalone(self, expr: cst.BaseExpression) -> cst.BaseExpression:
        # Inside the tuple's parentheses an element may be a walrus or span
        # several lines; as the test of its own assert it needs parentheses
        if not expr.lpar and (
            isinstance(expr, cst.NamedExpr) or "\n" in self.code(expr).strip()
        ):
            return expr.with_changes(
                lpar=[cst.LeftParen()], rpar=[cst.RightParen()]
            )
        return expr

    def _report_new_lines(
        self, original_node: cst.SimpleStatementLine, newlines_count: int
    ):
        start_line = self.node_position(original_node).start.line
        for idx in range(newlines_count):
            self.report_change_for_line(start_line + idx)


FixAssertTuple = CoreCodemod(
    metadata=Metadata(
        name="fix-assert-tuple",
        summary="Fix `assert` on Non-Empty Tuple Literal",
        review_guidance=ReviewGuidance.MERGE_AFTER_CURSORY_REVIEW,
        references=[],
    ),
    transformer=LibcstTransformerPipeline(FixAssertTupleTransform),
    detector=None,
)
