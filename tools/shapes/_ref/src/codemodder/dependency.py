from dataclasses import dataclass, field

from packaging.requirements import Requirement


@dataclass
class License:
    name: str
    url: str


@dataclass
class Dependency:
    requirement: Requirement
    description: str
    _license: License
    oss_link: str
    package_link: str
    hashes: list[str] = field(default_factory=list)
    # Forward reference
    type_stubs: list["Dependency"] = field(default_factory=list)

    @property
    def name(self) -> str:
        return self.requirement.name

    @property
    def version(self) -> str:
        return self.requirement.specifier.__str__().strip()

    def build_description(self) -> str:
        return f"""{self.description}

License: [{self._license.name}]({self._license.url}) ✅ \
[Open Source]({self.oss_link}) ✅ \
[More facts]({self.package_link})
"""

    def build_hashes(self) -> list[str]:
        return [f"{' '*4}--hash=sha256:{sha256}" for sha256 in self.hashes]

    def __hash__(self):
        return hash(self.requirement)


FlaskWTF = Dependency(
    Requirement("flask-wtf==1.2.1"),
    hashes=[
        "fa6793f2fb7e812e0fe9743b282118e581fb1b6c45d414b8af05e659bd653287",
        "8bb269eb9bb46b87e7c8233d7e7debdf1f8b74bf90cc1789988c29b37a97b695",
    ],
    description="""\
            This package integrates WTForms into Flask. WTForms provides data validation and and CSRF protection which helps harden applications.
""",
    _license=License(
        "BSD-3-Clause",
        "https://opensource.org/license/BSD-3-clause/",
    ),
    oss_link="https://github.com/wtforms/flask-wtf/",
    package_link="https://pypi.org/project/Flask-WTF/",
    type_stubs=[
        Dependency(
            Requirement("types-WTForms==3.1.0.20240425"),
            hashes=[
                "449b6e3756b2bc70657e98d989bdbf572a25466428774be96facf9debcbf6c4e",
                "49ffc1fe5576ea0735b763fff77e7060dd39ecc661276cbd0b47099921b3a6f2",
            ],
            description="""\
                    This is a type stub package for the WTForms package.
        """,
            _license=License(
                "Apache-2.0",
                "https://opensource.org/license/apache-2-0",
            ),
            oss_link="https://github.com/python/typeshed",
            package_link="https://pypi.org/project/types-WTForms/",
        ),
    ],
)

DefusedXML = Dependency(
    Requirement("defusedxml==0.7.1"),
    hashes=[
        "a352e7e428770286cc899e2542b6cdaedb2b4953ff269a210103ec58f6198a61",
        "1bb3032db185915b62d7c6209c5a8792be6a32ab2fedacc84e01b52c51aa3e69",
    ],
    description="""\
This package is [recommended by the Python community](https://docs.python.org/3/library/xml.html#the-defusedxml-package) \
to protect against XML vulnerabilities.\
""",
    _license=License(
        "PSF-2.0",
        "https://opensource.org/license/python-2-0/",
    ),
    oss_link="https://github.com/tiran/defusedxml",
    package_link="https://pypi.org/project/defusedxml/",
    type_stubs=[
        Dependency(
            Requirement("types-defusedxml==0.7.0.20240218"),
            hashes=[
                "2b7f3c5ca14fdbe728fab0b846f5f7eb98c4bd4fd2b83d25f79e923caa790ced",
                "05688a7724dc66ea74c4af5ca0efc554a150c329cb28c13a64902cab878d06ed",
            ],
            description="""\
                This is a type stub package for the defusedxml package.
    """,
            _license=License(
                "Apache-2.0",
                "https://opensource.org/license/apache-2-0",
            ),
            oss_link="https://github.com/python/typeshed",
            package_link="https://pypi.org/project/types-defusedxml/",
        ),
    ],
)

Security = Dependency(
    Requirement("security==1.3.1"),
    hashes=[
        "9df6e75393f494ca3fd06dac3ed02f3c4fed60842b13fd00757b026cedff426b",
        "7ec0853c74c7dd22a9967bda087db5d4a7df58253574e60ec475c660f839da6d",
    ],
    description="""This library holds security tools for protecting Python API calls.""",
    _license=License(
        "MIT",
        "https://opensource.org/license/MIT/",
    ),
    oss_link="https://github.com/pixee/python-security",
    package_link="https://pypi.org/project/security/",
)

Fickling = Dependency(
    Requirement("fickling~=0.1.0,>=0.1.3"),
    hashes=[
        "c7ad5885cd97f8c693cf7824fdbcf9d103dbacbce36546e5a031805a7261bb74",
        "606b3153ad4b2c0338930d08a739f7f10a560f996e0bd3a4b46544417254b0d0",
    ],
    description="""This package provides analysis of pickled data to help identify potential security vulnerabilities.""",
    _license=License(
        "LGPL-3.0",
        "https://opensource.org/license/LGPL-3.0/",
    ),
    oss_link="https://github.com/trailofbits/fickling",
    package_link="https://pypi.org/project/fickling/",
)


DEPENDENCY_NOTIFICATION = """
## Dependency Updates

This codemod relies on an external dependency. We have automatically added this dependency to your project's `{filename}` file. 

{description} 

There are a number of places where Python project dependencies can be expressed, including `setup.py`, `pyproject.toml`, `setup.cfg`, and `requirements.txt` files. If this change is incorrect, or if you are using another packaging system such as `poetry`, it may be necessary for you to manually add the dependency to the proper location in your project.
"""

FAILED_DEPENDENCY_NOTIFICATION = """
## Dependency Updates

This codemod relies on an external dependency. However, we were unable to automatically add the dependency to your project. 

{description} 

There are a number of places where Python project dependencies can be expressed, including `setup.py`, `pyproject.toml`, `setup.cfg`, and `requirements.txt` files. You may need to manually add this dependency to the proper location in your project.

### Manual Installation

For `setup.py`:
```diff
 install_requires=[
+    "{requirement}",
 ],
```

For `pyproject.toml` (using `setuptools`):
```diff
 [project]
 dependencies = [
+    "{requirement}",
 ]
```

For `setup.cfg`:
```diff
 [options]
 install_requires =
+    {requirement}
```

For `requirements.txt`:
```diff
+{requirement}
```

For more information on adding dependencies to `setuptools` projects, see [the setuptools documentation](https://setuptools.pypa.io/en/latest/userguide/dependency_management.html#declaring-required-dependency). 

If you are using another build system, please refer to the documentation for that system to determine how to add dependencies.
"""


def build_dependency_notification(filename: str, dependency: Dependency) -> str:
    return DEPENDENCY_NOTIFICATION.format(
        filename=filename,
        description=dependency.description,
    )


def build_failed_dependency_notification(dependency: Dependency) -> str:
    return FAILED_DEPENDENCY_NOTIFICATION.format(
        description=dependency.description,
        requirement=dependency.requirement,
    )
