(** Lemmas for C11: schedule independence, merge order, pool bound, registry order, path order. *)
From CM Require Import Base.Dict Proofs.DictFacts Model.Sched Spec.SchedSpec.
From Coq Require Import Permutation Sorted Arith.

(* ------------------------------------------------------------------------------------------------ *)
(** * List update *)
Lemma length_upd {A} (l : list A) i x : length (upd l i x) = length l.
Proof. revert i. induction l as [|y r IH]; intros [|j]; simpl; auto. Qed.

Lemma nth_error_upd_same {A} (l : list A) i x : i < length l -> nth_error (upd l i x) i = Some x.
Proof.
  revert i. induction l as [|y r IH]; intros [|j] H; simpl in *; try lia; auto.
  apply IH. lia.
Qed.

Lemma nth_error_upd_other {A} (l : list A) i j x : i <> j -> nth_error (upd l i x) j = nth_error l j.
Proof.
  revert i j. induction l as [|y r IH]; intros [|i] [|j] H; simpl; auto; try congruence.
Qed.

Lemma nth_error_lt {A} (l : list A) i x : nth_error l i = Some x -> i < length l.
Proof. intros H. apply nth_error_Some. congruence. Qed.

Lemma nth_error_ex {A} (l : list A) i : i < length l -> exists x, nth_error l i = Some x.
Proof. intros H. destruct (nth_error l i) eqn:E; eauto. apply nth_error_None in E. lia. Qed.

(* ------------------------------------------------------------------------------------------------ *)
(** * Interleavings *)
Lemma il_cons_nil {A} (ls : list (list A)) tr : interleaving ls tr -> interleaving ([] :: ls) tr.
Proof.
  induction 1 as [ls Hall | ls i x l tr Hn _ IH].
  - apply il_nil. intros l [<-|Hin]; auto.
  - apply il_pick with (i := S i) (l := l); simpl; auto.
Qed.

Lemma interleaving_concat {A} (ls : list (list A)) : interleaving ls (concat ls).
Proof.
  induction ls as [|l ls IH]; simpl.
  - apply il_nil. intros l [].
  - induction l as [|x l IHl]; simpl.
    + now apply il_cons_nil.
    + apply il_pick with (i := 0) (l := l); simpl; auto.
Qed.

Lemma ev_eqb_eq a b : ev_eqb a b = true -> a = b.
Proof. destruct a, b; simpl; try discriminate; intros H; apply Nat.eqb_eq in H; now subst. Qed.

Lemma check_il_sound tr : forall ls, check_il ls tr = true -> interleaving ls tr.
Proof.
  induction tr as [|e r IH]; intros ls H; simpl in H.
  - apply il_nil. intros l Hin. rewrite forallb_forall in H. specialize (H l Hin). now destruct l.
  - destruct (nth_error ls (ev_task e)) as [[|x l]|] eqn:E; try discriminate.
    apply andb_true_iff in H. destruct H as [He Hr]. apply ev_eqb_eq in He. subst x.
    eapply il_pick; eauto.
Qed.

Lemma nth_error_tasks n i : i < n -> nth_error (tasks n) i = Some (task_evs i).
Proof.
  intros H. unfold tasks. rewrite nth_error_map.
  assert (E : nth_error (seq 0 n) i = Some i).
  { rewrite (nth_error_nth' (seq 0 n) 0) by (now rewrite seq_length). now rewrite seq_nth. }
  now rewrite E.
Qed.

Lemma length_tasks n : length (tasks n) = n.
Proof. unfold tasks. now rewrite map_length, seq_length. Qed.

(* ------------------------------------------------------------------------------------------------ *)
(** * The invariant of a run of the tasks under an arbitrary interleaving *)
Section Exec.
  Variable T : transformer.
  Variable fnd : path -> findings.
  Variable files : list path.
  Variable fs0 : fsys.
  Hypothesis Hnd : List.NoDup files.

  Let c0 (p : path) := lookup fs0 p.
  Let o0 (p : path) := T p (fnd p) (c0 p).
  Let stp := step files T fnd.

  Definition phase_ok (i : nat) (p : path) (rem : list ev) (st : state) : Prop :=
    (rem = [Read i; Compute i; Write i] /\ lookup (st_fs st) p = c0 p) \/
    (rem = [Compute i; Write i] /\ lookup (st_fs st) p = c0 p /\ dget Nat.eqb i (st_rd st) = Some (c0 p)) \/
    (rem = [Write i] /\ lookup (st_fs st) p = c0 p /\ dget Nat.eqb i (st_out st) = Some (o0 p)) \/
    (rem = [] /\ lookup (st_fs st) p = final_content T fnd fs0 p /\ dget Nat.eqb i (st_out st) = Some (o0 p)).

  Definition Inv (ls : list (list ev)) (st : state) : Prop :=
    length ls = length files /\
    (forall i p rem, nth_error files i = Some p -> nth_error ls i = Some rem -> phase_ok i p rem st) /\
    (forall p, ~ In p files -> lookup (st_fs st) p = c0 p).

  Definition Final (st : state) : Prop :=
    (forall i p, nth_error files i = Some p ->
       lookup (st_fs st) p = final_content T fnd fs0 p /\ dget Nat.eqb i (st_out st) = Some (o0 p)) /\
    (forall p, ~ In p files -> lookup (st_fs st) p = c0 p).

  Lemma phase_ok_frame j q rem st st' :
    phase_ok j q rem st ->
    lookup (st_fs st') q = lookup (st_fs st) q ->
    dget Nat.eqb j (st_rd st') = dget Nat.eqb j (st_rd st) ->
    dget Nat.eqb j (st_out st') = dget Nat.eqb j (st_out st) ->
    phase_ok j q rem st'.
  Proof.
    intros H Hf Hr Ho. unfold phase_ok in *. rewrite Hf, Hr, Ho. exact H.
  Qed.

  Lemma lookup_write_same fs p c : lookup (write fs p c) p = Some c.
  Proof. unfold lookup, write. apply dget_dset_same. apply str_eqb_spec. Qed.
  Lemma lookup_write_other fs p q c : q <> p -> lookup (write fs p c) q = lookup fs q.
  Proof. intros H. unfold lookup, write. apply dget_dset_other; auto. apply str_eqb_spec. Qed.

  Lemma files_distinct i j p q : nth_error files i = Some p -> nth_error files j = Some q -> i <> j -> p <> q.
  Proof.
    intros Hi Hj Hne Heq. subst q. apply Hne.
    eapply (proj1 (NoDup_nth_error files)); eauto.
    - eapply nth_error_lt; eauto.
    - congruence.
  Qed.

  Lemma Inv_step ls st i x l :
    Inv ls st -> nth_error ls i = Some (x :: l) -> Inv (upd ls i l) (stp st x).
  Proof.
    intros (Hlen & Hph & Hout) Hn.
    assert (Hi : i < length ls) by (eapply nth_error_lt; eauto).
    destruct (nth_error_ex files i) as [p Hp]; [lia|].
    pose proof (Hph i p _ Hp Hn) as Hcur.
    (* the three shapes of the step, each touching only task i and (for Write) only the file p *)
    assert (Hstep :
      phase_ok i p l (stp st x) /\
      (forall q, q <> p -> lookup (st_fs (stp st x)) q = lookup (st_fs st) q) /\
      (forall j, j <> i -> dget Nat.eqb j (st_rd (stp st x)) = dget Nat.eqb j (st_rd st)) /\
      (forall j, j <> i -> dget Nat.eqb j (st_out (stp st x)) = dget Nat.eqb j (st_out st))).
    { unfold phase_ok in Hcur.
      destruct Hcur as [[E Hf] | [[E (Hf & Hr)] | [[E (Hf & Ho)] | [E _]]]]; try discriminate.
      - (* Read *)
        injection E as -> ->. unfold stp, step. rewrite Hp.
        split; [|split; [|split]]; simpl; auto.
        + right. left. simpl. repeat split; auto. rewrite Hf. apply dget_dset_same. apply Nat.eqb_spec.
        + intros j Hj. apply dget_dset_other; auto. apply Nat.eqb_spec.
      - (* Compute *)
        injection E as -> ->. unfold stp, step. rewrite Hp, Hr.
        split; [|split; [|split]]; simpl; auto.
        + right. right. left. simpl. repeat split; auto. apply dget_dset_same. apply Nat.eqb_spec.
        + intros j Hj. apply dget_dset_other; auto. apply Nat.eqb_spec.
      - (* Write *)
        injection E as -> ->. unfold stp, step. rewrite Hp, Ho.
        assert (Hfc : final_content T fnd fs0 p = match fst (o0 p) with Some c => Some c | None => c0 p end) by reflexivity.
        destruct (o0 p) as [[c'|] r] eqn:Eo.
        + split; [|split; [|split]]; simpl; auto.
          * right. right. right. simpl. repeat split; auto; try (rewrite Eo; exact Ho).
            rewrite lookup_write_same. now rewrite Hfc.
          * intros q Hq. now apply lookup_write_other.
        + split; [|split; [|split]]; simpl; auto.
          right. right. right. simpl. repeat split; auto; try (rewrite Eo; exact Ho). now rewrite Hfc. }
    destruct Hstep as (Hnew & Hfs & Hrd & Hot).
    split; [now rewrite length_upd|]. split.
    - intros j q rem Hq Hrem.
      destruct (Nat.eq_dec j i) as [->|Hne].
      + rewrite nth_error_upd_same in Hrem by exact Hi. injection Hrem as <-.
        assert (q = p) by congruence. subst q. exact Hnew.
      + rewrite nth_error_upd_other in Hrem by auto.
        eapply phase_ok_frame; [eapply Hph; eauto| | |]; auto.
        apply Hfs. eapply files_distinct; eauto.
    - intros q Hq. rewrite Hfs; auto.
      intros ->. apply Hq. eapply nth_error_In; eauto.
  Qed.

  Lemma Inv_run ls tr : interleaving ls tr -> forall st, Inv ls st -> Final (fold_left stp tr st).
  Proof.
    induction 1 as [ls Hall | ls i x l tr Hn _ IH]; intros st HI; simpl.
    - destruct HI as (Hlen & Hph & Hout). split; auto.
      intros i p Hp.
      destruct (nth_error_ex ls i) as [rem Hrem]; [rewrite Hlen; eapply nth_error_lt; eauto|].
      assert (rem = []) by (apply Hall; eapply nth_error_In; eauto). subst rem.
      destruct (Hph i p [] Hp Hrem) as [[E _] | [[E _] | [[E _] | [_ H]]]]; try discriminate. exact H.
    - apply IH. now apply Inv_step.
  Qed.

  Lemma Inv_init : Inv (tasks (length files)) (init fs0).
  Proof.
    split; [apply length_tasks|]. split.
    - intros i p rem Hp Hrem. rewrite nth_error_tasks in Hrem by (eapply nth_error_lt; eauto).
      injection Hrem as <-. left. split; reflexivity.
    - reflexivity.
  Qed.

  Lemma exec_final tr : interleaving (tasks (length files)) tr -> Final (exec files T fnd fs0 tr).
  Proof. intros H. unfold exec. eapply Inv_run; eauto. apply Inv_init. Qed.

  Lemma Final_fs st : Final st -> forall p, lookup (st_fs st) p = spec_fs files T fnd fs0 p.
  Proof.
    intros [Hin Hout] p. unfold spec_fs. destruct (mem_str p files) eqn:E.
    - apply mem_str_In in E. apply In_nth_error in E. destruct E as [i Hi]. now apply (Hin i p).
    - apply Hout. intros HIn. apply mem_str_In in HIn. congruence.
  Qed.

  Lemma Final_res st : Final st -> forall i p, nth_error files i = Some p -> res_of st i = snd (o0 p).
  Proof. intros [Hin _] i p Hp. unfold res_of. destruct (Hin i p Hp) as [_ ->]. now destruct (o0 p). Qed.
End Exec.

Lemma map_seq_ext {A B} (f : nat -> B) (g : A -> B) (l : list A) :
  (forall i x, nth_error l i = Some x -> f i = g x) -> map f (seq 0 (length l)) = map g l.
Proof.
  induction l as [|x l IH] using rev_ind; intros H; [reflexivity|].
  rewrite app_length. simpl. rewrite Nat.add_1_r, seq_S, !map_app. simpl. f_equal.
  - apply IH. intros i y Hy. apply H. rewrite nth_error_app1; auto. eapply nth_error_lt; eauto.
  - f_equal. apply H. rewrite nth_error_app2 by lia. now rewrite Nat.sub_diag.
Qed.

(** Every interleaving ends in the state the specification describes. *)
Lemma exec_spec T fnd files fs0 tr :
  List.NoDup files -> interleaving (tasks (length files)) tr ->
  (forall p, lookup (st_fs (exec files T fnd fs0 tr)) p = spec_fs files T fnd fs0 p) /\
  merged MapInputOrder (length files) tr (exec files T fnd fs0 tr) = spec_merged files T fnd fs0.
Proof.
  intros Hnd Hil. pose proof (exec_final T fnd files fs0 Hnd tr Hil) as HF. split.
  - now apply Final_fs.
  - unfold merged, spec_merged, collect_order. f_equal.
    apply map_seq_ext. intros i p Hp. eapply Final_res; eauto.
Qed.

Lemma sequential_interleaving n : interleaving (tasks n) (sequential n).
Proof. apply interleaving_concat. Qed.

Lemma schedule_free T fnd files fs0 tr :
  List.NoDup files -> interleaving (tasks (length files)) tr ->
  let st := exec files T fnd fs0 tr in
  let sq := exec files T fnd fs0 (sequential (length files)) in
  (forall p, lookup (st_fs st) p = lookup (st_fs sq) p) /\
  merged MapInputOrder (length files) tr st = merged MapInputOrder (length files) (sequential (length files)) sq /\
  (forall p, ~ In p files -> lookup (st_fs st) p = lookup fs0 p).
Proof.
  intros Hnd Hil st sq.
  destruct (exec_spec T fnd files fs0 tr Hnd Hil) as [Hfs Hm].
  destruct (exec_spec T fnd files fs0 _ Hnd (sequential_interleaving _)) as [Hfs' Hm'].
  repeat split.
  - intros p. unfold st, sq. now rewrite Hfs, Hfs'.
  - unfold st, sq. now rewrite Hm, Hm'.
  - intros p Hp. unfold st. rewrite Hfs. unfold spec_fs.
    destruct (mem_str p files) eqn:E; auto. apply mem_str_In in E. contradiction.
Qed.

(** Sibling independence *)
Lemma lookup_only_file fs f : lookup (only_file fs f) f = lookup fs f.
Proof.
  unfold only_file. destruct (lookup fs f) eqn:E; [|reflexivity].
  unfold lookup. simpl. now rewrite str_eqb_refl.
Qed.

Lemma sibling_free T D files fs0 f i tr tr1 :
  List.NoDup files -> nth_error files i = Some f -> sibling_independent D ->
  interleaving (tasks (length files)) tr -> interleaving (tasks 1) tr1 ->
  let st := run_codemod files T D fs0 tr in
  let st1 := run_codemod [f] T D (only_file fs0 f) tr1 in
  lookup (st_fs st) f = lookup (st_fs st1) f /\ res_of st i = res_of st1 0.
Proof.
  intros Hnd Hi HD Hil Hil1 st st1.
  assert (Hnd1 : List.NoDup [f]) by (constructor; [intros []|constructor]).
  pose proof (exec_final T (D fs0) files fs0 Hnd tr Hil) as HF.
  pose proof (exec_final T (D (only_file fs0 f)) [f] (only_file fs0 f) Hnd1 tr1 Hil1) as HF1.
  assert (HDf : D (only_file fs0 f) f = D fs0 f) by (apply HD; apply lookup_only_file).
  subst st st1. unfold run_codemod. split.
  - destruct HF as [HF _]. destruct HF1 as [HF1 _].
    destruct (HF i f Hi) as [-> _]. destruct (HF1 0 f eq_refl) as [-> _].
    unfold final_content. now rewrite HDf, lookup_only_file.
  - rewrite (Final_res _ _ _ _ _ HF i f Hi), (Final_res _ _ _ _ _ HF1 0 f eq_refl).
    now rewrite HDf, lookup_only_file.
Qed.

(* ------------------------------------------------------------------------------------------------ *)
(** * The pool *)
Lemma starts_app a b : starts (a ++ b) = starts a + starts b.
Proof. unfold starts. now rewrite filter_app, app_length. Qed.
Lemma finishes_app a b : finishes (a ++ b) = finishes a + finishes b.
Proof. unfold finishes. now rewrite filter_app, app_length. Qed.

Lemma length_remove_nat i l : mem_nat i l = true -> S (length (remove_nat i l)) = length l.
Proof.
  induction l as [|j r IH]; simpl; [discriminate|].
  destruct (Nat.eqb i j); simpl; auto.
Qed.

(** In an admissible trace, after every prefix, the number of running tasks is starts - finishes and is <= b. *)
Lemma admissible_inflight b : forall pre post running started,
  admissible b running started (pre ++ post) = true ->
  (N.of_nat (length running) <= b)%N ->
  exists k, k + finishes pre = length running + starts pre /\ (N.of_nat k <= b)%N.
Proof.
  induction pre as [|e pre IH]; intros post running started H Hb; simpl in *.
  - exists (length running). split; [unfold starts, finishes; simpl; lia | exact Hb].
  - destruct e as [i|i].
    + apply andb_true_iff in H. destruct H as [H H3]. apply andb_true_iff in H. destruct H as [H1 H2].
      apply N.ltb_lt in H1.
      destruct (IH post (i :: running) (i :: started) H3) as [k [Hk Hkb]]; [simpl; lia|].
      exists k. split; auto. unfold starts, finishes in *. simpl in *. lia.
    + apply andb_true_iff in H. destruct H as [H1 H2].
      pose proof (length_remove_nat i running H1) as Hl.
      destruct (IH post (remove_nat i running) started H2) as [k [Hk Hkb]]; [lia|].
      exists k. split; auto. unfold starts, finishes in *. simpl in *. lia.
Qed.

Lemma inflight_le b pre post :
  admissible b [] [] (pre ++ post) = true -> (N.of_nat (inflight pre) <= b)%N.
Proof.
  intros H. destruct (admissible_inflight b pre post [] [] H) as [k [Hk Hkb]]; [simpl; lia|].
  unfold inflight. simpl in Hk. lia.
Qed.

Lemma max_inflight_from_le b : forall tr running started,
  admissible b running started tr = true -> (N.of_nat (length running) <= b)%N ->
  (N.of_nat (max_inflight_from (length running) tr) <= b)%N.
Proof.
  induction tr as [|e tr IH]; intros running started H Hb; simpl in *; auto.
  destruct e as [i|i].
  - apply andb_true_iff in H. destruct H as [H H3]. apply andb_true_iff in H. destruct H as [H1 H2].
    apply N.ltb_lt in H1.
    specialize (IH (i :: running) (i :: started) H3). simpl in IH.
    assert (Hk : (N.of_nat (S (length running)) <= b)%N) by lia.
    specialize (IH Hk). lia.
  - apply andb_true_iff in H. destruct H as [H1 H2].
    pose proof (length_remove_nat i running H1) as Hl.
    specialize (IH (remove_nat i running) started H2).
    assert (Hp : pred (length running) = length (remove_nat i running)) by lia.
    rewrite Hp. assert (Hk : (N.of_nat (length (remove_nat i running)) <= b)%N) by lia.
    specialize (IH Hk). lia.
Qed.

Lemma max_inflight_le b tr : admissible b [] [] tr = true -> (N.of_nat (max_inflight tr) <= b)%N.
Proof. intros H. apply (max_inflight_from_le b tr [] [] H). simpl. lia. Qed.

(* ------------------------------------------------------------------------------------------------ *)
(** * Order of the matched paths *)
Lemma str_leb_refl a : str_leb a a = true.
Proof. induction a as [|x a IH]; simpl; auto. now rewrite N.ltb_irrefl. Qed.

Lemma str_leb_total a : forall b, str_leb a b = true \/ str_leb b a = true.
Proof.
  induction a as [|x a IH]; intros [|y b]; simpl; auto.
  destruct (N.ltb_spec x y), (N.ltb_spec y x); auto; try lia.
Qed.

Lemma str_leb_antisym a : forall b, str_leb a b = true -> str_leb b a = true -> a = b.
Proof.
  induction a as [|x a IH]; intros [|y b]; simpl; auto; try discriminate.
  destruct (N.ltb_spec x y), (N.ltb_spec y x); try discriminate; try lia.
  intros H1 H2. assert (x = y) by lia. subst. f_equal. auto.
Qed.

Lemma str_leb_trans a : forall b c, str_leb a b = true -> str_leb b c = true -> str_leb a c = true.
Proof.
  induction a as [|x a IH]; intros [|y b] [|z c]; simpl; auto; try discriminate.
  destruct (N.ltb_spec x y), (N.ltb_spec y z), (N.ltb_spec x z); auto; try lia;
    destruct (N.ltb_spec y x), (N.ltb_spec z y), (N.ltb_spec z x); auto; try discriminate; try lia.
  apply IH.
Qed.

Definition sorted_paths (l : list str) : Prop := StronglySorted (fun a b => str_leb a b = true) l.

Lemma insert_sorted_perm x l : Permutation (x :: l) (insert_sorted x l).
Proof.
  induction l as [|y r IH]; simpl; auto.
  destruct (str_leb x y); auto.
  eapply perm_trans; [apply perm_swap|]. now apply perm_skip.
Qed.

Lemma insert_sorted_sorted x l : sorted_paths l -> sorted_paths (insert_sorted x l).
Proof.
  unfold sorted_paths. induction 1 as [|y r Hs IH Hall]; simpl.
  - constructor; constructor.
  - destruct (str_leb x y) eqn:E.
    + constructor; [constructor; auto|]. constructor; auto.
      eapply Forall_impl; [|exact Hall]. intros z Hz. eapply str_leb_trans; eauto.
    + constructor; auto.
      assert (Hyx : str_leb y x = true) by (destruct (str_leb_total x y); congruence).
      eapply Permutation_Forall; [apply insert_sorted_perm|]. constructor; auto.
Qed.

Lemma sort_paths_perm l : Permutation l (sort_paths l).
Proof.
  induction l as [|x l IH]; simpl; auto.
  eapply perm_trans; [apply perm_skip; exact IH|]. apply insert_sorted_perm.
Qed.

Lemma sort_paths_sorted l : sorted_paths (sort_paths l).
Proof. induction l as [|x l IH]; simpl; [constructor|]. now apply insert_sorted_sorted. Qed.

Lemma sorted_perm_eq l : forall l', sorted_paths l -> sorted_paths l' -> Permutation l l' -> l = l'.
Proof.
  unfold sorted_paths. induction l as [|x l IH]; intros l' Hs Hs' HP.
  - apply Permutation_nil in HP. now subst.
  - destruct l' as [|y l']; [apply Permutation_sym, Permutation_nil in HP; discriminate|].
    inversion Hs as [|? ? Hsl Hall]; subst. inversion Hs' as [|? ? Hsl' Hall']; subst.
    assert (Hxy : str_leb x y = true).
    { assert (Hin : In y (x :: l)) by (eapply Permutation_in; [apply Permutation_sym; exact HP|now left]).
      destruct Hin as [->|Hin]; [apply str_leb_refl|]. rewrite Forall_forall in Hall. auto. }
    assert (Hyx : str_leb y x = true).
    { assert (Hin : In x (y :: l')) by (eapply Permutation_in; [exact HP|now left]).
      destruct Hin as [->|Hin]; [apply str_leb_refl|]. rewrite Forall_forall in Hall'. auto. }
    assert (x = y) by (now apply str_leb_antisym). subst y.
    f_equal. apply IH; auto. eapply Permutation_cons_inv; eauto.
Qed.

Lemma sort_paths_perm_eq l l' : Permutation l l' -> sort_paths l = sort_paths l'.
Proof.
  intros HP. apply sorted_perm_eq; try apply sort_paths_sorted.
  eapply perm_trans; [apply Permutation_sym, sort_paths_perm|].
  eapply perm_trans; [exact HP|apply sort_paths_perm].
Qed.
