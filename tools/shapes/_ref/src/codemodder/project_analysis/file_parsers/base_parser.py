from abc import ABC, abstractmethod
from pathlib import Path
from typing import List

from codemodder.logging import logger

from .package_store import FileType, PackageStore


class BaseParser(ABC):
    parent_directory: Path

    def __init__(self, parent_directory: Path):
        self.parent_directory = parent_directory

    @property
    @abstractmethod
    def file_type(self) -> FileType:
        pass

    @abstractmethod
    def _parse_file(self, file: Path) -> PackageStore | None:
        pass

    def find_file_locations(self) -> List[Path]:
        # like `files_for_directory`: a symlinked file may live outside the project
        return [
            path
            for path in Path(self.parent_directory).rglob(self.file_type.value)
            if not path.is_symlink()
        ]

    def parse(self) -> list[PackageStore]:
        """
        Find 0 or more project config or dependency files within a project repo.
        """
        stores = []
        req_files = self.find_file_locations()
        for file in req_files:
            try:
                store = self._parse_file(file)
            except Exception as e:
                logger.debug("Error parsing file: %s", file, exc_info=e)
                continue

            if store:
                stores.append(store)
        return stores
