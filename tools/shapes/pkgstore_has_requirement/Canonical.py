class PackageStore:
    def __init__(
        self,
        type: FileType,
        file: Path,
        dependencies: set[str | Requirement],
        py_versions: list[str],
    ):
        self.type = type
        self.file = file
        self.dependencies = {
            x for x in {parse_requirement(dep) for dep in dependencies} if x
        }
        self.py_versions = py_versions
    def has_requirement(self, requirement: Requirement) -> bool:
        return canonicalize_name(requirement.name) in {
            canonicalize_name(dep.name) for dep in self.dependencies
        }

def parse_requirement(requirement: str | Requirement) -> Requirement:
    match requirement:
        case Requirement():
            return requirement
        case _:
            try:
                return Requirement(convert_py_version(requirement))
            except (InvalidRequirement, ValueError):
                return None
