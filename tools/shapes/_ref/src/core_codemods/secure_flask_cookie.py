from core_codemods.api import Metadata, Reference, ReviewGuidance, SimpleCodemod
from core_codemods.secure_cookie_mixin import SecureCookieMixin


class SecureFlaskCookie(SimpleCodemod, SecureCookieMixin):
    metadata = Metadata(
        name="secure-flask-cookie",
        summary="Use Safe Parameters in `flask` Response `set_cookie` Call",
        review_guidance=ReviewGuidance.MERGE_AFTER_CURSORY_REVIEW,
        references=[
            Reference(
                url="https://flask.palletsprojects.com/en/3.0.x/api/#flask.Response.set_cookie"
            ),
            Reference(
                url="https://owasp.org/www-community/controls/SecureCookieAttribute"
            ),
        ],
    )
    change_description = "Flask response `set_cookie` call should be called with `secure=True`, `httponly=True`, and `samesite='Lax'`."
    detector_pattern = """
        rules:
          - id: secure-flask-cookie
            mode: taint
            pattern-sources:
              - pattern-either:
                  - patterns:
                    - pattern: flask.make_response(...)
                    - pattern-inside: |
                        import flask
                        ...
                  - patterns:
                    - pattern: flask.Response(...)
                    - pattern-inside: |
                        import flask
                        ...
            pattern-sinks:
              - patterns:
                - pattern: $SINK.set_cookie(...)
                - pattern-not: $SINK.set_cookie(..., secure=True, ..., httponly=True, ..., samesite="Lax", ...)
                - pattern-not: $SINK.set_cookie(..., secure=True, ..., httponly=True, ..., samesite="Strict", ...)
        """

    def on_result_found(self, original_node, updated_node):
        new_args = self.replace_args(
            original_node, self._choose_new_args(original_node)
        )
        return self.update_arg_target(updated_node, new_args)
