#!/usr/bin/env python3
"""Build-time tool: run the repository's codemod tests with a recording plugin and vendor their INPUT programs
under /verif/corpus/seeds/seeds.json (de-duplicated).  Usage: harvest_seeds.py [repo]"""
import glob, json, os, subprocess, sys, tempfile
from pathlib import Path

VERIF = Path(__file__).resolve().parents[1]
repo = sys.argv[1] if len(sys.argv) > 1 else "/repo"
tmp = tempfile.mkdtemp(prefix="verif-harvest-", dir="/var/tmp")
out = os.path.join(tmp, "rec")
env = dict(os.environ, PATH="/venv/bin:" + os.environ["PATH"], SEMGREP_SEND_METRICS="off", SEMGREP_ENABLE_VERSION_CHECK="0",
           PYTHONPATH=str(VERIF / "tools" / "harvest"), VERIF_HARVEST_OUT=out)
subprocess.run(["/venv/bin/python", "-m", "pytest", "-q", "-p", "no:cacheprovider", "-p", "verif_harvest_plugin", "-p", "no:randomly",
                "-n", "12", "--timeout=900", "tests/codemods"], cwd=repo, env=env, stdout=subprocess.DEVNULL, stderr=subprocess.DEVNULL)
seen, seeds = set(), []
for f in sorted(glob.glob(out + ".*")):
    for line in open(f):
        r = json.loads(line)
        if "error" in r:
            continue
        key = (r["codemod"], r["filename"], r["code"], r["results"])
        if key in seen:
            continue
        seen.add(key)
        seeds.append(r)
seeds.sort(key=lambda r: (r["codemod"], r["filename"], r["code"]))
(VERIF / "corpus" / "seeds").mkdir(parents=True, exist_ok=True)
(VERIF / "corpus" / "seeds" / "seeds.json").write_text(json.dumps(seeds, indent=0))
import shutil; shutil.rmtree(tmp)
from collections import Counter
c = Counter(r["codemod"] for r in seeds)
print(len(seeds), "seeds for", len(c), "codemods;", sum(1 for r in seeds if r["expect_change"]), "expected to change")
