from typing import Optional

import libcst as cst
from libcst import matchers
from libcst.codemod import CodemodContext
from packaging.requirements import Requirement

from codemodder.codemods.api import Metadata, ReviewGuidance, SimpleCodemod
from codemodder.codemods.utils import is_setup_py_file
from codemodder.codemods.utils_mixin import NameResolutionMixin
from codemodder.codetf import ChangeSet
from codemodder.dependency import Dependency
from codemodder.dependency_management.base_dependency_writer import DependencyWriter
from codemodder.diff import create_diff_from_tree
from codemodder.file_context import FileContext


def fixed_line_number_strategy(line_num_changed, _):
    return line_num_changed


class SetupPyWriter(DependencyWriter):
    def add_to_file(
        self, dependencies: list[Dependency], dry_run: bool = False
    ) -> Optional[ChangeSet]:
        input_tree = self._parse_file()
        wrapper = cst.MetadataWrapper(input_tree)
        file_context = FileContext(self.parent_directory, self.path, [], [], [])

        codemod = SetupPyAddDependencies(
            CodemodContext(wrapper=wrapper),
            file_context,
            dependencies=[dep.requirement for dep in dependencies],
            _transformer=True,
        )

        output_tree = codemod.transform_module(input_tree)
        if codemod.line_num_changed is None:
            return None

        diff = create_diff_from_tree(input_tree, output_tree)

        if not dry_run:
            with open(self.path, "w", encoding="utf-8") as f:
                f.write(output_tree.code)

        changes = self.build_changes(
            dependencies, fixed_line_number_strategy, codemod.line_num_changed
        )
        return ChangeSet(
            path=str(self.path.relative_to(self.parent_directory)),
            diff=diff,
            changes=changes,
        )

    def _parse_file(self):
        with open(self.path, encoding="utf-8") as f:
            return cst.parse_module(f.read())


class SetupPyAddDependencies(SimpleCodemod, NameResolutionMixin):
    metadata = Metadata(
        name="setup-py-add-dependencies",
        summary="Add Dependencies to `setup.py` `install_requires`",
        review_guidance=ReviewGuidance.MERGE_WITHOUT_REVIEW,
    )

    def __init__(
        self,
        codemod_context: CodemodContext,
        file_context: FileContext,
        dependencies: list[Requirement],
        **kwargs,
    ):
        SimpleCodemod.__init__(self, codemod_context, [], file_context, **kwargs)
        NameResolutionMixin.__init__(self)
        self.filename = self.file_context.file_path
        self.dependencies = dependencies
        self.line_num_changed = None

    def visit_Module(self, _: cst.Module) -> bool:
        """
        Only visit module with this codemod if it's a setup.py file.
        """
        return is_setup_py_file(self.filename)

    def leave_Call(self, original_node: cst.Call, updated_node: cst.Call):
        if self.find_base_name(original_node.func) != "setuptools.setup":
            return original_node

        new_args = self.replace_arg(original_node)
        return self.update_arg_target(updated_node, new_args)

    def replace_arg(self, original_node: cst.Call):
        new_args = []
        for arg in original_node.args:
            if matchers.matches(
                arg.keyword, matchers.Name("install_requires")
            ) and matchers.matches(arg.value, matchers.List()):
                new = self.add_dependencies_to_arg(arg)
            else:
                new = arg
            new_args.append(new)
        return new_args

    def add_dependencies_to_arg(self, arg: cst.Arg) -> cst.Arg:
        if not arg.value.elements:
            # If there are no current dependencies, don't do anything
            return arg

        # we add the new dependencies in the same line as the last
        # dependency listed in install_requires
        self.line_num_changed = self.lineno_for_node(arg.value.elements[-1]) - 1

        # grab the penultimate comma value if it has more than one element
        new_comma = cst.Comma(whitespace_after=cst.SimpleWhitespace(" "))
        last_element = arg.value.elements[-1]
        new_last_element = cst.Element(
            value=cst.SimpleString(value=f'"{str(self.dependencies[-1])}"')
        )
        if len(arg.value.elements) > 1:
            new_comma = arg.value.elements[-2].comma
            # if it has a newline, add a comma to the last element
            # this follows black's standard
            match new_comma.whitespace_after:
                case cst.ParenthesizedWhitespace(
                    first_line=cst.TrailingWhitespace(newline=cst.Newline())
                ):
                    new_last_element = new_last_element.with_changes(comma=cst.Comma())
        else:
            # infer the indentation from lbracket, if any
            match lbracket_whitespace := arg.value.lbracket.whitespace_after:
                case cst.ParenthesizedWhitespace():
                    new_comma = cst.Comma(
                        whitespace_after=cst.ParenthesizedWhitespace(
                            indent=True,
                            last_line=lbracket_whitespace.last_line,
                        )
                    )
                    # In a list with a single element, libcst will attribute the newline to the rbracket
                    match arg.value.rbracket.whitespace_before.first_line:
                        case cst.TrailingWhitespace(newline=cst.Newline()):
                            new_last_element = new_last_element.with_changes(
                                comma=cst.Comma()
                            )

        new_dependencies = [
            cst.Element(value=cst.SimpleString(value=f'"{str(dep)}"'), comma=new_comma)
            for dep in self.dependencies[:-1]
        ] + [new_last_element]

        return cst.Arg(
            keyword=arg.keyword,
            value=arg.value.with_changes(
                elements=[
                    *arg.value.elements[:-1],
                    last_element.with_changes(comma=new_comma),
                    *new_dependencies,
                ],
            ),
            equal=arg.equal,
            comma=arg.comma,
            star=arg.star,
            whitespace_after_star=arg.whitespace_after_star,
            whitespace_after_arg=arg.whitespace_after_arg,
        )
