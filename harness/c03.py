"""C03 — the diff in the report is exactly the change made on disk.

(1) pure: generated text pairs -> real difflib.SequenceMatcher(None,a,b).get_grouped_opcodes(3) fed to the Coq
    udiff_lines/difflines_to_str and compared with the real create_diff text (model_ok); the real diff applied by the
    Coq reference applier apply_udiff must give back the new text up to the final newline (spec_ok);
    calc_line_num_changes real vs model; str.splitlines vs the model's splitlines_keepends; the matcher's two oracle
    contracts; the Python transcription of the applier vs the Coq one.
(2) end-to-end: the real CLI on small generated projects with sequences of codemods; for every path the reported
    diffs are folded with the reference applier from the original bytes and compared with the bytes on disk; paths
    without a changeset must be byte-identical; paths with one must have changed.
"""
from __future__ import annotations

import base64
import concurrent.futures as cf
import difflib
import json
import os
import time
from pathlib import Path

from harness import c03_ref as ref
from harness import core
from harness.core import cN, cZ, cbool, clist, copt, cstr

META = {
    "rule": "pure: pairs of texts (LF/CRLF/mixed, with/without final newline, duplicates, empty, single line, long runs, "
            "edits at both ends, hunks close together and far apart, lines that look like diff syntax) + a separate exotic "
            "stream; non-trivial = non-empty diff, distinct by (old,new) text. end-to-end: 2-4 file projects with trigger "
            "blocks of libcst-only codemods (+ dependency-adding ones and a manifest) in layout variants, random codemod "
            "sequences through the real CLI, plus SAST-mode projects (tool result files from real spans) for the tool-driven "
            "dependency-adding codemods with every manifest kind; non-trivial = at least one changeset, distinct by (project, sequence)",
    "trusted": ["difflib.SequenceMatcher (matching oracle; only its two contracts are used and they are tested each run)",
                "libcst parse/codegen (oracle; code(parse t) = t is the contract of the FromTrees variant, tested each run)",
                "harness/c03_ref.py: Python transcription of apply_udiff (cross-checked against Coq on every case)"],
    "assumptions": ["matcher contract 1: the grouped opcodes rebuild both line lists (a_of/b_of)",
                    "matcher contract 2: equal inputs yield no group",
                    "libcst contract (FromTrees only): parse_module(t).code == t outside the class kf_lossy_roundtrip",
                    "Python's int() is only applied by calc_line_num_changes to plain decimal numerals (true of unified_diff output)"],
}

IMPORTS = "From CM Require Import Harness.RunBase Harness.C03_run Spec.DiffSpec.\n"
TAGS = {"equal": 0, "replace": 1, "delete": 2, "insert": 3}
CORPUS = core.VERIF / "corpus" / "C03"


# ------------------------------------------------------------------------------------------------
# implementation side
# ------------------------------------------------------------------------------------------------
def impl():
    from codemodder import diff as d
    return d


def real_pure(ta: str, tb: str):
    d = impl()
    a, b = ta.splitlines(keepends=True), tb.splitlines(keepends=True)
    groups = [list(g) for g in difflib.SequenceMatcher(None, a, b).get_grouped_opcodes(3)]
    diff = d.create_diff(a, b)
    ulines = list(difflib.unified_diff(a, b))
    nums = d.calc_line_num_changes(ulines)
    both = d.create_diff_and_linenums(a, b)
    return a, b, groups, diff, nums, both


# ------------------------------------------------------------------------------------------------
# pure generator
# ------------------------------------------------------------------------------------------------
WORDS = ["x = 1", "y", "", "  pass", "return a", "# c", "a", "b", "é日", "\tz", "--", "-- sql", "++i", "+++ b", "--- a",
         "@@ -1 +1 @@", " lead", "-", "+", "\\ No newline at end of file", "0", "x = 1"]
EXOTIC = ["\f", "\v", "\u2028", "\u2029", "\r", "\x1c", "\x1d", "\x1e", "\x85"]


def gen_base(rng, mode):
    if mode == "empty":
        return []
    if mode == "single":
        return [rng.choice(WORDS)]
    if mode == "longrun":
        w = rng.choice(WORDS[:6])
        n = rng.randint(15, 60)
        base = [w] * n
        for _ in range(rng.randint(0, 3)):
            base[rng.randrange(n)] = rng.choice(WORDS)
        return base
    if mode == "dups":
        return [rng.choice(WORDS[:4]) for _ in range(rng.randint(2, 25))]
    if mode == "numbered":
        return [f"l{i}" for i in range(rng.randint(2, 45))]
    return [rng.choice(WORDS) for _ in range(rng.randint(1, 30))]


def edit(rng, base, where):
    """a list of edit positions -> new line list"""
    new = list(base)
    n = len(new)
    pos = []
    if where == "none":
        return new
    if where == "begin":
        pos = [0]
    elif where == "end":
        pos = [max(n - 1, 0)]
    elif where == "both_ends":
        pos = [0, max(n - 1, 0)]
    elif where == "close":      # gaps of 1..7 lines between edits: around the merge threshold (2*3 context lines)
        p = rng.randint(0, max(n - 1, 0))
        pos = [p]
        for _ in range(rng.randint(1, 3)):
            p += rng.randint(2, 8)
            pos.append(p)
    elif where == "far":
        pos = sorted(rng.sample(range(max(n, 1)), min(max(n, 1), rng.randint(1, 3))))
    else:
        pos = [rng.randint(0, max(n, 1)) for _ in range(rng.randint(1, 4))]
    for p in sorted(set(pos), reverse=True):
        p = min(p, len(new))
        kind = rng.choice(["replace", "replace", "delete", "insert", "insert2", "dup"])
        if kind == "replace" and p < len(new):
            new[p] = new[p] + rng.choice(["!", "2", " # e"])
        elif kind == "delete" and p < len(new):
            del new[p]
        elif kind == "insert":
            new.insert(p, rng.choice(WORDS))
        elif kind == "insert2":
            new[p:p] = [rng.choice(WORDS), rng.choice(WORDS)]
        elif kind == "dup" and p < len(new):
            new.insert(p, new[p])
        else:
            new.append(rng.choice(WORDS))
    return new


def render(rng, lines, eol, final):
    if not lines:
        return ""
    out = []
    for i, l in enumerate(lines):
        e = eol if eol != "mixed" else rng.choice(["\n", "\r\n"])
        out.append(l + e)
    t = "".join(out)
    if not final:
        t = t[:-len(out[-1])] + lines[-1]
    return t


def gen_pure(rng, exotic=False):
    mode = rng.choice(["empty", "single", "longrun", "dups", "numbered", "numbered", "mixed", "mixed"])
    where = rng.choice(["none", "begin", "end", "both_ends", "close", "close", "far", "any", "any"])
    base = gen_base(rng, mode)
    new = edit(rng, base, where)
    eol = rng.choice(["\n", "\n", "\r\n", "mixed"])
    eol_b = eol if rng.random() < 0.85 else rng.choice(["\n", "\r\n"])
    fa, fb = rng.random() < 0.7, rng.random() < 0.7
    ta, tb = render(rng, base, eol, fa), render(rng, new, eol_b, fb)
    tagx = ""
    if exotic:
        ch = rng.choice(EXOTIC)
        tagx = "exotic:%r" % ch
        for which in rng.choice([("a", "b"), ("a",), ("b",), ("a", "b")]):
            t = ta if which == "a" else tb
            p = rng.randint(0, len(t))
            t = t[:p] + ch + t[p:]
            if which == "a":
                ta = t
            else:
                tb = t
        if rng.random() < 0.5 and ch in ta:   # keep the exotic character on an unchanged line of both texts
            tb = tb if ch in tb else ch + tb
    return {"ta": ta, "tb": tb, "desc": f"{mode}/{where}/eol={eol!r}/final={fa},{fb}{'/' + tagx if tagx else ''}"}


def c_case(ta, tb, a, b, groups, diff, nums, pyres, pyexotic):
    ops = clist([clist(["(%d, %d, %d, %d, %d)%%N" % (TAGS[t], i1, i2, j1, j2) for (t, i1, i2, j1, j2) in g], "opcode")
                 for g in groups], "list opcode")
    return ("{| ta := %s; tb := %s; la := %s; lb := %s; ops := %s; rdiff := %s; rnums := %s; pyres := %s; pyexotic := %s |}"
            % (cstr(ta), cstr(tb), clist([cN(len(l)) for l in a], "N"), clist([cN(len(l)) for l in b], "N"), ops,
               cstr(diff), clist([cZ(n) for n in nums], "Z"), copt(None if pyres is None else cstr(pyres), "str"),
               cbool(pyexotic)))


PURE_CHECKS = ["split_model_ok", "matcher_contract_ok", "diff_model_ok", "linenum_model_ok", "apply_spec_ok",
               "empty_spec_ok", "pyapplier_ok"]


def eval_parallel(ctx, name, case_type, cases, checks, chunk=250, workers=min(12, core.NCPU)):
    bad = {c: [] for c in checks}
    jobs = [(off, cases[off:off + chunk]) for off in range(0, len(cases), chunk)]

    def one(job):
        off, part = job
        r = core.eval_bad_indices(ctx, f"{name}_{off}", IMPORTS, case_type, part, checks, chunk=len(part) + 1)
        return off, r
    with cf.ThreadPoolExecutor(max_workers=workers) as ex:
        for off, r in ex.map(one, jobs):
            for c in checks:
                bad[c].extend(off + i for i in r[c])
    return bad


def lf_lines(t: str) -> list[str]:
    """t split at "\\n" only, terminators kept"""
    parts = t.split("\n")
    out = [x + "\n" for x in parts[:-1]]
    return out + ([parts[-1]] if parts[-1] else [])


def classify_pure(ta, tb):
    """kf_exotic_linebreak only if the class PREDICTS the failure: the texts have an exotic boundary AND the same
    create_diff, given the lines split at "\\n" alone, produces a diff that does apply and gives the new text"""
    if ref.has_exotic(ta) or ref.has_exotic(tb):
        d = impl().create_diff(lf_lines(ta), lf_lines(tb))
        if ref.apply_udiff(d, ta) == ref.norm_nl(tb):
            return "kf_exotic_linebreak"
        return "c03_pure_roundtrip_not_explained_by_exotic_breaks"
    return "c03_pure_roundtrip"


def run_pure(ctx, items):
    cases, meta = [], []
    for it in items:
        ta, tb = it["ta"], it["tb"]
        a, b, groups, diff, nums, both = real_pure(ta, tb)
        pyres = ref.apply_udiff(diff, ta)
        pyex = ref.has_exotic(ta) or ref.has_exotic(tb)
        if both != (diff, nums) and (both[0] != diff or sorted(both[1]) != sorted(nums)):
            ctx.mismatch("create_diff_and_linenums vs (create_diff, calc_line_num_changes)",
                         f"the pair differs from its two parts on {it['desc']}", {"kind": "pure", "ta": ta, "tb": tb})
        cases.append(c_case(ta, tb, a, b, groups, diff, nums, pyres, pyex))
        meta.append((it, diff, nums, pyres, len(groups)))
        ctx.count("pure_hunks:" + (str(len(groups)) if len(groups) < 3 else "3+"))
        ctx.count("pure_kind:" + ("exotic" if pyex else "lf_clean"))
        eolk = "crlf" if "\r\n" in ta else "lf"
        ctx.count("pure_eol:" + eolk)
        ctx.count("pure_final_newline:" + ("none" if ta and not ta.endswith("\n") else "yes"))
        ctx.case({"pure": it["desc"], "old": ta[:80], "new": tb[:80], "diff": diff[:160]},
                 nontrivial_key=("pure", ta, tb) if diff else None, sample=bool(diff) and len(groups) > 1)
    bad = eval_parallel(ctx, "c03_pure", "pure_case", cases, PURE_CHECKS)
    names = {"split_model_ok": "str.splitlines(keepends=True) vs Model.Diff.splitlines_keepends",
             "matcher_contract_ok": "oracle contract of SequenceMatcher.get_grouped_opcodes (rebuilds a and b; no group for equal inputs)",
             "diff_model_ok": "diff.create_diff vs Model.Diff.create_diff on the real grouped opcodes",
             "linenum_model_ok": "diff.calc_line_num_changes vs Model.Diff.calc_line_num_changes",
             "pyapplier_ok": "harness/c03_ref.py vs Model.Diff.apply_udiff / Spec.has_exotic"}
    for chk, nm in names.items():
        for i in bad[chk]:
            it, diff, nums, pyres, _ = meta[i]
            ctx.mismatch(nm, f"disagreement on {it['desc']}: old={it['ta']!r} new={it['tb']!r}",
                         {"kind": "pure", "ta": it["ta"], "tb": it["tb"], "observed_diff": diff, "observed_linenums": nums,
                          "py_applier": pyres, "check": chk})
    for i in bad["apply_spec_ok"]:
        it, diff, nums, pyres, _ = meta[i]
        cls = classify_pure(it["ta"], it["tb"])
        ctx.violation(cls, f"create_diff's text applied to the old text does not give the new text: old={it['ta']!r} "
                           f"new={it['tb']!r} diff={diff!r} applied={pyres!r}",
                      {"kind": "pure", "ta": it["ta"], "tb": it["tb"], "observed_diff": diff, "applied": pyres,
                       "expected": ref.norm_nl(it["tb"])})
    for i in bad["empty_spec_ok"]:
        it, diff, nums, pyres, _ = meta[i]
        ctx.violation("c03_empty_diff", f"diff is empty iff texts are equal fails: old={it['ta']!r} new={it['tb']!r} diff={diff!r}",
                      {"kind": "pure", "ta": it["ta"], "tb": it["tb"], "observed_diff": diff})
    return [(m[0]["ta"], m[1]) for m in meta if m[1]]


def mutate_diff(rng, d: str) -> str:
    """malformed stream for the two appliers: a real diff with one or two random defects"""
    lines = d.split("\n")
    for _ in range(rng.choice([1, 1, 2])):
        if not lines:
            break
        i = rng.randrange(len(lines))
        op = rng.choice(["del", "dup", "digit", "prefix", "trunc", "swap", "garbage", "nohdr", "zero"])
        if op == "del":
            del lines[i]
        elif op == "dup":
            lines.insert(i, lines[i])
        elif op == "digit":
            hs = [j for j, l in enumerate(lines) if l.startswith("@@")]
            if hs:
                j = rng.choice(hs)
                ds = [k for k, c in enumerate(lines[j]) if c.isdigit()]
                if ds:
                    k = rng.choice(ds)
                    lines[j] = lines[j][:k] + rng.choice("0123456789") + lines[j][k + 1:]
        elif op == "prefix" and lines[i]:
            lines[i] = rng.choice(" +-@x") + lines[i][1:]
        elif op == "trunc":
            lines = lines[:i]
        elif op == "swap" and i + 1 < len(lines):
            lines[i], lines[i + 1] = lines[i + 1], lines[i]
        elif op == "garbage":
            lines.insert(i, rng.choice(["@@ bogus @@", "@@ -1,0 +1,0 @@", "", "@@ -1 +1 @@ tail", "@@ -01 +1 @@", "@@  -1 +1 @@"]))
        elif op == "nohdr":
            lines = lines[2:]
        elif op == "zero":
            lines.insert(min(i, len(lines)), "@@ -0,0 +0,0 @@")
    return "\n".join(lines)


def run_malformed(ctx, rng, pairs, n):
    if not pairs:
        return
    cases, meta = [], []
    for _ in range(n):
        ta, d = rng.choice(pairs)
        md = mutate_diff(rng, d)
        r = ref.apply_udiff(md, ta)
        ctx.count("malformed_diff:" + ("rejected" if r is None else "applied"))
        cases.append("(%s, %s, %s)" % (cstr(md), cstr(ta), copt(None if r is None else cstr(r), "str")))
        meta.append((md, ta, r))
    bad = eval_parallel(ctx, "c03_malformed", "e2e_case", cases, ["e2e_pyapplier_ok"], chunk=250)
    for i in bad["e2e_pyapplier_ok"]:
        md, ta, r = meta[i]
        ctx.mismatch("harness/c03_ref.py vs Model.Diff.apply_udiff (malformed diff)",
                     f"the Python reference applier disagrees with the Coq one on diff={md!r} text={ta!r}: py={r!r}",
                     {"kind": "applier", "diff": md, "before": ta, "py": r})


# ------------------------------------------------------------------------------------------------
# end-to-end
# ------------------------------------------------------------------------------------------------
P = "pixee:python/"
BLOCKS = {
    P + "use-set-literal": (None, ["{n} = set([1, 2, 3])"]),
    P + "use-generator": (None, ["{n} = any([i for i in range(3)])"]),
    P + "remove-debug-breakpoint": (None, ["breakpoint()"]),
    P + "fix-mutable-params": (None, ["def {n}(a=[], b=1):", "{I}return a, b"]),
    P + "fix-assert-tuple": (None, ['assert (1, "msg{n}")']),
    P + "remove-unnecessary-f-str": (None, ['{n} = f"plain"']),
    P + "fix-empty-sequence-comparison": (None, ["if {n} == []:", "{I}pass"]),
    P + "use-defusedxml": ("import xml.etree.ElementTree as ET", ["{n} = ET.parse('f.xml')"]),
    P + "harden-pickle-load": ("import pickle", ["{n} = pickle.load(open('f', 'rb'))"]),
    P + "url-sandbox": ("import requests", ["{n} = requests.get(host + '/x')"]),
    P + "fix-hasattr-call": (None, ["{n} = hasattr(obj, '__call__')"]),
}
FAST = [k for k in BLOCKS if k not in (P + "url-sandbox", P + "fix-hasattr-call")]
SEMGREP = [P + "url-sandbox", P + "fix-hasattr-call"]
DEP_ADDING = {P + "use-defusedxml", P + "harden-pickle-load", P + "url-sandbox"}
FILLER = ["v{i} = {i}", "# note {i}", "", "print(v0)", "w{i} = 'é日本{i}'", "z{i} = [1, 2]"]
MANIFEST_NAMES = ("requirements.txt", "setup.cfg", "pyproject.toml", "setup.py")


def gen_pyfile(rng, codemods, layout):
    """layout: dict(eol, final, tabs, nonascii, special) -> text of a python file with one trigger block per codemod (in random order)"""
    I = "\t" if layout["tabs"] else "    "
    lines = []
    if layout["nonascii"]:
        lines.append("# módulo — 日本語 ✓")
    imports = []
    for k in codemods:
        imp = BLOCKS[k][0]
        if imp and imp not in imports:
            imports.append(imp)
    lines += imports
    lines.append("v0 = 0")
    order = list(codemods)
    rng.shuffle(order)
    cnt = 0
    for k in order:
        gap = rng.choice([0, 1, 2, 3, 5, 6, 7, 9, 12])
        for _ in range(gap):
            cnt += 1
            lines.append(rng.choice(FILLER).format(i=cnt))
        cnt += 1
        wrap = rng.random() < 0.35 and not BLOCKS[k][1][0].startswith("def ")
        blk = [l.format(n=f"n{cnt}", I=I) for l in BLOCKS[k][1]]
        if wrap:
            lines.append(f"def fn{cnt}(obj, host):")
            lines += [I + l for l in blk]
            lines.append(I + "return obj")
        else:
            lines += blk
    for _ in range(rng.choice([0, 0, 1, 4])):
        cnt += 1
        lines.append(rng.choice(FILLER).format(i=cnt))
    sp = layout.get("special")
    if sp == "formfeed":            # a page break between definitions, as in old GNU-style sources
        lines.insert(min(len(lines), 2 + len(imports)), "\f")
    elif sp == "formfeed_in_comment":
        lines.insert(min(len(lines), 2 + len(imports)), "# page\fbreak")
    elif sp == "u2028":
        lines.insert(min(len(lines), 2 + len(imports)), "ls = 'a\u2028b'")
    eol = {"lf": "\n", "crlf": "\r\n", "cr": "\r"}[layout["eol"]]
    text = eol.join(lines) + (eol if layout["final"] else "")
    if sp == "bom":
        text = "\ufeff" + text
    return text


# ---- dependency manifests: text variants of the four kinds -------------------------------------
# what follows the last content line (which is written without a terminator)
TAILS = ["", "\n", "\n", "\n", "\n\n", "\n\n\n", "\n    \n", "\n\t\n\n", "\n\n# end of file\n", "\n# end", "\n \n"]
REQ_POOL = ["requests>=2.0", "flask", "# pinned", "click==8.1.7", 'flask-cors>=3; python_version >= "3.8"', "",
            "# dev tools live elsewhere", "  ", "urllib3<3  # transitive", "Jinja2"]


def gen_requirements(rng):
    n = rng.randint(1, 6)
    body = ["requests>=2.0"] + [rng.choice(REQ_POOL) for _ in range(n - 1)]
    tail = rng.choice(TAILS)
    return "\n".join(body) + tail, f"req[{n}]tail={tail!r}"


def gen_pyproject(rng):
    style = rng.choice(["multi", "multi", "inline", "poetry"])
    head = rng.choice([[], ["[build-system]", 'requires = ["setuptools"]', ""], ["# packaging", ""]])
    if style == "multi":
        deps = ['    "requests>=2.0",'] + [rng.choice(['    "flask",', '    "click==8.1.7",  # pinned', '    # web', '    "Jinja2",'])
                                           for _ in range(rng.randint(0, 3))]
        body = ["[project]", 'name = "demo"', 'version = "1.0"', "dependencies = ["] + deps + ["]"]
    elif style == "inline":
        body = ["[project]", 'name = "demo"', 'version = "1.0"', rng.choice(['dependencies = ["requests>=2.0"]',
                                                                          'dependencies = ["requests>=2.0", "flask"]'])]
    else:
        body = ["[tool.poetry]", 'name = "demo"', 'version = "1.0"', "", "[tool.poetry.dependencies]", 'python = "^3.9"',
                'requests = "^2.0"']
    after = rng.choice([[], [], ["", "[tool.black]", "line-length = 100"], ["", "# trailing comment"]])
    tail = rng.choice(TAILS)
    return "\n".join(head + body + after) + tail, f"pyproject[{style}]tail={tail!r}"


def gen_setupcfg(rng):
    style = rng.choice(["multi", "multi", "inline"])
    head = ["[metadata]", "name = demo", "version = 1.0", ""]
    if style == "multi":
        deps = ["    requests>=2.0"] + [rng.choice(["    flask", "    click==8.1.7", "    Jinja2"]) for _ in range(rng.randint(0, 3))]
        body = ["[options]", "packages = find:", "install_requires ="] + deps
    else:
        body = ["[options]", rng.choice(["install_requires = requests>=2.0, flask", "install_requires = requests>=2.0"])]
    after = rng.choice([[], [], ["", "[options.extras_require]", "dev =", "    pytest"], ["", "# trailing comment"]])
    tail = rng.choice(TAILS)
    return "\n".join(head + body + after) + tail, f"setupcfg[{style}]tail={tail!r}"


def gen_setup_py(rng, triggers):
    """setup.py as the manifest; `triggers` (codemod ids) put their trigger blocks into setup.py itself"""
    I = "    "
    lines = ["from setuptools import setup"]
    for k in triggers:
        imp = BLOCKS[k][0]
        if imp and imp not in lines:
            lines.append(imp)
    lines.append("")
    cnt = 0
    for k in triggers:
        cnt += 1
        lines += [l.format(n=f"M{cnt}", I=I) for l in BLOCKS[k][1]]
        lines += [""] * rng.choice([0, 1, 2, 5, 8])
    style = rng.choice(["multi", "multi", "inline", "single"])
    if style == "multi":
        deps = [I * 2 + '"requests>=2.0",'] + [I * 2 + rng.choice(['"flask",', '"click==8.1.7",', '"Jinja2",'])
                                                for _ in range(rng.randint(0, 3))]
        lines += ["setup(", I + 'name="demo",', I + 'version="1.0",', I + "install_requires=["] + deps + [I + "],", ")"]
    elif style == "inline":
        lines += ["setup(", I + 'name="demo",', I + 'install_requires=["requests>=2.0", "flask"],', ")"]
    else:
        lines += ['setup(name="demo", install_requires=["requests>=2.0"])']
    tail = rng.choice(["\n", "\n", "", "\n\n", "\n# end\n"])
    return "\n".join(lines) + tail, f"setup.py[{style};triggers={len(triggers)}]tail={tail!r}"


MANIFEST_KINDS = ["requirements.txt", "requirements.txt", "requirements.txt", "setup.py", "setup.py", "setup.py",
                  "pyproject.toml", "pyproject.toml", "setup.cfg", "setup.cfg", None]
DEP_FAST = [P + "use-defusedxml", P + "harden-pickle-load"]


def gen_project(rng, known_ok=False):
    """-> (files: relpath -> bytes, codemod sequence, description)"""
    seq_pool = list(FAST)
    nseq = rng.choice([1, 2, 3, 3, 4, 5, 7])
    seq = rng.sample(seq_pool, min(nseq, len(seq_pool)))
    if rng.random() < 0.12:
        seq.insert(rng.randrange(len(seq) + 1), rng.choice(SEMGREP))
    manifest = rng.choice(MANIFEST_KINDS)
    order = "any"
    if manifest and rng.random() < 0.8:
        # a dependency-adding codemod is part of the sequence: first, last, or anywhere
        adders = [k for k in seq if k in DEP_ADDING] or [rng.choice(DEP_FAST)]
        seq = [k for k in seq if k not in DEP_ADDING]
        order = rng.choice(["adder_first", "adder_first", "adder_last", "any"])
        if order == "adder_first":
            seq = adders + seq
        elif order == "adder_last":
            seq = seq + adders
        else:
            for k in adders:
                seq.insert(rng.randrange(len(seq) + 1), k)
        if len(seq) == 1 and rng.random() < 0.7:     # something else to run after/before the adder
            other = rng.choice([k for k in FAST if k not in DEP_ADDING])
            seq = seq + [other] if order != "adder_last" else [other] + seq
    files, desc = {}, []
    nfiles = rng.randint(2, 4)
    names = ["a.py", "pkg/b.py", "pkg/sub/c.py", "d.py"][:nfiles]
    for idx, nm in enumerate(names):
        special = None
        r = rng.random()
        if known_ok and r < 0.25:
            special = rng.choice(["bom", "formfeed", "cr", "u2028", "formfeed_in_comment"])
        layout = {"eol": rng.choice(["lf", "lf", "crlf"]), "final": rng.random() < 0.75, "tabs": rng.random() < 0.3,
                  "nonascii": rng.random() < 0.4, "special": special}
        if special == "cr":
            layout["eol"], layout["special"] = "cr", None
        # each file triggers a random subset of the sequence plus possibly codemods that are not selected
        here = [k for k in seq if rng.random() < 0.7] or [seq[0]]
        if idx == 0:
            here = list(dict.fromkeys(here + [k for k in seq if k in DEP_ADDING]))   # the adders do fire somewhere
        extra = [k for k in FAST if k not in seq and rng.random() < 0.15]
        files[nm] = gen_pyfile(rng, here + extra, layout).encode("utf-8")
        desc.append(f"{nm}:{layout['eol']}{'' if layout['final'] else '/nofinal'}{'/tabs' if layout['tabs'] else ''}"
                    f"{'/nonascii' if layout['nonascii'] else ''}{'/' + special if special else ''}")
    files["clean.py"] = b"import os\n\n\ndef ok():\n    return os.getcwd()\n"
    files["notes.txt"] = b"x = set([1, 2])\r\nnot python\r\n"
    if rng.random() < 0.3:
        files["legacy.py"] = b"# caf\xe9 latin-1\nx = set([1, 2])\n"      # undecodable: must stay untouched
        desc.append("legacy.py:latin1")
    if manifest == "requirements.txt":
        text, d = gen_requirements(rng)
    elif manifest == "pyproject.toml":
        text, d = gen_pyproject(rng)
    elif manifest == "setup.cfg":
        text, d = gen_setupcfg(rng)
    elif manifest == "setup.py":
        # the manifest is itself a source file: codemods of the sequence (not the adders) may have triggers in it
        trig = [k for k in seq if k not in DEP_ADDING and k in FAST and rng.random() < 0.6]
        text, d = gen_setup_py(rng, trig)
    if manifest:
        if known_ok and rng.random() < 0.3:
            text, d = text.replace("\n", "\r\n"), d + "/crlf"
        files[manifest] = text.encode("utf-8")
        desc.append(f"{d}/{order}")
        if rng.random() < 0.15 and manifest != "requirements.txt":      # a second, later-ranked manifest
            files["requirements.txt"] = b"requests>=2.0\n"
            desc.append("+requirements.txt")
    return files, seq, " ".join(desc)


# ---- SAST mode: tool-driven variants of the dependency-adding codemods -------------------------
def sast_templates():
    """(Template of harness/c06_sites, adds a dependency?) for the tool-driven codemods; the result-file entries are
    computed from the real libcst spans of the generated program in each tool's own convention"""
    from harness import c06_sites as S
    SSRF = "python.flask.security.injection.ssrf-requests.ssrf-requests"
    SYSCALL = "python.lang.security.dangerous-system-call.dangerous-system-call"
    return [
        (S.Template("sonar:python/sandbox-process-creation", "sonar", "pythonsecurity:S2076", "import subprocess\n",
                    "v{i} = subprocess.run(c{i})", "value"), True),
        (S.Template("sonar:python/sandbox-process-creation", "sonar", "pythonsecurity:S2076", "import os\n",
                    "v{i} = os.popen(c{i})", "value"), True),
        (S.Template("sonar:python/url-sandbox", "sonar", "pythonsecurity:S5144", "import requests\n",
                    "v{i} = requests.get(u{i})", "value"), True),
        (S.Template("semgrep:python/url-sandbox", "semgrep", SSRF, "import requests\n", "v{i} = requests.get(u{i})", "value"), True),
        (S.Template("semgrep:python/use-defusedxml", "semgrep", "python.lang.security.use-defused-xml-parse.use-defused-xml-parse",
                    "import xml.etree.ElementTree as ET\n", "v{i} = ET.parse(p{i})", "value"), True),
        (S.Template("semgrep:python/sandbox-process-creation", "semgrep", SYSCALL, "import os\n", "v{i} = os.system(c{i})", "value"), True),
        (S.Template("semgrep:python/sandbox-process-creation", "semgrep", SYSCALL, "import subprocess\n",
                    "v{i} = subprocess.run(c{i})", "value"), True),
        (S.Template("defectdojo:python/avoid-insecure-deserialization", "defectdojo", S.DD_DESER, "import yaml\n",
                    "v{i} = yaml.load(d{i})", "value"), False),
        (S.Template("sonar:python/secure-random", "sonar", "python:S2245", "import random\n", "v{i} = random.random()", "value"), False),
    ]


def gen_manifest(rng, kind, known_ok=False):
    if kind == "requirements.txt":
        return gen_requirements(rng)
    if kind == "pyproject.toml":
        return gen_pyproject(rng)
    if kind == "setup.cfg":
        return gen_setupcfg(rng)
    return gen_setup_py(rng, [])


def gen_sast_project(rng, manifest=None):
    """-> (files, codemod ids, description, sast spec).  One tool per project (one result file); one or two tool-driven
    codemods of that tool, each with 1-3 sites per file of which a random subset is reported; any manifest kind."""
    from harness import c06_sites as S
    temps = sast_templates()
    first, adds = rng.choice([x for x in temps if x[1]] * 4 + [x for x in temps if not x[1]])
    chosen = [first]
    if rng.random() < 0.35:
        more = [x[0] for x in temps if x[0].tool == first.tool and x[0].id != first.id]
        if more:
            chosen.append(rng.choice(more))
    if rng.random() < 0.5:
        rng.shuffle(chosen)
    files, entries, desc, kid = {}, [], [], 0
    for ti, t in enumerate(chosen):
        for fi in range(rng.randint(1, 2)):
            n = rng.randint(1, 3)
            src, _ = S.gen_program(rng, t, n)
            if rng.random() < 0.25:
                src = src.rstrip("\n")
            fn = ["svc.py", "pkg/handlers.py", "pkg/util/io.py", "tasks.py"][(2 * ti + fi) % 4]
            sites, _, _ = S.analyse(src, t, n)
            reported = [i for i in range(1, n + 1) if rng.random() < 0.7]
            if ti == 0 and fi == 0 and not reported:
                reported = [1]
            for i in reported:
                kid += 1
                entries.append({"key": (1000 + kid) if t.tool == "defectdojo" else f"K{kid}", "rule": t.rule, "file": fn,
                                "loc": list(S.tool_location(t.tool, sites[i]["reported"], False))})
            files[fn] = src.encode("utf-8")
            desc.append(f"{fn}:{t.id.split('/')[-1]}[{len(reported)}/{n}]")
    files["clean.py"] = b"import os\n\n\ndef ok():\n    return os.getcwd()\n"
    manifest = manifest or rng.choice(["requirements.txt", "requirements.txt", "setup.py", "pyproject.toml", "setup.cfg"])
    text, d = gen_manifest(rng, manifest)
    files[manifest] = text.encode("utf-8")
    desc.append(d)
    return files, [t.id for t in chosen], "sast:" + first.tool + " " + " ".join(desc), {"tool": first.tool, "entries": entries}


def run_project(ctx, files, seq, tag, sast=None):
    """sast: None, or {"tool": sonar|semgrep|defectdojo, "entries": [{key, rule, file, loc, status?}]} - the tool's result
    file is written next to the project (never inside it) in the tool's own format and passed with the tool's flag"""
    root = Path(ctx.scratch) / "e2e" / tag
    proj = root / "proj"
    proj.mkdir(parents=True)
    core.write_tree(proj, files)
    out = root / "out.json"
    args = [str(proj), "--output", str(out), "--codemod-include", ",".join(seq)]
    if sast:
        from harness import c06_sites as S
        S.write_result_file(root / "results.json", sast["tool"], sast["entries"])
        args += [S.cli_flag(sast["tool"]), str(root / "results.json")]
    r = core.run_cli(args, cwd=str(root), timeout=600)
    final = core.read_tree(proj)
    report = None
    if out.exists():
        try:
            report = json.loads(out.read_text())
        except Exception:
            report = None
    return {"rc": r["rc"], "stderr": r["stderr"][-1500:], "final": final, "report": report}


def lossy(text: str) -> bool:
    import libcst as cst
    try:
        return cst.parse_module(text).code != text
    except Exception:
        return False


def classify_e2e(ctx, path, orig_t, fin_t, diffs, failed=None):
    """Finding class of a path whose reported diffs do not describe its change.  A class is returned only when its
    input condition holds AND it predicts the observed outcome (the defect it names, undone, makes the diffs fold to
    the bytes on disk); anything else is an unlisted class.
    failed: None (all diffs applied but the result differs from disk) or (step index, text before that step)."""
    name = os.path.basename(path)
    nl = ref.norm_nl
    # text-mode manifest writers: read with universal newlines, written with "\n".  Prediction: the reported diffs fold to
    # the disk content when a diff that does not apply as it is may apply to the "\r\n" -> "\n" normalised text (the
    # writer's own diff), the pipelines' diffs on the same file (setup.py is also a source file) applying unchanged
    # before it and to the normalised text after it; the disk has no "\r" left.
    if name in MANIFEST_NAMES and "\r" in orig_t and "\r" not in fin_t:
        aps = (ref.apply_udiff, ref.apply_udiff_split_world) if name == "pyproject.toml" else (ref.apply_udiff,)
        r, normalised = ref.fold_lazy_lf(diffs, orig_t, aps)
        if r is not None and nl(r.replace("\r\n", "\n")) == nl(fin_t) and (normalised or "\r" in r):
            return "kf_manifest_crlf"
    # PyprojectWriter diffs text.split("\n"): the empty string after the final newline is a diff line of its own (a bare
    # prefix character ends the diff); in that world the diffs fold to the disk content
    if name == "pyproject.toml" and any(d.split("\n")[-1] in (" ", "+", "-") for d in diffs):
        r = ref.fold(diffs, orig_t, ref.apply_udiff_split_world)
        if r is not None and nl(r) == nl(fin_t):
            return "kf_pyproject_phantom_line"
    # FromTrees only: the diff is relative to libcst's re-rendering of the file
    from_trees = (ctx.tables or {}).get("diff_source", "FromTrees") == "FromTrees"
    if from_trees and path.endswith(".py") and lossy(orig_t):
        import libcst as cst
        r = ref.fold(diffs, cst.parse_module(orig_t).code)
        if r is not None and nl(r) == nl(fin_t):
            return "kf_lossy_roundtrip"
    # exotic line boundary: the hunk that fails must reach or follow the first line that holds one (hunks wholly
    # before it are the same in both line models, so their failure is not explained by it)
    if failed is not None:
        step, before = failed
        # hunk positions are in the numbering of before.splitlines(): index of the first line ended by an exotic boundary
        py_k = next((i for i, l in enumerate(before.splitlines(keepends=True)) if l[-1] != "\n" and ord(l[-1]) in ref.BREAKS), None)
        fh = ref.failing_hunk(diffs[step], before)
        if py_k is not None and isinstance(fh, tuple):
            if fh[0] + max(fh[1], 1) - 1 >= py_k:
                return "kf_exotic_linebreak"
    return "c03_diff_not_the_change"


def check_project(ctx, files, seq, res, desc, e2e_pairs, sast=None):
    """returns number of changesets seen"""
    replay = {"kind": "e2e", "project": core.b64tree(files), "codemods": seq, "desc": desc}
    if sast:
        replay["sast"] = sast
    if res["rc"] == -9:
        # a timeout of the harness's own subprocess is not an observation of the implementation: tie break, no verdict
        ctx.mismatch("end-to-end CLI run", f"the CLI run timed out (no observation) for {desc}", {**replay, "observed": "timeout"})
        return 0
    if res["rc"] != 0 or res["report"] is None:
        ctx.violation("c03_cli_failed", f"CLI exit {res['rc']} / no report for {desc}: {res['stderr'][-300:]}",
                      {**replay, "observed": {"rc": res["rc"], "stderr": res["stderr"]}})
        return 0
    per_path: dict[str, list[tuple[str, str]]] = {}
    for result in res["report"].get("results", []):
        for cs in result.get("changeset", []):
            per_path.setdefault(cs["path"], []).append((result["codemod"], cs["diff"]))
    final = res["final"]
    nchanges = sum(len(v) for v in per_path.values())
    for path in sorted(set(files) | set(final) | set(per_path)):
        orig_b, fin_b = files.get(path), final.get(path)
        steps = per_path.get(path, [])
        if orig_b is None or fin_b is None:
            ctx.violation("c03_file_set_changed", f"{path} {'appeared' if orig_b is None else 'disappeared'} ({desc})",
                          {**replay, "path": path})
            continue
        if not steps:
            ctx.count("e2e_path:no_changeset")
            if orig_b != fin_b:
                try:
                    texts = [orig_b.decode("utf-8")]
                except UnicodeDecodeError:
                    texts = []
                ctx.violation("c03_changed_without_changeset",
                              f"{path} has no changeset but its bytes changed ({desc}; codemods {seq})",
                              {**replay, "path": path, "observed": base64.b64encode(fin_b).decode(),
                               "expected": "byte-identical to the original"})
            continue
        ctx.count("e2e_path:changesets=%s" % (len(steps) if len(steps) < 4 else "4+"))
        try:
            orig_t, fin_t = orig_b.decode("utf-8"), fin_b.decode("utf-8")
        except UnicodeDecodeError:
            ctx.violation("c03_undecodable_changed", f"{path} is not UTF-8 but has a changeset", {**replay, "path": path})
            continue
        cur, failed_at = orig_t, None
        for i, (cm, d) in enumerate(steps):
            nxt = ref.apply_udiff(d, cur)
            e2e_pairs.append((d, cur, nxt))
            if nxt is None:
                failed_at = (i, cm, d)
                break
            cur = nxt
        cls = None
        if failed_at is not None:
            i, cm, d = failed_at
            cls = classify_e2e(ctx, path, orig_t, fin_t, [d for _, d in steps], failed=(i, cur))
            what = (f"{path}: diff #{i + 1} (of {len(steps)}, codemod {cm}) does not apply to the content the previous "
                    f"steps produced ({desc})")
            ctx.violation(cls, what, {**replay, "path": path, "step": i, "codemod": cm, "diff": d, "before": cur,
                                      "expected": "every reported diff applies to the content before its codemod ran"})
        elif ref.norm_nl(cur) != ref.norm_nl(fin_t):
            cls = classify_e2e(ctx, path, orig_t, fin_t, [d for _, d in steps])
            ctx.violation(cls, f"{path}: the {len(steps)} reported diff(s), applied in order to the original, give "
                               f"{cur[:120]!r}... but the file on disk is {fin_t[:120]!r}... ({desc})",
                          {**replay, "path": path, "observed": fin_t, "expected": cur})
        if orig_b == fin_b:
            ctx.violation("c03_changeset_without_change", f"{path} has {len(steps)} changeset(s) but did not change ({desc})",
                          {**replay, "path": path})
    return nchanges


def load_corpus():
    items = []
    if CORPUS.is_dir():
        for f in sorted(CORPUS.glob("*.json")):
            body = json.loads(f.read_text())
            body["_file"] = f.name
            items.append(body)
    return items


def run(ctx: core.Ctx):
    rng = ctx.rng
    quick = ctx.quick()
    n_pure = 500 if quick else 20000
    n_exotic = 60 if quick else 1500
    n_cli = 20 if quick else 300
    n_sast = 8 if quick else 120
    if getattr(ctx, "deep", False):
        n_pure, n_cli, n_sast = n_pure * 2, n_cli * 2, n_sast * 2
    corpus = load_corpus()

    # ---- (1) pure
    items = [{"ta": c["ta"], "tb": c["tb"], "desc": "corpus:" + c["_file"]} for c in corpus if c.get("kind") == "pure"]
    items += [gen_pure(rng) for _ in range(n_pure)]
    items += [gen_pure(rng, exotic=True) for _ in range(n_exotic)]
    if not quick:
        # exhaustive small scope: all pairs of texts of <= 3 lines over {a, b}, each with and without a final newline
        import itertools
        texts = [""]
        for n in (1, 2, 3):
            for ls in itertools.product("ab", repeat=n):
                texts.append("\n".join(ls) + "\n")
                texts.append("\n".join(ls))
        items += [{"ta": x, "tb": y, "desc": "exhaustive<=3"} for x in texts for y in texts]
    t0 = time.time()
    pairs = run_pure(ctx, items)
    run_malformed(ctx, rng, pairs, 200 if quick else 3000)
    ctx.notes.append(f"pure phase: {len(items)} cases in {round(time.time() - t0, 1)}s")

    # ---- (2) end-to-end
    projects = []
    for c in corpus:
        if c.get("kind") == "e2e":
            projects.append((core.unb64tree(c["project"]), c["codemods"], "corpus:" + c["_file"], c.get("sast")))
    for i in range(n_cli):
        files, seq, desc = gen_project(rng, known_ok=(i % 6 == 5))
        projects.append((files, seq, desc, None))
    # SAST mode: tool-driven dependency-adding codemods, every manifest kind in turn
    kinds = ["requirements.txt", "setup.py", "pyproject.toml", "setup.cfg"]
    for i in range(n_sast):
        projects.append(gen_sast_project(rng, manifest=kinds[i % 4] if i < 8 else None))
    results = [None] * len(projects)
    t0 = time.time()

    def one(i):
        files, seq, desc, sast = projects[i]
        return i, run_project(ctx, files, seq, f"p{i}", sast)
    with cf.ThreadPoolExecutor(max_workers=min(12, core.NCPU)) as ex:
        for i, res in ex.map(one, range(len(projects))):
            results[i] = res
    ctx.notes.append(f"cli phase: {len(projects)} runs in {round(time.time() - t0, 1)}s")
    e2e_pairs = []
    for (files, seq, desc, sast), res in zip(projects, results):
        ctx.cli_runs += 1
        n = check_project(ctx, files, seq, res, desc, e2e_pairs, sast)
        ctx.count("e2e_mode:" + ("sast:" + sast["tool"] if sast else "find-and-fix"))
        ctx.count("e2e_seq_len:%d" % len(seq))
        for k in seq:
            ctx.count("e2e_codemod:" + k.split("/")[-1])
        ctx.case({"e2e": desc, "codemods": seq, "changesets": n},
                 nontrivial_key=("e2e", sorted((k, bytes(v)) for k, v in files.items()), tuple(seq)) if n else None,
                 sample=n > 2)
    # the Python applier used above agrees with the Coq applier on every (diff, content) pair met end-to-end
    if e2e_pairs:
        cases = ["(%s, %s, %s)" % (cstr(d), cstr(f), copt(None if r is None else cstr(r), "str")) for d, f, r in e2e_pairs]
        bad = eval_parallel(ctx, "c03_e2e", "e2e_case", cases, ["e2e_pyapplier_ok"], chunk=60)
        for i in bad["e2e_pyapplier_ok"]:
            d, f, r = e2e_pairs[i]
            ctx.mismatch("harness/c03_ref.py vs Model.Diff.apply_udiff (end-to-end pair)",
                         "the Python reference applier disagrees with the Coq one", {"kind": "applier", "diff": d, "before": f, "py": r})
        ctx.count("e2e_pairs_checked_in_coq", len(e2e_pairs))

    # ---- table-indexed statement: FromTrees is the negative branch (needs the libcst contract); nothing to replay
    # beyond the corpus BOM witness, which is an e2e corpus entry.
    ctx.notes.append(f"diff_source={ctx.tables.get('diff_source') if ctx.tables else '?'}")


def replay(ctx, body):
    if body.get("kind") == "pure":
        a, b, groups, diff, nums, both = real_pure(body["ta"], body["tb"])
        res = ref.apply_udiff(diff, body["ta"])
        print("old     :", repr(body["ta"]))
        print("new     :", repr(body["tb"]))
        print("diff now:", repr(diff), "| recorded:", repr(body.get("observed_diff")))
        print("applied :", repr(res))
        print("expected:", repr(ref.norm_nl(body["tb"])))
        ok = res == ref.norm_nl(body["tb"])
        print("round trip", "holds" if ok else "FAILS")
        return 0 if ok else 1
    if body.get("kind") == "e2e":
        files = core.unb64tree(body["project"])
        res = run_project(ctx, files, body["codemods"], "replay", body.get("sast"))
        before = len(ctx.violations)
        check_project(ctx, files, body["codemods"], res, body.get("desc", "replay"), [], body.get("sast"))
        for v in ctx.violations[before:]:
            print(f"[{v['class']}] {v['what']}")
        print("violations now:", len(ctx.violations) - before)
        return 1 if len(ctx.violations) > before else 0
    print("unknown replay kind")
    return 2
