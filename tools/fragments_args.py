# Fragments of the argument-list model (coq/Model/Args.v), property C16 (and the Args kernels of C07).
# exec'd inside tools/translate.py: shape / custom / Unrecognised / coq_str / TABLE_IMPORTS / find_def are in scope.
#
#  * shape fragments: the kernel functions of libcst_transformer.py and the per-codemod bodies that are not a literal
#    NewArg list.  One known variant each (`ArgsAsWritten`): any edit makes the fragment unrecognised (tie broken).
#  * custom fragment `newargs`: the literal NewArg(...) lists and add_arg_to_call(...) arguments of the hardening
#    codemods, as text (Tables.newargs) and parsed (Tables.newargs_expr).  Fails closed on any NewArg / replace_args /
#    add_arg_to_call call whose shape it does not know.

TABLE_IMPORTS.append("From CM Require Import Base.Types_Args.")

_ARGS_PROPS = ["C16", "C07"]
_LT = "src/codemodder/codemods/libcst_transformer.py"

shape("args_replace_args", _LT, _ARGS_PROPS, "replace_args_shape", "args_variant", "ArgsAsWritten",
      ["LibcstResultTransformer.replace_args", "_match_with_existing_arg", "LibcstResultTransformer.make_new_arg"],
      doc="replace_args / _match_with_existing_arg (first match, del args_info[idx]) / make_new_arg")
shape("args_call_edit", _LT, _ARGS_PROPS, "call_edit_shape", "args_variant", "ArgsAsWritten",
      ["LibcstResultTransformer.add_arg_to_call", "LibcstResultTransformer.update_call_target",
       "LibcstResultTransformer.update_arg_target"],
      doc="add_arg_to_call / update_call_target / update_arg_target")
shape("args_dispatch", _LT, _ARGS_PROPS, "dispatch_shape", "args_variant", "ArgsAsWritten",
      ["LibcstResultTransformer._new_or_updated_node", "LibcstResultTransformer.leave_Call"],
      doc="_new_or_updated_node: on_result_found(original_node, updated_node) when the ORIGINAL node is selected")
shape("args_get_call_name", "src/codemodder/codemods/utils.py", ["C16"], "get_call_name_shape", "args_variant",
      "ArgsAsWritten", ["get_call_name"], doc="utils.get_call_name")
shape("args_imported_call", "src/codemodder/codemods/imported_call_modifier.py", ["C16"], "imported_call_shape",
      "args_variant", "ArgsAsWritten", ["ImportedCallModifier.updated_args", "ImportedCallModifier.leave_Call"],
      doc="ImportedCallModifier.leave_Call: new_args = updated_args(updated_node.args)")
shape("args_mapping_modifier", "src/codemodder/codemods/import_modifier_codemod.py", ["C16"], "mapping_modifier_shape",
      "args_variant", "ArgsAsWritten",
      ["MappingImportedCallModifier.update_attribute", "MappingImportedCallModifier.update_simple_name"],
      doc="MappingImportedCallModifier: updated_node.with_changes(args=new_args, func=Attribute(import_name, last name))")
shape("args_pyyaml", "src/core_codemods/harden_pyyaml.py", ["C16"], "pyyaml_shape", "pyyaml_variant", "PyyamlByParameter",
      ["HardenPyyamlCallMixin.update_call"],
      doc="harden-pyyaml update_call: PyyamlByIndex = args[:1] + args[1].with_changes(value=SafeLoader) (pinned tree); "
          "PyyamlByParameter = the argument binding Loader gets the value, all others kept (proposed_fixes/pyyaml-loader-argument.diff)")
shape("args_cookie", "src/core_codemods/secure_cookie_mixin.py", ["C16", "C07"], "cookie_shape", "args_variant",
      "ArgsAsWritten", ["SecureCookieMixin._choose_new_args"], doc="SecureCookieMixin._choose_new_args")
shape("args_cookie_flask", "src/core_codemods/secure_flask_cookie.py", ["C16"], "cookie_flask_shape", "args_variant",
      "ArgsAsWritten", ["SecureFlaskCookie.on_result_found"], doc="secure-flask-cookie on_result_found")
shape("args_https", "src/core_codemods/https_connection.py", ["C16"], "https_shape", "args_variant", "ArgsAsWritten",
      ["HTTPSConnectionModifier.updated_args", "HTTPSConnectionModifier.update_attribute",
       "HTTPSConnectionModifier.update_simple_name", "HTTPSConnectionModifier.count_positional_args"],
      doc="https-connection updated_args / update_attribute / update_simple_name")
shape("args_sandbox", "src/core_codemods/process_creation_sandbox.py", ["C16"], "sandbox_shape", "args_variant",
      "ArgsAsWritten", ["ProcessSandbox.on_result_found"], doc="sandbox-process-creation: [Arg(original_node.func), *original_node.args]")
shape("args_limit_readline", "src/core_codemods/limit_readline.py", ["C16"], "limit_readline_shape", "args_variant",
      "ArgsAsWritten", ["LimitReadline.on_result_found"], doc="limit-readline: update_arg_target(updated_node, [Integer])")
shape("args_ssl_tls", "src/core_codemods/upgrade_sslcontext_tls.py", ["C16"], "ssl_tls_shape", "args_variant",
      "ArgsAsWritten", ["UpgradeSSLContextTLS.on_result_found"], doc="upgrade-sslcontext-tls on_result_found")
shape("args_secure_random", "src/core_codemods/secure_random.py", ["C16"], "secure_random_shape", "args_variant",
      "ArgsAsWritten", ["SecureRandomTransformer.on_result_found"], doc="secure-random: update_call_target(updated_node, …)")
shape("args_timezone", "src/core_codemods/timezone_aware_datetime.py", ["C16"], "timezone_shape", "args_variant",
      "ArgsAsWritten", ["TransformDatetimeWithTimezone.leave_Call", "TransformDatetimeWithTimezone._has_timezone_arg"],
      doc="timezone-aware-datetime leave_Call")
shape("args_django_json", "src/core_codemods/django_json_response_type.py", ["C16"], "django_json_shape", "args_variant",
      "ArgsAsWritten", ["DjangoJsonResponseTypeTransformer.on_result_found"], doc="django-json-response-type on_result_found")

shape("args_jwt_opts", "src/core_codemods/jwt_decode_verify.py", ["C16"], "jwt_opts_shape", "args_variant", "ArgsAsWritten",
      ["JwtDecodeVerifyTransformer._replace_opts_dict", "JwtDecodeVerifyTransformer.replace_options_arg",
       "JwtDecodeVerifyTransformer.replace_args", "JwtDecodeVerifyTransformer.on_result_found", "is_verify_keyword"],
      doc="jwt-decode-verify: _replace_opts_dict (a **spread entry raises) / replace_options_arg / is_verify_keyword")

shape("args_p2k", "src/codemodder/utils/utils.py", ["C16"], "p2k_shape", "p2k_variant", "P2kCarriesOver", ["positional_to_keyword"],
      doc="utils.positional_to_keyword: P2kRaisesOnStar = as written (naming a starred argument raises, file untouched); "
          "P2kCarriesOver = starred arguments and everything after them carried over unchanged")
shape("args_send_file", "src/core_codemods/replace_flask_send_file.py", ["C16"], "send_file_shape", "args_variant", "ArgsAsWritten",
      ["ReplaceFlaskSendFile.leave_Call"],
      doc="replace-flask-send-file leave_Call: [p0, p1, *positional_to_keyword(original_node.args[1:], pos_to_key_map)]")


def _send_file_map(tree, repo):
    cls = find_def(tree, "ReplaceFlaskSendFile")
    for st in getattr(cls, "body", []):
        tgt = st.target if isinstance(st, ast.AnnAssign) else (st.targets[0] if isinstance(st, ast.Assign) and len(st.targets) == 1 else None)
        if isinstance(tgt, ast.Name) and tgt.id == "pos_to_key_map":
            try:
                v = ast.literal_eval(st.value)
            except Exception:
                raise Unrecognised("pos_to_key_map is not a literal")
            if not (isinstance(v, list) and all(x is None or isinstance(x, str) for x in v)):
                raise Unrecognised("pos_to_key_map is not a list of names / None")
            return v
    raise Unrecognised("ReplaceFlaskSendFile.pos_to_key_map not found")


custom("args_send_file_map", "src/core_codemods/replace_flask_send_file.py", ["C16"], "send_file_pos_map", "list (option str)",
       ["mimetype", "as_attachment", "download_name", "conditional", "etag", "last_modified", "max_age"], _send_file_map,
       printer=lambda v: "[" + "; ".join("None" if x is None else f"Some {coq_str(x)}" for x in v) + "]" if v else "([] : list (option str))",
       doc="replace-flask-send-file pos_to_key_map")

# ---- NewArg tables ------------------------------------------------------------------------------------------------
# files scanned (the anchors of C16); every NewArg(...) / replace_args(...) / add_arg_to_call(...) call in them must be understood
_NEWARG_FILES = [
    "requests_verify", "add_requests_timeouts", "harden_pyyaml", "harden_ruamel", "jwt_decode_verify",
    "enable_jinja2_autoescape", "lxml_safe_parser_defaults", "lxml_safe_parsing", "secure_random", "secure_flask_cookie",
    "secure_cookie_mixin", "subprocess_shell_false", "process_creation_sandbox", "url_sandbox", "use_defused_xml",
    "harden_pickle_load", "https_connection", "upgrade_sslcontext_tls", "upgrade_sslcontext_minimum_version",
    "limit_readline", "timezone_aware_datetime", "django_json_response_type", "fix_math_isclose",
]
# codemods of the list that edit arguments without a literal NewArg list (covered by shape fragments above, not by the table)
NEWARGS_NOT_COVERED = ["harden-pyyaml (update_call)", "https-connection (updated_args)", "limit-readline (Integer literal)",
                       "sandbox-process-creation ([func] + args)", "django-json-response-type (inline cst.Arg)",
                       "jwt-decode-verify (options dict rewriting)"]
_newargs_cache = {}


def _const_env(tree):
    """name -> constant for module-level, class-level and function-local `X = <constant>` assignments;
    a name that is also bound in any other way (non-constant value, tuple target, loop, with, argument) maps to None."""
    env, const_targets = {}, set()
    for node in ast.walk(tree):
        if isinstance(node, ast.Assign) and len(node.targets) == 1 and isinstance(node.targets[0], ast.Name) \
                and isinstance(node.value, ast.Constant) and isinstance(node.value.value, (str, int)) \
                and not isinstance(node.value.value, bool):
            name = node.targets[0].id
            const_targets.add(id(node.targets[0]))
            if name in env and env[name] != node.value.value:
                env[name] = None      # assigned twice with different values: not a constant
            else:
                env[name] = node.value.value
    for node in ast.walk(tree):
        if isinstance(node, ast.Name) and isinstance(node.ctx, ast.Store) and id(node) not in const_targets:
            env[node.id] = None
        elif isinstance(node, ast.arg):
            env[node.arg] = None
    return env


def _resolve(node, env, what):
    """value expression of a NewArg / add_arg_to_call -> text; `$name` for a non-constant local."""
    if isinstance(node, ast.Constant) and isinstance(node.value, (str, int)) and not isinstance(node.value, bool):
        return str(node.value)
    key = None
    if isinstance(node, ast.Name):
        key = node.id
    elif isinstance(node, ast.Attribute) and isinstance(node.value, ast.Name) and node.value.id == "self":
        key = node.attr
    if key is None:
        raise Unrecognised(f"{what}: value is neither a constant nor a name: {ast.dump(node)[:120]}")
    v = env.get(key)
    if v is None:
        if isinstance(node, ast.Name):
            return "$" + key          # computed at run time (timezone-aware-datetime's kwarg_val)
        raise Unrecognised(f"{what}: cannot resolve self.{key}")
    return str(v)


def _newarg_of_call(call, env, where):
    kws = {k.arg: k.value for k in call.keywords}
    pos = list(call.args)
    if len(pos) == 3 and not kws:
        kws = dict(zip(["name", "value", "add_if_missing"], pos))
    elif pos or set(kws) != {"name", "value", "add_if_missing"}:
        raise Unrecognised(f"{where}: NewArg(...) with unexpected arguments")
    n, a = kws["name"], kws["add_if_missing"]
    if not (isinstance(n, ast.Constant) and isinstance(n.value, str)):
        raise Unrecognised(f"{where}: NewArg name is not a string literal")
    if not (isinstance(a, ast.Constant) and isinstance(a.value, bool)):
        raise Unrecognised(f"{where}: NewArg add_if_missing is not a boolean literal")
    return (n.value, _resolve(kws["value"], env, where), a.value)


def _is_attr_call(node, attr):
    return isinstance(node, ast.Call) and isinstance(node.func, ast.Attribute) and node.func.attr == attr


def _extract_newargs(repo):
    key = str(repo)
    if key in _newargs_cache:
        return _newargs_cache[key]
    # the namedtuple itself
    lt = ast.parse((repo / _LT).read_text())
    na = find_assign(lt, "NewArg")
    want = ast.dump(ast.parse('namedtuple("NewArg", ["name", "value", "add_if_missing"])').body[0].value)
    if na is None or ast.dump(na) != want:
        raise Unrecognised("NewArg is no longer namedtuple('NewArg', ['name', 'value', 'add_if_missing'])")
    rows = []
    for stem in _NEWARG_FILES:
        path = repo / "src" / "core_codemods" / f"{stem}.py"
        try:
            tree = ast.parse(path.read_text())
        except (OSError, SyntaxError) as e:
            raise Unrecognised(f"cannot read/parse {path.name}: {e}")
        env = _const_env(tree)
        names = [k.value.value for c in ast.walk(tree) if isinstance(c, ast.Call) and isinstance(c.func, ast.Name)
                 and c.func.id == "Metadata" for k in c.keywords
                 if k.arg == "name" and isinstance(k.value, ast.Constant)]
        codemod = names[0] if len(names) == 1 else stem
        entries, claimed = [], set()
        for c in ast.walk(tree):
            if not isinstance(c, ast.Call):
                continue
            where = f"{stem}.py:{c.lineno}"
            if _is_attr_call(c, "replace_args") and not (isinstance(c.func.value, ast.Call) and isinstance(c.func.value.func, ast.Name)
                                                          and c.func.value.func.id == "super"):
                if len(c.args) != 2 or c.keywords:
                    raise Unrecognised(f"{where}: replace_args(...) with unexpected arguments")
                if not (isinstance(c.args[0], ast.Name) and c.args[0].id == "original_node"):
                    raise Unrecognised(f"{where}: replace_args is no longer applied to original_node")
                lst = c.args[1]
                if isinstance(lst, ast.List):
                    for el in lst.elts:
                        if not (isinstance(el, ast.Call) and isinstance(el.func, ast.Name) and el.func.id == "NewArg"):
                            raise Unrecognised(f"{where}: replace_args list element is not a NewArg(...) call")
                        entries.append(_newarg_of_call(el, env, where))
                        claimed.add(id(el))
                elif _is_attr_call(lst, "_choose_new_args"):
                    pass  # SecureCookieMixin: list built in secure_cookie_mixin.py (scanned as its own row + shape fragment)
                else:
                    raise Unrecognised(f"{where}: second argument of replace_args is not a list literal")
            elif _is_attr_call(c, "add_arg_to_call"):
                if len(c.args) != 3 or c.keywords or not (isinstance(c.args[1], ast.Constant) and isinstance(c.args[1].value, str)):
                    raise Unrecognised(f"{where}: add_arg_to_call(...) with unexpected arguments")
                if not (isinstance(c.args[0], ast.Name) and c.args[0].id == "updated_node"):
                    raise Unrecognised(f"{where}: add_arg_to_call is no longer applied to updated_node")
                entries.append((c.args[1].value, _resolve(c.args[2], env, where), True))
        # NewArg calls outside a replace_args list literal (secure_cookie_mixin builds its list in two steps)
        loose = [c for c in ast.walk(tree) if isinstance(c, ast.Call) and isinstance(c.func, ast.Name)
                 and c.func.id == "NewArg" and id(c) not in claimed]
        if loose:
            if stem != "secure_cookie_mixin":
                raise Unrecognised(f"{stem}.py:{loose[0].lineno}: NewArg(...) outside a replace_args list literal")
            loose.sort(key=lambda c: (c.lineno, c.col_offset))
            entries.extend(_newarg_of_call(c, env, f"{stem}.py:{c.lineno}") for c in loose)
        if entries:
            distinct = []          # several call sites with the same list (timezone-aware-datetime) document one delta
            for e in entries:
                if e not in distinct:
                    distinct.append(e)
            rows.append((codemod, distinct))
    _newargs_cache[key] = rows
    return rows


def _expr_of_text(text):
    """Python expression text -> Coq term of type expr (names, attributes, calls; anything else opaque)."""
    if text.startswith("$"):
        return f"(EConst {coq_str(text)})"
    try:
        node = ast.parse(text, mode="eval").body
    except SyntaxError:
        raise Unrecognised(f"NewArg value {text!r} is not a Python expression")

    def go(n):
        if isinstance(n, ast.Name):
            return f"(EName {coq_str(n.id)})"
        if isinstance(n, ast.Constant) and (n.value is True or n.value is False or n.value is None):
            return f"(EName {coq_str(repr(n.value))})"       # libcst parses True/False/None as Name
        if isinstance(n, ast.Attribute):
            return f"(EAttr {go(n.value)} {coq_str(n.attr)})"
        if isinstance(n, ast.Call):
            args = []
            for a in n.args:
                if isinstance(a, ast.Starred):
                    args.append(f"(mkArg None 1 0 0 {go(a.value)})")
                else:
                    args.append(f"(mkArg None 0 0 0 {go(a)})")
            for k in n.keywords:
                if k.arg is None:
                    args.append(f"(mkArg None 2 0 0 {go(k.value)})")
                else:
                    args.append(f"(mkArg (Some {coq_str(k.arg)}) 0 0 0 {go(k.value)})")
            return f"(ECall false {go(n.func)} {'[' + '; '.join(args) + ']' if args else '([] : list arg)'})"
        return f"(EConst {coq_str(ast.get_source_segment(text, n) or ast.unparse(n))})"
    return go(node)


def _print_newargs(rows):
    out = []
    for codemod, entries in rows:
        es = "; ".join(f"({coq_str(n)}, {coq_str(v)}, {'true' if a else 'false'})" for n, v, a in entries)
        out.append(f"({coq_str(codemod)},\n    [{es}])")
    return "[" + ";\n   ".join(out) + "]" if out else "[]"


def _print_newargs_expr(rows):
    out = []
    for codemod, entries in rows:
        es = "; ".join(f"mkNew {coq_str(n)} {_expr_of_text(v)} {'true' if a else 'false'}" for n, v, a in entries)
        out.append(f"({coq_str(codemod)},\n    [{es}])")
    return "[" + ";\n   ".join(out) + "]" if out else "[]"


def _newargs_fn(tree, repo):
    return [[c, [list(e) for e in es]] for c, es in _extract_newargs(repo)]


# what the property documents today (emitted when the source is unrecognised, so that the development still builds)
_NEWARGS_EXPECTED = [
    ["requests-verify", [["verify", "True", False]]],
    ["add-requests-timeouts", [["timeout", "60", True]]],
    ["harden-ruamel", [["typ", '"safe"', False]]],
    ["jwt-decode-verify", [["verify", "True", False]]],
    ["enable-jinja2-autoescape", [["autoescape", "True", True]]],
    ["safe-lxml-parser-defaults", [["resolve_entities", "False", True], ["no_network", "True", False], ["dtd_validation", "False", False]]],
    ["safe-lxml-parsing", [["parser", "lxml.etree.XMLParser(resolve_entities=False)", True]]],
    ["secure_cookie_mixin", [["secure", "True", True], ["httponly", "True", True], ["samesite", "'Lax'", True]]],
    ["subprocess-shell-false", [["shell", "False", False]]],
    ["upgrade-sslcontext-tls", [["protocol", "ssl.PROTOCOL_TLS_CLIENT", True]]],
    ["timezone-aware-datetime", [["tz", "$kwarg_val", True]]],
    ["fix-math-isclose", [["abs_tol", "1e-09", True]]],
]

custom("args_newargs", _LT, ["C16", "C07"], "newargs", "list (str * list (str * str * bool))", _NEWARGS_EXPECTED, _newargs_fn,
       printer=lambda v: _print_newargs([(c, [tuple(e) for e in es]) for c, es in v]),
       doc="literal NewArg(name, value, add_if_missing) lists / add_arg_to_call arguments of the hardening codemods (text)")
custom("args_newargs_expr", _LT, ["C16", "C07"], "newargs_expr", "list (str * list newarg)", _NEWARGS_EXPECTED, _newargs_fn,
       printer=lambda v: _print_newargs_expr([(c, [tuple(e) for e in es]) for c, es in v]),
       doc="the same lists with the values parsed into the model's expressions")
