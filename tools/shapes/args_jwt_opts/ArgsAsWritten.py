class JwtDecodeVerifyTransformer:
    def _replace_opts_dict(self, opts_dict):
        new_dict_elements = []

        for element in opts_dict.elements:
            if is_verify_keyword(element):
                new_el = cst.DictElement(
                    key=cst.parse_expression(element.key.value),
                    value=cst.parse_expression("True"),
                )
            else:
                new_el = element
            new_dict_elements.append(new_el)
        return new_dict_elements

    def replace_options_arg(self, node_args):
        new_args = []
        for arg in node_args:
            if matchers.matches(arg.keyword, matchers.Name("options")) and isinstance(
                opts_dict := arg.value, cst.Dict
            ):
                new_dict_elements = self._replace_opts_dict(opts_dict)
                new = cst.Arg(
                    keyword=cst.parse_expression("options"),
                    value=cst.Dict(
                        elements=new_dict_elements,
                    ),
                    equal=arg.equal,
                )
            else:
                new = arg
            new_args.append(new)
        return new_args

    def replace_args(self, original_node, args_info):
        new_args = super().replace_args(original_node, args_info)
        return self.replace_options_arg(new_args)

    def on_result_found(self, original_node, updated_node):
        new_args = self.replace_args(
            original_node, [NewArg(name="verify", value="True", add_if_missing=False)]
        )
        return self.update_arg_target(updated_node, new_args)

def is_verify_keyword(element: cst.DictElement) -> bool:
    """Determine if DictElement is something like:
        DictElement(
            key=SimpleString(
                value='"verify_signature"',
                lpar=[],
                rpar=[],
            )
            ...
    where value should be anything with the word `verify`
    """
    return (
        matchers.matches(element.key, matchers.SimpleString())
        and "verify" in element.key.value
    )

