(** Checkers of the C05 correspondence: each takes one observed case of the real implementation. *)
From CM Require Import Harness.RunBase Base.Types_Glob Model.Glob Spec.GlobSpec Spec.GlobDefaults Generated.Tables.

Definition defaults : list str * list str := (default_included_paths, default_excluded_paths).
Definition strs_eqb : list str -> list str -> bool := list_eqb str_eqb.

(** fnmatch.fnmatch(name, pat) observed *)
Definition fn_case := (str * str * bool)%type.
Definition fn_model_ok (c : fn_case) : bool := let '(name, pat, obs) := c in Bool.eqb (fnmatch name pat) obs.

(** pathlib's Path(p).suffix observed *)
Definition suffix_case := (str * str)%type.
Definition suffix_model_ok (c : suffix_case) : bool := let '(p, obs) := c in str_eqb (suffix_of p) obs.

(** match_files(parent, [parent/r for r in rels], exc, inc) observed, as target-relative strings in the order returned *)
Definition mf_case := (list str * option (list str) * option (list str) * list str)%type.
Definition mf_model_ok (c : mf_case) : bool :=
  let '(rels, exc, inc, obs) := c in strs_eqb (match_files defaults rels exc inc) obs.
Fixpoint strictly_sorted (l : list str) : bool :=
  match l with
  | a :: tl => match tl with b :: _ => match str_cmp a b with Lt => strictly_sorted tl | _ => false end | [] => true end
  | [] => true
  end.
Definition mf_spec_ok (c : mf_case) : bool :=
  let '(rels, exc, inc, obs) := c in
  let inc' := or_default inc (fst pinned_defaults) in
  let exc' := or_default exc (snd pinned_defaults) in
  forallb (fun f => Bool.eqb (mem_str f obs) (selectedb inc' exc' f)) rels
  && forallb (fun f => mem_str f rels) obs
  && strictly_sorted obs.

(** End to end, find-and-fix mode: a tree whose regular files all carry a trigger, the user's pattern lists, and the
    observed set of changed files (target-relative, sorted by the harness). *)
Definition node_of (n : N) : node :=
  match n with 0%N => NFile | 1%N => NDir | 2%N => NLinkFile | 3%N => NLinkDir | _ => NLinkBroken end.
Definition e2e_case := (list (str * N) * list str * list str * list str)%type.
Definition tree_of (l : list (str * N)) : tree := map (fun e => (fst e, node_of (snd e))) l.
Definition py_ext : list str := [[46; 112; 121]%N].
Definition e2e_model_ok (c : e2e_case) : bool :=
  let '(t, exc, inc, obs) := c in
  strs_eqb (List.filter (fun _ => true) (ff_files_to_analyze defaults py_ext (files_for_directory (tree_of t)) exc inc)) obs.
Definition e2e_spec_ok (c : e2e_case) : bool :=
  let '(t, exc, inc, obs) := c in
  let inc' := or_default (or_none inc) (fst pinned_defaults) in
  let exc' := or_default (or_none exc) (snd pinned_defaults) in
  forallb (fun e => Bool.eqb (mem_str (fst e) obs)
                             (is_regular (node_of (snd e)) && str_eqb (suffix_of (fst e)) [46; 112; 121]%N
                              && selectedb inc' exc' (fst e))) t
  && forallb (fun f => existsb (fun e => str_eqb (fst e) f) t) obs.

(** End to end, SAST mode: [res] = files for which the tool reported a finding; registry default includes given. *)
Definition sast_case := (list (str * N) * list str * list str * list str * list str * list str)%type.
Definition sast_model_ok (c : sast_case) : bool :=
  let '(t, res, regdef, exc, inc, obs) := c in
  strs_eqb (sast_files_to_analyze defaults regdef py_ext (fun f => mem_str f res) (files_for_directory (tree_of t)) exc inc) obs.
Definition sast_spec_ok (c : sast_case) : bool :=
  let '(t, res, regdef, exc, inc, obs) := c in
  forallb (fun e => Bool.eqb (mem_str (fst e) obs)
                             (is_regular (node_of (snd e)) && str_eqb (suffix_of (fst e)) [46; 112; 121]%N
                              && mem_str (fst e) res && selectedb (included_paths inc regdef) exc (fst e))) t
  && forallb (fun f => existsb (fun e => str_eqb (fst e) f) t) obs.
