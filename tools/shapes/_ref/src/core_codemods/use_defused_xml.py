from functools import cached_property

from codemodder.codemods.import_modifier_codemod import ImportModifierCodemod
from codemodder.codemods.libcst_transformer import LibcstTransformerPipeline
from codemodder.dependency import DefusedXML, Dependency
from core_codemods.api import CoreCodemod, Metadata, Reference, ReviewGuidance

ETREE_METHODS = ["parse", "fromstring", "iterparse", "XMLParser"]
SAX_METHODS = ["parse", "make_parser", "parseString"]
DOM_METHODS = ["parse", "parseString"]
# TODO: add expat methods?


class UseDefusedXmlTransformer(ImportModifierCodemod):
    change_description = "Replace builtin XML method with safe `defusedxml` method"

    @cached_property
    def mapping(self) -> dict[str, str]:
        """Build a mapping of functions to their defusedxml imports"""
        _matching_functions: dict[str, str] = {}
        for module, defusedxml, methods in [
            ("xml.etree.ElementTree", "defusedxml.ElementTree", ETREE_METHODS),
            ("xml.etree.cElementTree", "defusedxml.ElementTree", ETREE_METHODS),
            ("xml.sax", "defusedxml.sax", SAX_METHODS),
            ("xml.dom.minidom", "defusedxml.minidom", DOM_METHODS),
            ("xml.dom.pulldom", "defusedxml.pulldom", DOM_METHODS),
        ]:
            _matching_functions.update(
                {f"{module}.{method}": defusedxml for method in methods}
            )
        return _matching_functions

    @property
    def dependency(self) -> Dependency:
        return DefusedXML


UseDefusedXml = CoreCodemod(
    metadata=Metadata(
        name="use-defusedxml",
        summary="Use `defusedxml` for Parsing XML",
        review_guidance=ReviewGuidance.MERGE_AFTER_REVIEW,
        references=[
            Reference(
                url="https://docs.python.org/3/library/xml.html#xml-vulnerabilities"
            ),
            Reference(
                url="https://docs.python.org/3/library/xml.html#the-defusedxml-package"
            ),
            Reference(url="https://pypi.org/project/defusedxml/"),
            Reference(
                url="https://cheatsheetseries.owasp.org/cheatsheets/XML_External_Entity_Prevention_Cheat_Sheet.html"
            ),
        ],
    ),
    transformer=LibcstTransformerPipeline(UseDefusedXmlTransformer),
)
