(** C19 — regex and XML pipelines edit only their targets and preserve everything else.

    Full statement (regex half): for every text file (list of lines as produced by splitlines(keepends=True)),
    every per-line substitution [sub] (= re.sub(pattern, replacement, line)), every set of tool results and
    both values of dry_run:
      - every line that is not a target (pattern does not change it / for the SAST class: its 1-based number is
        not the start line of a result) is byte-identical in the output, the number of lines is preserved;
      - the ChangeSet has exactly one change per edited line, lineNumber = 1-based position, in increasing order,
        carrying exactly the findings whose range contains that line number;
      - no edit => the call returns None and nothing is written; dry_run => nothing is written and the same
        ChangeSet is returned; otherwise the file is the concatenation of the updated lines and the diff is
        create_diff(original_lines, updated_lines);
      - SAST class: a targeted line the pattern leaves unchanged is reported unfixed (with the findings of that line).
    What is proved: all of it, for the model of Model/RegexPipe.v ([sub], [mkdiff] universally quantified, so the
    theorems hold for whatever re.sub / create_diff compute).  The findings clause depends on how the source
    writes the index handed to get_findings_for_location; it is table-indexed (positive for [OneBased], refuted
    by a witness for [ZeroBased], the pinned form).  Not covered here: the diff TEXT (C03 / Diff.v), decoding
    failures (C10). *)
From CM Require Import Model.RegexPipe Spec.RegexPipeSpec Proofs.RegexPipeFacts Generated.Tables.
From Coq Require Import Sorted.

(** ** non-target lines are identical; line count preserved (non-SAST class: the targets are the lines [sub] changes) *)
Theorem C19_regex_untargeted_identical :
  forall (sub : str -> str) fc v lines,
    let upd := r_updated (regex_apply_lines sub fc v lines) in
    length upd = length lines /\
    (forall i l, nth_error lines i = Some l -> nth_error upd i = Some (sub l)) /\
    (forall i l, nth_error lines i = Some l -> sub l = l -> nth_error upd i = Some l) /\
    (forall D (mkdiff : list str -> list str -> D) dry,
        ao_file (regex_apply sub fc mkdiff v dry lines) = if dry then concat lines else concat upd).
Proof. exact regex_untargeted_identical. Qed.
Print Assumptions C19_regex_untargeted_identical.

(** ** changes == edits: one change per position where original and updated line differ, 1-based, increasing *)
Theorem C19_regex_changes_eq_edits :
  forall (sub : str -> str) fc v lines,
    let r := regex_apply_lines sub fc v lines in
    map c_line (r_changes r) = edited_lines lines (r_updated r) /\
    StronglySorted N.lt (map c_line (r_changes r)) /\
    (forall n, In n (map c_line (r_changes r)) <->
               exists i a b, nth_error lines i = Some a /\ nth_error (r_updated r) i = Some b /\ a <> b /\
                             n = (1 + N.of_nat i)%N).
Proof. exact regex_changes_eq_edits. Qed.
Print Assumptions C19_regex_changes_eq_edits.

Theorem C19_sast_changes_eq_edits :
  forall (sub : str -> str) fc v rs lines r,
    sast_apply_lines sub fc v (Some rs) lines = Some r -> rs <> [] ->
    map c_line (r_changes r) = edited_lines lines (r_updated r) /\
    StronglySorted N.lt (map c_line (r_changes r)).
Proof. exact sast_changes_eq_edits. Qed.
Print Assumptions C19_sast_changes_eq_edits.

(** ** dry-run / no-change guards of apply, both classes *)
Theorem C19_regex_dry :
  forall (sub : str -> str) fc D (mkdiff : list str -> list str -> D) v lines,
    let dry := regex_apply sub fc mkdiff v true lines in
    let real := regex_apply sub fc mkdiff v false lines in
    let upd := r_updated (regex_apply_lines sub fc v lines) in
    ao_file dry = concat lines /\ ao_ret dry = ao_ret real /\ ao_unfixed dry = ao_unfixed real /\
    (ao_ret real = None <-> edited_lines lines upd = []) /\
    (ao_ret real = None -> ao_file real = concat lines) /\
    (forall cs, ao_ret real = Some cs -> ao_file real = concat upd /\ cs_diff cs = mkdiff lines upd /\ cs_changes cs <> []).
Proof. exact regex_dry. Qed.
Print Assumptions C19_regex_dry.

Theorem C19_sast_dry :
  forall (sub : str -> str) fc D (mkdiff : list str -> list str -> D) v rs lines,
    exists dry real,
      sast_apply sub fc mkdiff v true (Some rs) lines = Some dry /\
      sast_apply sub fc mkdiff v false (Some rs) lines = Some real /\
      ao_file dry = concat lines /\ ao_ret dry = ao_ret real /\ ao_unfixed dry = ao_unfixed real /\
      (ao_ret real = None -> ao_file real = concat lines) /\
      (forall cs, ao_ret real = Some cs ->
                  ao_file real = concat (spec_updated sub (sast_targets rs) lines) /\
                  cs_diff cs = mkdiff lines (spec_updated sub (sast_targets rs) lines)).
Proof. exact sast_dry. Qed.
Print Assumptions C19_sast_dry.

(** ** SAST class: only lines whose 1-based number is the start line of a result are touched; a targeted line the
       pattern does not change is kept and its findings are reported unfixed; results=None raises (TypeError) *)
Theorem C19_sast_only_finding_lines :
  forall (sub : str -> str) fc D (mkdiff : list str -> list str -> D) v dry rs lines,
    exists out,
      sast_apply sub fc mkdiff v dry (Some rs) lines = Some out /\
      ao_file out = spec_file sub (sast_targets rs) dry lines /\
      ao_unfixed out = spec_unfixed sub fc (sast_targets rs) lines /\
      length (spec_updated sub (sast_targets rs) lines) = length lines /\
      (forall i l, nth_error lines i = Some l ->
                   nth_error (spec_updated sub (sast_targets rs) lines) i =
                   Some (if mem_N (N.of_nat i + 1) (start_lines rs) then sub l else l)) /\
      (forall cs c, ao_ret out = Some cs -> In c (cs_changes cs) -> In (c_line c) (start_lines rs)).
Proof. exact sast_only_finding_lines. Qed.
Print Assumptions C19_sast_only_finding_lines.

Theorem C19_sast_results_none_raises :
  forall (sub : str -> str) fc v lines, sast_apply_lines sub fc v None lines = None.
Proof. reflexivity. Qed.
Print Assumptions C19_sast_results_none_raises.

(** ** findings of a change = exactly the findings whose range contains the changed line (table-indexed) *)
Definition finding_in_range (fc : list result) (n f : N) : Prop :=
  exists r, In r fc /\ r_finding r = Some f /\ exists l, In l (r_locs r) /\ (fst l <= n <= snd l)%N.

Definition C19_regex_findings_statement (v : index_form) : Prop :=
  match v with
  | OneBased =>
      forall (sub : str -> str) fc lines c,
        In c (r_changes (regex_apply_lines sub fc v lines)) ->
        c_findings c = findings_for_location fc (c_line c) /\
        (forall f, In f (c_findings c) <-> finding_in_range fc (c_line c) f)
  | ZeroBased =>
      exists (sub : str -> str) fc lines c,
        In c (r_changes (regex_apply_lines sub fc v lines)) /\
        c_findings c <> findings_for_location fc (c_line c)
  end.
Theorem C19_regex_findings : C19_regex_findings_statement regex_findings_index.
Proof. exact (C19_regex_findings_all regex_findings_index). Qed.
Print Assumptions C19_regex_findings.

Definition C19_sast_findings_statement (v : index_form) : Prop :=
  match v with
  | OneBased =>
      forall (sub : str -> str) fc rs lines r c,
        sast_apply_lines sub fc v (Some rs) lines = Some r -> In c (r_changes r) ->
        c_findings c = findings_for_location fc (c_line c) /\
        (forall f, In f (c_findings c) <-> finding_in_range fc (c_line c) f)
  | ZeroBased =>
      exists (sub : str -> str) fc rs lines r c,
        sast_apply_lines sub fc v (Some rs) lines = Some r /\ In c (r_changes r) /\
        c_findings c <> findings_for_location fc (c_line c)
  end.
Theorem C19_sast_findings : C19_sast_findings_statement sast_regex_findings_index.
Proof. exact (C19_sast_findings_all sast_regex_findings_index). Qed.
Print Assumptions C19_sast_findings.

(** ** the whole of _apply/apply against the reference spec (repaired index form) *)
Theorem C19_regex_model_is_spec :
  forall (sub : str -> str) fc lines,
    regex_apply_lines sub fc OneBased lines =
    (spec_changes sub fc all_lines lines, spec_updated sub all_lines lines, []) /\
    forall r rs, sast_apply_lines sub fc OneBased (Some (r :: rs)) lines =
                 Some (spec_changes sub fc (sast_targets (r :: rs)) lines,
                       spec_updated sub (sast_targets (r :: rs)) lines,
                       spec_unfixed sub fc (sast_targets (r :: rs)) lines).
Proof. exact regex_model_is_spec. Qed.
Print Assumptions C19_regex_model_is_spec.

(** ** non-vacuity: a three-line file, the pattern matches lines 1 and 3, findings on lines 2-3 *)
Example C19_regex_example :
  let sub := fun l : str => match l with 97%N :: r => 65%N :: r | _ => l end in        (* a... -> A... *)
  let fc := [ {| r_locs := [(2, 3)]; r_finding := Some 7 |}; {| r_locs := [(3, 3)]; r_finding := None |};
              {| r_locs := [(1, 1); (3, 3)]; r_finding := Some 9 |} ]%N in
  let lines := [[97; 10]; [98; 10]; [97; 99]]%N in
  regex_apply_lines sub fc OneBased lines =
    ([ {| c_line := 1; c_findings := [9] |}; {| c_line := 3; c_findings := [7; 9] |} ],
     [[65; 10]; [98; 10]; [65; 99]], [])%N /\
  sast_apply_lines sub fc OneBased (Some [ {| r_locs := [(2, 3)]; r_finding := Some 7 |};
                                           {| r_locs := [(3, 9)]; r_finding := Some 8 |} ]%N) lines =
    Some ([ {| c_line := 3; c_findings := [7; 9] |} ], [[97; 10]; [98; 10]; [65; 99]], [(7, 2)])%N.
Proof. vm_compute. split; reflexivity. Qed.
