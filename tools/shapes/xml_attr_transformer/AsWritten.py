class ElementAttributeXMLTransformer(XMLTransformer):
    """
    Changes the element and its attributes to the values provided in a given dict. For any attribute missing in the dict will stay the same as the original.
    """

    def __init__(
        self,
        out,
        file_context: FileContext,
        name_attributes_map: dict[str, dict[str, str]],
        encoding: str = "utf-8",
        short_empty_elements: bool = False,
        results: list[Result] | None = None,
        line_only_matching=False,
    ) -> None:
        self.name_attributes_map = name_attributes_map
        super().__init__(
            out,
            file_context,
            encoding,
            short_empty_elements,
            results,
            line_only_matching,
        )

    def startElement(self, name, attrs):
        new_attrs: AttributesImpl = attrs
        if self.event_match_result() and name in self.name_attributes_map:
            new_attrs = AttributesImpl(attrs._attrs | self.name_attributes_map[name])
            self.add_change(self._my_locator.getLineNumber())
        super().startElement(name, new_attrs)
