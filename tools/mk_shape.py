"""mkshape.py <srcfile> <outfile> <qualname>...  — copy the named defs (verbatim source) into a shape file."""
import ast, sys, textwrap
src, out, *quals = sys.argv[1:]
text = open(src).read()
tree = ast.parse(text)
def find(tree, q):
    scope = tree
    for p in q.split("."):
        for s in scope.body:
            if isinstance(s, (ast.FunctionDef, ast.ClassDef)) and s.name == p:
                scope = s; break
        else:
            return None
    return scope
classes = {}
top = []
for q in quals:
    n = find(tree, q)
    if n is None:
        continue
    seg = ast.get_source_segment(text, n, padded=True)
    if "." in q:
        classes.setdefault(q.split(".")[0], []).append(textwrap.dedent(seg))
    else:
        top.append(textwrap.dedent(seg))
parts = []
for c, defs in classes.items():
    parts.append(f"class {c}:\n" + "\n".join(textwrap.indent(d, "    ") for d in defs))
parts += top
open(out, "w").write("\n\n".join(parts) + "\n")
