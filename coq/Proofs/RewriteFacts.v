(** Kernel facts about the rewrites that other properties reuse:
      C01 (still parses):      [wf e -> wf (rw e)]                      C01_kernel_*
      C07 (second run no-op):  [rw (rw e) = rw e]                       C07_kernel_*
      C02 (no new free name):  [names (rw e) ⊆ names e ∪ builtins]      C02_kernel_*
    Proved where true of the code as written; otherwise a concrete witness ([..._refuted]), each replayed on the real
    codemod by harness/c08.py (corpus) or documented in the final report.
    Not proved (left to the per-case checks of the harness, which compare [wf (rw e)] with CPython's parser and [rw] with
    the real codemod on every generated case): wf / idempotence / names for combine_calls and for the table branch of
    invert_comparisons. *)
From CM Require Import Model.MiniPy Model.PySem Model.Rewrites Spec.RewritesSpec Proofs.PySemFacts.
From Coq Require Import String.

Definition incl_str (a b : list str) : Prop := forall x, List.In x a -> List.In x b.
Lemma gen_call_hit' cfg f elt x it rest :
  gen_hit cfg f (EListComp elt x it :: rest) = true -> gen_call cfg f (EListComp elt x it :: rest) = ECall f [EGen false elt x it].
Proof. unfold gen_hit, gen_call. intros ->. reflexivity. Qed.

(** * C07: idempotence *)
(** use-generator: a rewritten call is `f(<generator>)`, which the codemod leaves alone; calls are never entered *)
Definition is_listcomp (e : expr) : bool := match e with EListComp _ _ _ => true | _ => false end.
Lemma gen_call_not_listcomp cfg f args : is_listcomp (gen_call cfg f args) = false.
Proof.
  unfold gen_call. destruct args as [|a r]; [reflexivity|]. destruct a; try reflexivity.
  destruct (gen_func f && (negb (ug_single_arg cfg) || match r with [] => true | _ :: _ => false end)); reflexivity.
Qed.
Lemma rw_generator_is_listcomp cfg e : is_listcomp (rw_generator cfg e) = is_listcomp e.
Proof.
  destruct e; try reflexivity; cbn [rw_generator].
  - destruct (ug_nested cfg); reflexivity.
  - destruct (gen_hit cfg f args); [destruct (ug_updated_parts cfg); apply gen_call_not_listcomp|destruct (ug_nested cfg); reflexivity].
Qed.
Lemma gen_hit_map cfg f args : gen_hit cfg f (map (rw_generator cfg) args) = gen_hit cfg f args.
Proof.
  destruct args as [|a rest]; [reflexivity|]. cbn [map]. unfold gen_hit.
  pose proof (rw_generator_is_listcomp cfg a) as H.
  destruct (rw_generator cfg a), a; cbn in H; try discriminate; try reflexivity.
  destruct rest; reflexivity.
Qed.
(** the configurations under which a first run leaves nothing for a second one: either calls are never entered
    (pinned, first repair), or nested rewrites are kept AND the generator is built from the updated comprehension *)
Definition generator_stable (cfg : generator_cfg) : bool := negb (ug_nested cfg) || ug_updated_parts cfg.
Lemma C07_kernel_generator_idempotent cfg : generator_stable cfg = true ->
  forall e, rw_generator cfg (rw_generator cfg e) = rw_generator cfg e.
Proof.
  intros St.
  induction e as [x|c|t|es H|es H|es H|r m args H|f args H|par op e1 e2 IHe1 IHe2|par e IHe|par e rest IHe H|e1 x e2 IHe1 IHe2|par e1 x e2 IHe1 IHe2|e1 e2 IHe1 IHe2|n e IHe]
    using expr_ind'; cbn [rw_generator]; try reflexivity;
    try (f_equal; rewrite map_map; apply map_ext_in; intros a Ha; rewrite Forall_forall in H; apply H, Ha);
    try (rewrite IHe1, IHe2; reflexivity); try (rewrite IHe; reflexivity).
  - (* EMeth *)
    destruct (ug_nested cfg) eqn:Nst; cbn [rw_generator]; rewrite Nst; [|reflexivity].
    f_equal. rewrite map_map. apply map_ext_in. intros a Ha. rewrite Forall_forall in H. apply H, Ha.
  - (* ECall *)
    destruct (gen_hit cfg f args) eqn:Hit.
    + destruct args as [|a rest]; [discriminate|]. destruct a as [| | | | | | | | | | |elt x it| | |]; try discriminate.
      inversion H as [|? ? Ha _]; subst. cbn [rw_generator] in Ha. injection Ha as Helt Hit'.
      assert (Hit2 : gen_hit cfg f (map (rw_generator cfg) (EListComp elt x it :: rest)) = true) by (rewrite gen_hit_map; exact Hit).
      unfold generator_stable in St.
      destruct (ug_updated_parts cfg) eqn:Pt.
      * cbn [map rw_generator] in *. rewrite gen_call_hit' by exact Hit2.
        cbn [rw_generator gen_hit]. destruct (ug_nested cfg); [|reflexivity].
        cbn [map rw_generator]. rewrite Helt, Hit'. reflexivity.
      * rewrite orb_false_r in St. apply negb_true_iff in St.
        rewrite gen_call_hit' by exact Hit. cbn [rw_generator gen_hit]. rewrite St. reflexivity.
    + destruct (ug_nested cfg) eqn:Nst; cbn [rw_generator].
      * rewrite gen_hit_map, Hit, Nst. f_equal. rewrite map_map. apply map_ext_in. intros a Ha. rewrite Forall_forall in H. apply H, Ha.
      * rewrite Hit, Nst. reflexivity.
  - (* ECmp *) rewrite IHe. f_equal. rewrite map_map. apply map_ext_in. intros cb Hcb. cbn [fst snd].
    rewrite Forall_forall in H. rewrite (H cb Hcb). reflexivity.
Qed.
(** with `return updated_node` alone the generator is still built from the ORIGINAL comprehension, so a rewrite inside it is
    only made by a second run:  any([any([v5 for v5 in v4]) for v4 in v3]) -> any(any([..]) for ..) -> any(any(..) for ..)
                                                                         [reproduced on the real codemod with the one-line patch] *)
Definition w_gen_nested : expr :=
  ECall BAny [EListComp (ECall BAny [EListComp (EName 5) 5 (EName 4)]) 4 (EName 3)].
Lemma C07_kernel_generator_nested_refuted :
  wf w_gen_nested = true /\
  rw_generator nested_generator (rw_generator nested_generator w_gen_nested) <> rw_generator nested_generator w_gen_nested /\
  rw_generator nested_updated_generator (rw_generator nested_updated_generator w_gen_nested) = rw_generator nested_updated_generator w_gen_nested.
Proof. vm_compute. split; [reflexivity|split; [discriminate|reflexivity]]. Qed.

(** use-set-literal builds the set display from the ORIGINAL elements, so a nested `set([...])` survives the first run
    and is rewritten by the second:  set([len(set([1]))]) -> {len(set([1]))} -> {len({1})}          [reproduced on /repo] *)
Definition w_set_nested : expr :=
  ECall BSet [EList [ECall BLen [ECall BSet [EList [EConst (CInt 1)]]]]].
Lemma C07_kernel_set_literal_refuted :
  wf w_set_nested = true /\ rw_set_literal (rw_set_literal w_set_nested) <> rw_set_literal w_set_nested.
Proof. vm_compute. split; [reflexivity|discriminate]. Qed.

(** invert-boolean-check: `not (v1 == v2) is True` -> `not (v1 == v2)` -> `v1 != v2`                 [reproduced on /repo] *)
Definition w_invert_twice : expr :=
  ENot true (ECmp true (ECmp true (EName 1) [(Eq, EName 2)]) [(Is, EConst (CBool true))]).
Lemma C07_kernel_invert_refuted cfg :
  assoc_op Eq (iv_table cfg) = Some NotEq ->
  wf w_invert_twice = true /\ invert_file cfg (invert_file cfg w_invert_twice) <> invert_file cfg w_invert_twice.
Proof.
  intros A. split; [reflexivity|]. unfold invert_file, rw_invert.
  destruct cfg as [t d c p]. cbn [iv_table] in A. destruct c, p; vm_compute; vm_compute in A; rewrite A; discriminate.
Qed.

(** fix-hasattr-call, idempotent on its own output's root: callable(..) is not a hasattr call *)
Lemma C07_kernel_hasattr_step_stable cfg a : hasattr_step cfg (ECall BCallable [a]) = ECall BCallable [a].
Proof. reflexivity. Qed.

(** * C01: well-formedness *)
(** the pinned default branch prints the comparator twice: never well-formed *)
Definition w_default_in : expr := ENot true (ECmp true (EName 1) [(In, ESet [EConst (CInt 1)])]).     (* not v1 in {1} -> v1 in {1}{1} *)
Lemma C01_kernel_invert_default_refuted :
  wf w_default_in = true /\ wf (invert_file pinned_invert w_default_in) = false /\
  pp (invert_file pinned_invert w_default_in) = lit "v1 in {1}{1}".
Proof. vm_compute. repeat split. Qed.
(** the replacement `not x` loses the parentheses of the node it replaces: `v1 == (not v2 is True)` -> `v1 == not v2`,
    a syntax error left on disk                                                                  [reproduced on /repo] *)
Definition w_not_after_cmp : expr :=
  ECmp true (EName 1) [(Eq, ENot true (ECmp false (EName 2) [(Is, EConst (CBool true))]))].
Lemma C01_kernel_invert_parens_refuted :
  wf w_not_after_cmp = true /\ wf (invert_file pinned_invert w_not_after_cmp) = false /\
  pp (invert_file pinned_invert w_not_after_cmp) = lit "(v1 == not v2)" /\
  wf (invert_file repaired_invert w_not_after_cmp) = true.
Proof. vm_compute. repeat split. Qed.

(** use-generator: the generator is the sole argument, so it needs no parentheses of its own *)
Lemma gen_call_wf cfg f args : wf (ECall f args) = true -> wf (gen_call cfg f args) = true.
Proof.
  unfold gen_call. destruct args as [|a rest]; [trivial|]. destruct a; trivial.
  destruct (gen_func f && (negb (ug_single_arg cfg) || match rest with [] => true | _ :: _ => false end)); [|trivial].
  cbn [wf]. destruct rest as [|b rest'].
  - intros H. exact H.
  - intros H. apply andb_true_iff in H as [H _]. apply andb_true_iff in H as [H _]. exact H.
Qed.
(** use-set-literal: the empty list gives `set()`, never the dict display `{}` *)
Lemma C01_kernel_set_literal_empty : rw_set_literal (ECall BSet [EList []]) = ECall BSet [] /\ wf (ECall BSet []) = true /\ wf (ESet []) = false.
Proof. repeat split. Qed.
Lemma C01_kernel_set_literal_nonempty a es : wf (ECall BSet [EList (a :: es)]) = true -> wf (rw_set_literal (ECall BSet [EList (a :: es)])) = true.
Proof. intros H. exact H. Qed.

(** * C02: names *)
(** fix-hasattr-call introduces exactly one name, the builtin `callable` *)
Lemma C02_kernel_hasattr_step_names cfg a rest :
  incl_str (names (hasattr_step cfg (ECall BHasattr (a :: rest)))) (names (ECall BHasattr (a :: rest)) ++ builtin_names).
Proof.
  cbn [hasattr_step]. destruct (hasattr_fires cfg a rest); [|intros x Hx; apply in_or_app; left; exact Hx].
  intros x Hx. cbn [names] in Hx. destruct Hx as [<-|Hx].
  - apply in_or_app. right. vm_compute. tauto.
  - apply in_or_app. left. cbn [names]. right. rewrite app_nil_r in Hx. apply in_or_app. left. exact Hx.
Qed.
(** the pinned default branch of invert-boolean-check invents a name: `not v1 in v2` -> `v1 in v2v2` *)
Definition w_default_name : expr := ENot true (ECmp true (EName 1) [(In, EName 2)]).
Lemma C02_kernel_invert_refuted :
  List.In (lit "v2v2") (names (invert_file pinned_invert w_default_name)) /\
  ~ List.In (lit "v2v2") (names w_default_name ++ builtin_names).
Proof.
  split; [vm_compute; tauto|]. vm_compute. intros H.
  repeat (destruct H as [H|H]; [discriminate H|]). exact H.
Qed.
(** use-set-literal and use-generator only drop names *)
Lemma C02_kernel_set_literal_site es :
  incl_str (names (rw_set_literal (ECall BSet [EList es]))) (names (ECall BSet [EList es])).
Proof.
  destruct es as [|a t]; intros x Hx.
  - cbn in Hx. destruct Hx as [<-|[]]. left. reflexivity.
  - right. change (names (ECall BSet [EList (a :: t)])) with (pp_builtin BSet :: (names (EList (a :: t)) ++ [])).
    rewrite app_nil_r. exact Hx.
Qed.
Lemma C02_kernel_generator_site cfg f elt x it rest :
  incl_str (names (gen_call cfg f (EListComp elt x it :: rest))) (names (ECall f (EListComp elt x it :: rest))).
Proof.
  unfold gen_call. destruct (gen_func f && (negb (ug_single_arg cfg) || match rest with [] => true | _ :: _ => false end));
    [|intros y Hy; exact Hy].
  intros y Hy. cbn [names] in *. destruct Hy as [<-|Hy]; [left; reflexivity|right].
  rewrite app_nil_r in Hy. apply in_or_app. left. exact Hy.
Qed.

(** * fix-empty-sequence-comparison (site level: the node that replaces a matching comparison) *)
Lemma wf_cmp_single p l o c : wf (ECmp p l [(o, c)]) = true -> wf l = true /\ gen_par l = true /\ wf c = true /\ gen_par c = true.
Proof.
  cbn [wf]. intros H. apply andb_true_iff in H as [H Hr]. apply andb_true_iff in H as [H _]. apply andb_true_iff in H as [Hl Gl].
  apply andb_true_iff in Hr as [Hr _]. apply andb_true_iff in Hr as [Hr _]. apply andb_true_iff in Hr as [Hc Gc].
  repeat split; assumption.
Qed.
Lemma C01_kernel_empty_seq_wf cfg in_test e :
  wf e = true -> wf (empty_seq_new cfg (empty_seq_action in_test e) e) = true.
Proof.
  intros W. destruct e as [| | | | | | | | | |p l rest| | | |]; try exact W.
  destruct rest as [|[o c] [|? ?]]; try exact W. unfold empty_seq_action.
  destruct (is_empty_seq l || is_empty_seq c); [|exact W].
  destruct (wf_cmp_single p l o c W) as (Wl & Gl & Wc & Gc).
  assert (Wx : wf (if is_empty_seq l then c else l) = true /\ gen_par (if is_empty_seq l then c else l) = true)
    by (destruct (is_empty_seq l); split; assumption).
  destruct Wx as [Wx Gx].
  destruct o; try exact W.
  - cbn [empty_seq_new wf]. rewrite Wx, Gx. reflexivity.
  - destruct in_test; [exact Wx|]. destruct (has_value_attr _); [|exact W]. cbn [empty_seq_new wf]. exact Wx.
Qed.
(** in context the pinned form (no parentheses on the new `not`) can print text that does not parse: 2 // (v1 == []) -> 2 // not v1 *)
Definition w_es_floordiv_text : str := lit "(2 // not v1)".
Definition bool_name : str := lit "bool".
Definition w_es_floordiv : expr := EFloorDiv (EConst (CInt 2)) (ECmp true (EName 1) [(Eq, EList [])]).
Lemma C01_kernel_empty_seq_pinned_refuted :
  wf w_es_floordiv = true /\ wf (empty_seq_file pinned_empty_seq false w_es_floordiv) = false /\
  pp (empty_seq_file pinned_empty_seq false w_es_floordiv) = w_es_floordiv_text /\
  wf (empty_seq_file repaired_empty_seq false w_es_floordiv) = true.
Proof. vm_compute. repeat split. Qed.
Lemma C02_kernel_empty_seq_names cfg in_test e :
  incl_str (names (empty_seq_new cfg (empty_seq_action in_test e) e)) (names e ++ builtin_names).
Proof.
  assert (Self : incl_str (names e) (names e ++ builtin_names)) by (intros y Hy; apply in_or_app; left; exact Hy).
  destruct e as [| | | | | | | | | |p l rest| | | |]; try exact Self.
  destruct rest as [|[o c] [|? ?]]; try exact Self. unfold empty_seq_action.
  destruct (is_empty_seq l || is_empty_seq c); [|exact Self].
  assert (Sub : incl_str (names (if is_empty_seq l then c else l)) (names (ECmp p l [(o, c)]) ++ builtin_names)).
  { intros y Hy. apply in_or_app. left. cbn [names]. rewrite app_nil_r. apply in_or_app. destruct (is_empty_seq l); [right|left]; exact Hy. }
  destruct o; try exact Self.
  - exact Sub.
  - destruct in_test; [exact Sub|]. destruct (has_value_attr _); [|exact Self].
    cbn [empty_seq_new]. intros y Hy. cbn [names] in Hy. destruct Hy as [<-|Hy].
    + apply in_or_app. right. vm_compute. tauto.
    + rewrite app_nil_r in Hy. apply Sub, Hy.
Qed.
(** the replacement is built from the ORIGINAL operands: ((v1 == []) == []) -> (not (v1 == [])) -> (not (not v1))    [reproduced on /repo] *)
Definition w_es_nested : expr := ECmp true (ECmp true (EName 1) [(Eq, EList [])]) [(Eq, EList [])].
Lemma C07_kernel_empty_seq_refuted cfg :
  wf w_es_nested = true /\
  empty_seq_file cfg false (empty_seq_file cfg false w_es_nested) <> empty_seq_file cfg false w_es_nested.
Proof. destruct cfg as [[]]; vm_compute; (split; [reflexivity|discriminate]). Qed.

(** * literal-or-new-object-identity (site level) *)
Lemma C01_kernel_identity_wf e e' : identity_f e = Some e' -> wf e = true -> wf e' = true.
Proof.
  destruct e as [| | | | | | | | | |p l rest| | | |]; try discriminate. destruct rest as [|[o c] [|? ?]]; try discriminate.
  cbn [identity_f]. destruct (is_literal_or_new l || is_literal_or_new c); [|discriminate].
  destruct o; try discriminate; intros H W; injection H as <-; exact W.
Qed.
Lemma C02_kernel_identity_names e e' : identity_f e = Some e' -> names e' = names e.
Proof.
  destruct e as [| | | | | | | | | |p l rest| | | |]; try discriminate. destruct rest as [|[o c] [|? ?]]; try discriminate.
  cbn [identity_f]. destruct (is_literal_or_new l || is_literal_or_new c); [|discriminate].
  destruct o; try discriminate; intros H; injection H as <-; reflexivity.
Qed.
(** ((v1 is []) is []) -> ((v1 is []) == []) -> ((v1 == []) == [])                                                  [reproduced on /repo] *)
Definition w_id_nested : expr := ECmp true (ECmp true (EName 1) [(Is, EList [])]) [(Is, EList [])].
Lemma C07_kernel_identity_refuted :
  wf w_id_nested = true /\ rw_identity (rw_identity w_id_nested) <> rw_identity w_id_nested.
Proof. vm_compute. split; [reflexivity|discriminate]. Qed.

(** use-set-literal: the printed replacement of a non-empty `set([...])` starts with `{`; directly after the `{` of an f-string
    replacement field that reads as an escaped brace, so the field must keep the two apart (table value
    [set_literal_fstring_spaced]; the pinned form did not: finding kf_set_literal_fstring_braces, fixed by 4169bc3) *)
Lemma C01_kernel_set_literal_brace_first a es :
  exists rest, pp (rw_set_literal (ECall BSet [EList (a :: es)])) = 123%N :: rest.
Proof. eexists. cbn [rw_set_literal pp]. reflexivity. Qed.
