(** C05 — exactly the files selected by the include/exclude patterns are touched.

    Full statement: for every directory tree T (nested dirs, test/build/venv dirs, non-Python files, symlinked
    files and dirs) and all include/exclude pattern lists (with and without `:line`), the set of files a
    find-and-fix codemod changes is { f regular file of T, not reached through a link : f has a fixable construct,
    f's target-relative path matches an include pattern (default: Python files) and no file-level exclude pattern
    (default: test/build/venv/VCS directories) }; SAST-driven codemods use the user's patterns without the default
    excludes; `path:line` patterns never exclude a whole file; nothing outside the target is written.

    What is proved here (for all inputs): the selection logic — glob matcher = declarative glob semantics
    ([gmatch_Matches], used throughout), [match_files] = the per-file predicate [Selected], sortedness/no duplicates,
    independence from pattern order, `:line` patterns, the `None` sentinels of context.py, the SAST path, the
    meaning of the default lists, and the lifting to a tree (only regular, non-link files of the tree are ever
    selected or written) with the per-file transformer as an explicit function [changed].
    What is an oracle (tested by harness/c05.py, not proved): that `Path.rglob("*")` / `is_file` / `is_symlink`
    behave like [files_for_directory] on a [tree]; that CPython's `fnmatch` is [fnmatch] (differentially tested);
    that the transformer writes only the file it is given (observed through the outside tree's hash). *)
From Coq Require Import Strings.String.
From CM Require Import Base.GlobLit Base.Types_Glob Model.Glob Spec.GlobSpec Spec.GlobDefaults Proofs.GlobFacts Generated.Tables.

Definition defaults : list str * list str := (default_included_paths, default_excluded_paths).

(** ** match_files selects exactly the [Selected] files of its input *)
Theorem C05_match_files_char : forall defs rels exc inc f,
  In f (match_files defs rels exc inc) <->
  In f rels /\ Selected (or_default inc (fst defs)) (or_default exc (snd defs)) f.
Proof. exact In_match_files. Qed.
Print Assumptions C05_match_files_char.

Theorem C05_sorted_nodup : forall defs rels exc inc,
  StronglySorted str_lt (match_files defs rels exc inc) /\ List.NoDup (match_files defs rels exc inc).
Proof. intros. split; [apply match_files_Sorted | apply StronglySorted_NoDup, match_files_Sorted]. Qed.
Print Assumptions C05_sorted_nodup.

(** The result depends only on the *sets* of input paths and patterns (order, repetitions are irrelevant:
    registry.default_include_paths is built from a Python set). *)
Theorem C05_pattern_order_irrelevant : forall defs rels rels' exc exc' inc inc',
  (forall f, In f rels <-> In f rels') -> (forall p, In p exc <-> In p exc') -> (forall p, In p inc <-> In p inc') ->
  match_files defs rels (Some exc) (Some inc) = match_files defs rels' (Some exc') (Some inc').
Proof.
  intros defs rels rels' exc exc' inc inc' Hr He Hi. apply match_files_ext. intros f.
  rewrite !In_match_files. simpl. unfold Selected. rewrite Hr.
  split; intros [H1 [[p [Hp Hm]] Hn]]; (split; [exact H1 |]); split.
  - exists p. split; [apply Hi; exact Hp | exact Hm].
  - intros [q [Hq Hq']]. apply Hn. exists q. split; [apply He; exact Hq | exact Hq'].
  - exists p. split; [apply Hi; exact Hp | exact Hm].
  - intros [q [Hq Hq']]. apply Hn. exists q. split; [apply He; exact Hq | exact Hq'].
Qed.
Print Assumptions C05_pattern_order_irrelevant.

(** ** `path:line` patterns never exclude a whole file; as include patterns they select the file `path` selects *)
Theorem C05_line_patterns_never_exclude_file : forall defs rels exc inc,
  match_files defs rels (Some exc) inc
    = match_files defs rels (Some (List.filter (fun x => negb (has_colon x)) exc)) inc
  /\ ((forall p, In p exc -> has_colon p = true) ->
      match_files defs rels (Some exc) inc = match_files defs rels (Some []) inc)
  /\ (forall incl, match_files defs rels (Some exc) (Some incl)
                   = match_files defs rels (Some exc) (Some (map before_colon incl))).
Proof.
  intros defs rels exc inc. split; [| split].
  - unfold match_files, filter_files. simpl or_default. rewrite file_patterns_exc_idem. reflexivity.
  - intros Hall. unfold match_files, filter_files. simpl or_default. simpl file_patterns.
    rewrite (filter_all_false (fun x => negb (has_colon x)) exc); [reflexivity |].
    intros x Hx. rewrite (Hall x Hx). reflexivity.
  - intros incl. unfold match_files, filter_files. simpl or_default. rewrite file_patterns_inc_idem. reflexivity.
Qed.
Print Assumptions C05_line_patterns_never_exclude_file.

(** ** The `None` sentinels of context.py: defaults exactly when the user gave no pattern; SAST: no default excludes *)
Theorem C05_defaults :
  (* find-and-fix, no user pattern: the default lists of the generated tables *)
  (forall rels f, In f (find_and_fix_paths defaults rels [] []) <->
                  In f rels /\ Selected default_included_paths default_excluded_paths f)
  (* a non-empty user list replaces the corresponding default list entirely *)
  /\ (forall DI DE rels exc inc f, exc <> [] -> inc <> [] ->
        (In f (find_and_fix_paths (DI, DE) rels exc inc) <-> In f rels /\ Selected inc exc f))
  /\ (forall DI DE rels exc f, exc <> [] ->
        (In f (find_and_fix_paths (DI, DE) rels exc []) <-> In f rels /\ Selected DI exc f))
  /\ (forall DI DE rels inc f, inc <> [] ->
        (In f (find_and_fix_paths (DI, DE) rels [] inc) <-> In f rels /\ Selected inc DE f))
  (* SAST-driven: the user's excludes as they are, never the default excludes; includes default to the registry's *)
  /\ (forall defs regdef paths exc inc f,
        In f (filter_paths defs regdef paths exc inc) <-> In f paths /\ Selected (included_paths inc regdef) exc f)
  /\ (forall defs regdef paths f,
        In f (filter_paths defs regdef paths [] []) <->
        In f paths /\ exists p, In p regdef /\ GlobMatches (before_colon p) f).
Proof.
  split; [| split; [| split; [| split; [| split]]]].
  - intros rels f. unfold find_and_fix_paths. rewrite In_match_files. reflexivity.
  - intros DI DE rels exc inc f He Hi. unfold find_and_fix_paths. rewrite In_match_files. simpl.
    rewrite !or_none_default by assumption. reflexivity.
  - intros DI DE rels exc f He. unfold find_and_fix_paths. rewrite In_match_files. simpl.
    rewrite or_none_default by assumption. reflexivity.
  - intros DI DE rels inc f Hi. unfold find_and_fix_paths. rewrite In_match_files. simpl.
    rewrite or_none_default by assumption. reflexivity.
  - intros defs regdef paths exc inc f. unfold filter_paths. rewrite In_match_files. reflexivity.
  - intros defs regdef paths f. unfold filter_paths. rewrite In_match_files. simpl. unfold Selected. split.
    + intros [Hr [Hinc _]]. split; [exact Hr | exact Hinc].
    + intros [Hr Hinc]. split; [exact Hr |]. split; [exact Hinc |]. intros [p [[] _]].
Qed.
Print Assumptions C05_defaults.

(** ** What the default lists mean (stated for the lists of the pinned tree; the premise is checked by the harness
    against the generated tables, so a change of the lists is reported instead of silently weakening this). *)
Definition C05_default_lists_statement (DI DE : list str) : Prop :=
  DI = pinned_included -> DE = pinned_excluded ->
  forall s,
    ((exists p, In p DI /\ GlobMatches (before_colon p) s) <-> exists r, s = r ++ lit ".py")
    /\ ((exists p, In p DE /\ has_colon p = false /\ GlobMatches p s)
        <-> Exists (fun sh => shape_holds sh s) pinned_excluded_shapes).
Lemma C05_default_lists_all DI DE : C05_default_lists_statement DI DE.
Proof.
  intros -> -> s. split.
  - split.
    + intros [p [Hp Hm]]. destruct Hp as [<- | [<- | []]].
      * apply (Matches_suffix (lit ".py")). exact Hm.
      * apply (Matches_star_slash_star_suffix (lit ".py")). exact Hm.
    + intros Hs. exists (lit "**.py"). split; [left; reflexivity |]. apply (Matches_suffix (lit ".py")). exact Hs.
  - assert (Hshapes : map parse_pat pinned_excluded = map shape_items pinned_excluded_shapes) by (vm_compute; reflexivity).
    rewrite <- (shapes_char pinned_excluded pinned_excluded_shapes s Hshapes). rewrite existsb_exists. split.
    + intros [p [Hp [_ Hm]]]. exists p. split; [exact Hp | apply fnmatch_GlobMatches; exact Hm].
    + intros [p [Hp Hm]]. exists p. split; [exact Hp |]. split; [| apply fnmatch_GlobMatches; exact Hm].
      clear Hm. revert p Hp. apply Forall_forall. vm_compute. repeat constructor.
Qed.
Theorem C05_default_lists_char : C05_default_lists_statement default_included_paths default_excluded_paths.
Proof. exact (C05_default_lists_all default_included_paths default_excluded_paths). Qed.
Print Assumptions C05_default_lists_char.

(** ** Lifting to a tree: only regular files of the tree (never a link, never something behind a link) are selected;
    the files written are exactly the selected files with the right suffix on which the transformer reports a change. *)
Theorem C05_no_symlink_selected : forall defs exts t exc inc f,
  In f (ff_files_to_analyze defs exts (files_for_directory t) exc inc) -> In (f, NFile) t.
Proof.
  intros defs exts t exc inc f H. apply In_ff_files_to_analyze in H. destruct H as [H _].
  unfold find_and_fix_paths in H. apply In_match_files in H. destruct H as [H _].
  apply In_files_for_directory. exact H.
Qed.
Print Assumptions C05_no_symlink_selected.

Definition writes (defs : list str * list str) (exts : list str) (t : tree) (exc inc : list str)
           (changed : str -> bool) : list str :=
  List.filter changed (ff_files_to_analyze defs exts (files_for_directory t) exc inc).

Theorem C05_writes_subset : forall defs exts t exc inc changed f,
  In f (writes defs exts t exc inc changed) <->
  In (f, NFile) t
  /\ Selected (or_default (or_none inc) (fst defs)) (or_default (or_none exc) (snd defs)) f
  /\ (exts <> [] -> mem_str (suffix_of f) exts = true)
  /\ changed f = true.
Proof.
  intros. unfold writes. rewrite filter_In, In_ff_files_to_analyze. unfold find_and_fix_paths.
  rewrite In_match_files, In_files_for_directory. tauto.
Qed.
Print Assumptions C05_writes_subset.

Theorem C05_sast_selection : forall defs regdef exts has_result t exc inc f,
  In f (sast_files_to_analyze defs regdef exts has_result (files_for_directory t) exc inc) <->
  (In (f, NFile) t /\ mem_str (suffix_of f) exts = true /\ has_result f = true)
  /\ Selected (included_paths inc regdef) exc f.
Proof. intros. rewrite In_sast_files_to_analyze, In_files_for_directory. reflexivity. Qed.
Print Assumptions C05_sast_selection.

(** ** Non-vacuity: concrete trees and pattern lists on which the statements compute (with the pinned default lists, so
    that this file builds whatever the current lists are) *)
Definition ex_tree : tree :=
  [(lit "a.py", NFile); (lit "sub", NDir); (lit "sub/b.py", NFile); (lit "tests", NDir); (lit "tests/c.py", NFile);
   (lit "notes.txt", NFile); (lit "lnk.py", NLinkFile); (lit "lnkdir", NLinkDir); (lit "sub/x[1].py", NFile)].

Example C05_example_defaults :
  ff_files_to_analyze pinned_defaults [lit ".py"] (files_for_directory ex_tree) [] []
  = [lit "a.py"; lit "sub/b.py"; lit "sub/x[1].py"].
Proof. vm_compute. reflexivity. Qed.

Example C05_example_line_exclude_drops_default_excludes :
  ff_files_to_analyze pinned_defaults [lit ".py"] (files_for_directory ex_tree) [lit "a.py:2"] []
  = [lit "a.py"; lit "sub/b.py"; lit "sub/x[1].py"; lit "tests/c.py"].
Proof. vm_compute. reflexivity. Qed.

Example C05_example_bracket_patterns :
  ff_files_to_analyze pinned_defaults [lit ".py"] (files_for_directory ex_tree) [lit "sub/[!b]*"] [lit "sub/*"; lit "*.txt"]
  = [lit "sub/b.py"]
  /\ fnmatch (lit "sub/x[1].py") (lit "sub/x[1].py") = false
  /\ fnmatch (lit "sub/x[1].py") (lit "sub/x[[]1].py") = true
  /\ fnmatch (lit "a[b") (lit "a[b") = true.
Proof. vm_compute. repeat split; reflexivity. Qed.

Example C05_example_default_lists_pinned_premises_hold_somewhere :
  C05_default_lists_statement pinned_included pinned_excluded /\ pinned_included <> [] /\
  Selected pinned_included pinned_excluded (lit "src/pkg/m.py") /\
  ~ Selected pinned_included pinned_excluded (lit "src/site-packages/m.py").
Proof.
  split; [apply C05_default_lists_all |]. split; [discriminate |].
  split; [apply selectedb_Selected; vm_compute; reflexivity |].
  intros H. apply selectedb_Selected in H. vm_compute in H. discriminate.
Qed.
