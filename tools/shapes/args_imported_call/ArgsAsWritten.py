class ImportedCallModifier:
    def updated_args(self, original_args: Sequence[cst.Arg]):
        return original_args

    def leave_Call(self, original_node: cst.Call, updated_node: cst.Call):
        pos_to_match = self.node_position(original_node)
        line_number = pos_to_match.start.line
        if self.node_is_selected(
            original_node
        ) and self.filter_by_path_includes_or_excludes(pos_to_match):
            true_name = self.find_base_name(original_node.func)
            if (
                self.is_direct_call_from_imported_module(original_node)
                and true_name
                and true_name in self.matching_functions
            ):
                self.changes_in_file.append(
                    Change(
                        lineNumber=line_number,
                        description=self.change_description,
                        findings=self.file_context.get_findings_for_location(
                            line_number
                        ),
                    )
                )

                new_args = self.updated_args(updated_node.args)

                # has a prefix, e.g. a.call() -> a.new_call()
                if matchers.matches(original_node.func, matchers.Attribute()):
                    return self.update_attribute(
                        true_name, original_node, updated_node, new_args
                    )

                # it is a simple name, e.g. call() -> module.new_call()
                return self.update_simple_name(
                    true_name, original_node, updated_node, new_args
                )

        return updated_node

