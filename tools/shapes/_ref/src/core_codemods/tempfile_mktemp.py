from textwrap import dedent
from typing import Optional

import libcst as cst
from libcst import matchers
from libcst.codemod import CodemodContext

from codemodder.codemods.libcst_transformer import (
    LibcstResultTransformer,
    LibcstTransformerPipeline,
)
from codemodder.codemods.utils_mixin import NameAndAncestorResolutionMixin
from codemodder.file_context import FileContext
from codemodder.result import Result, same_line
from codemodder.utils.utils import clean_simplestring
from core_codemods.api import CoreCodemod, Metadata, Reference, ReviewGuidance


class TempfileMktempTransformer(
    LibcstResultTransformer, NameAndAncestorResolutionMixin
):
    change_description = "Replaces `tempfile.mktemp` with `tempfile.mkstemp`."
    _module_name = "tempfile"

    def __init__(
        self,
        context: CodemodContext,
        results: list[Result] | None,
        file_context: FileContext,
        _transformer: bool = False,
    ):
        self.mktemp_calls: set[cst.Call] = set()
        super().__init__(context, results, file_context, _transformer)

    def visit_Call(self, node: cst.Call) -> None:
        if self._is_mktemp_call(node):
            self.mktemp_calls.add(node)

    def leave_SimpleStatementLine(
        self,
        original_node: cst.SimpleStatementLine,
        updated_node: cst.SimpleStatementLine,
    ) -> cst.SimpleStatementLine | cst.FlattenSentinel:
        if not self.node_is_selected(original_node):
            return updated_node

        match original_node:
            case cst.SimpleStatementLine(body=[bsstmt]):
                if maybe_tuple := self._is_assigned_to_mktemp(bsstmt):
                    assign_name, call = maybe_tuple
                    return self.report_and_change(
                        call, assign_name, original_node.leading_lines
                    )
                if maybe_tuple := self._mktemp_is_sink(bsstmt):
                    wrapper_func_name, call = maybe_tuple
                    return self.report_and_change(
                        call,
                        wrapper_func_name,
                        original_node.leading_lines,
                        assignment=False,
                    )

        # If we get here it's because there is a mktemp call but we haven't fixed it yet.
        for unfixed in self.mktemp_calls:
            self.report_unfixed(unfixed, reason="Pixee does not yet support this fix.")
        self.mktemp_calls.clear()
        return updated_node

    def filter_by_result(self, node) -> bool:
        match node:
            case cst.SimpleStatementLine():
                pos_to_match = self.node_position(node)
                return self.results is None or any(
                    self.match_location(pos_to_match, result)
                    for result in self.results or []
                )
        return False

    def match_location(self, pos, result):
        return any(same_line(pos, location) for location in result.locations)

    def report_and_change(
        self, node: cst.Call, name: cst.Name, leading_lines: tuple, assignment=True
    ) -> cst.FlattenSentinel:
        self.mktemp_calls.clear()
        self.report_change(node)
        self.add_needed_import(self._module_name)
        self.remove_unused_import(node)
        with_block = (
            f"{name.value} = tf.name" if assignment else f"{name.value}(tf.name)"
        )
        new_stmt = dedent(
            f"""\
        with tempfile.NamedTemporaryFile({self._make_args(node)}) as tf:
            {with_block}
        """
        ).rstrip()

        return cst.FlattenSentinel(
            [
                cst.parse_statement(new_stmt).with_changes(leading_lines=leading_lines),
            ]
        )

    def _make_args(self, node: cst.Call) -> str:
        """Convert args passed to tempfile.mktemp() to string for args to tempfile.NamedTemporaryFile"""

        default = "delete=False"
        if not node.args:
            return default
        new_args = ""
        arg_keys = ("suffix", "prefix", "dir")
        for idx, arg in enumerate(node.args):
            cst.ensure_type(val := arg.value, cst.SimpleString)
            new_args += f'{arg_keys[idx]}="{clean_simplestring(val)}", '
        return f"{new_args}{default}"

    def _is_assigned_to_mktemp(
        self, bsstmt: cst.BaseSmallStatement
    ) -> Optional[tuple[cst.Name, cst.Call]]:
        match bsstmt:
            case cst.Assign(value=value, targets=targets):
                maybe_value = self._is_mktemp_call(value)  # type: ignore
                if maybe_value and all(
                    map(
                        lambda t: matchers.matches(
                            t, matchers.AssignTarget(target=matchers.Name())
                        ),
                        targets,  # type: ignore
                    )
                ):
                    # # Todo: handle multiple potential targets
                    return (targets[0].target, maybe_value)
            case cst.AnnAssign(target=target, value=value):
                maybe_value = self._is_mktemp_call(value)  # type: ignore
                if maybe_value and isinstance(target, cst.Name):  # type: ignore
                    return (target, maybe_value)
        return None

    def _is_mktemp_call(self, value) -> Optional[cst.Call]:
        match value:
            case cst.Call() if self.find_base_name(value.func) == "tempfile.mktemp":
                return value
        return None

    def _mktemp_is_sink(
        self, bsstmt: cst.BaseSmallStatement
    ) -> Optional[tuple[cst.Name, cst.Call]]:
        match bsstmt:
            case cst.Expr(value=cst.Call() as call):
                if not (args := call.args):
                    return None

                # todo: handle more complex cases of mktemp in different arg pos
                match first_arg_call := args[0].value:
                    case cst.Call():
                        if maybe_value := self._is_mktemp_call(first_arg_call):  # type: ignore
                            wrapper_func = call.func
                            return (wrapper_func, maybe_value)
        return None


TempfileMktemp = CoreCodemod(
    metadata=Metadata(
        name="secure-tempfile",
        summary="Upgrade and Secure Temp File Creation",
        review_guidance=ReviewGuidance.MERGE_AFTER_REVIEW,
        references=[
            Reference(
                url="https://docs.python.org/3/library/tempfile.html#tempfile.mktemp"
            ),
        ],
    ),
    transformer=LibcstTransformerPipeline(TempfileMktempTransformer),
)
