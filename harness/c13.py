"""C13 — line-level include/exclude is honoured and change entries name the edited line.

Implementation side: `code_directory.file_line_patterns`, `BaseCodemod._process_file` (driven in-process with stub
context/transformer so that the line lists it hands to FileContext are observed on either variant of the source),
`UtilsMixin.filter_by_path_includes_or_excludes` and its copy in remove_unused_imports.py, and the real CLI on files with
single-line candidate sites (per-codemod conformance search).
Model/spec side: coq/Model/LineFilter.v, coq/Spec/LineFilterSpec.v through coq/Harness/C13_run.v."""
from __future__ import annotations

import concurrent.futures
import itertools
import json
import warnings
from pathlib import Path
from types import SimpleNamespace as NS

from harness import core
from harness.core import cN, cZ, clist, copt, cpair, cstr

META = {
    "rule": "pure: file_line_patterns / _process_file on random relative, globbed, absolute and malformed `path:line` lists; the "
            "filter on random line lists x single- and multi-line positions. end-to-end: per codemod, a file with n<=4 sites at "
            "random lines, subsets E (excluded) / I (included) / both, each line spelled relative, globbed or absolute; observed "
            "= which sites were rewritten (their original text is gone) and changes[].lineNumber of the report; non-trivial = a "
            "proper non-empty subset of the sites is permitted; distinct by (codemod, sites, patterns)",
    "trusted": ["libcst PositionProvider gives a single-line construct start.line == end.line == its physical line "
                "(observed through changes[].lineNumber)",
                "each tested transformer rewrites its trigger when selected (checked by the no-pattern control run of each codemod)"],
    "assumptions": ["`int(...)` of the line suffix is modelled on plain ASCII decimal numerals; other spellings Python accepts "
                    "(sign, blanks, underscores) are outside the modelled domain and are not generated",
                    "per-codemod conformance (that transformer K calls the filter) is searched, not proved"],
}

IMPORTS = "From CM Require Import Harness.RunBase Harness.C13_run Model.Glob Model.LineFilter.\n"
HERE = Path(__file__).resolve().parent
CORPUS = HERE.parent / "corpus" / "C13"

# codemod short id -> (header lines, site template lines ({n} = first line number of the site))
CODEMODS = {
    "use-set-literal": ([], ["s{n} = set([{n}, 0])"]),
    "use-generator": ([], ["g{n} = any([i for i in range({n})])"]),
    "remove-debug-breakpoint": ([], ["breakpoint()  # b{n}"]),
    "exception-without-raise": ([], ["ValueError({n})"]),
    "literal-or-new-object-identity": (["v = 1"], ["l{n} = v is [{n}]"]),
    "numpy-nan-equality": (["import numpy as np", "v = 1"], ["n{n} = v == np.nan or {n}"]),
    "remove-module-global": ([], ["global m{n}"]),
    "remove-unnecessary-f-str": ([], ["f{n} = f'u{n}'"]),
    "secure-tempfile": (["import tempfile"], ["t{n} = tempfile.mktemp('{n}')"]),
    "https-connection": (["import urllib3"], ["c{n} = urllib3.HTTPConnectionPool('h{n}')"]),
    "str-concat-in-sequence-literals": ([], ["q{n} = ['a{n}' 'b', 'c']"]),
    "fix-empty-sequence-comparison": (["v = [1]"], ["e{n} = {n} if v != [] else 0"]),
    "invert-boolean-check": (["v = 1"], ["i{n} = not v == {n}"]),
    "combine-startswith-endswith": (["v = 'x'"], ["w{n} = v.startswith('a{n}') or v.startswith('b')"]),
    "fix-math-isclose": (["import math", "v = 1.0"], ["k{n} = math.isclose(v, 0) or {n}"]),
    "unused-imports": ([], ["import mod{n}"]),                    # the copy of the filter in remove_unused_imports.py
    "fix-float-equality": (["v = 1.0"], ["z{n} = v == {n}.5"]),
    "timezone-aware-datetime": (["import datetime"], ["d{n} = datetime.datetime.utcnow() or {n}"]),
    "use-defusedxml": (["from xml.etree.ElementTree import parse"], ["x{n} = parse('f{n}.xml')"]),
    "harden-pickle-load": (["import pickle"], ["p{n} = pickle.load(s{n})"]),
    # DESIGN §5 C13: find-and-fix transformers that never call the line filter (known findings, one class per codemod)
    "remove-future-imports": ([], ["from __future__ import print_function  # {n}"]),
    "break-or-continue-out-of-loop": ([], ["break  # {n}"]),
    "secure-flask-session-configuration": (["from flask import Flask", "app = Flask(__name__)"],
                                           ["app.config['SESSION_COOKIE_SECURE'] = False  # {n}"]),
    "use-walrus-if": ([], ["w{n} = print({n})", "if w{n}: print(w{n})"]),
    "django-model-without-dunder-str": (["from django.db import models"], ["class M{n}(models.Model):", "    x = {n}"]),
}
# the candidate construct as an expression (so that it can sit in other syntactic contexts than a flat assignment)
EXPR = {
    "use-set-literal": "set([{n}, 0])",
    "use-generator": "any([i for i in range({n})])",
    "literal-or-new-object-identity": "(v is [{n}])",
    "numpy-nan-equality": "(v == np.nan or {n})",
    "remove-unnecessary-f-str": "f'u{n}'",
    "secure-tempfile": "tempfile.mktemp('{n}')",
    "https-connection": "urllib3.HTTPConnectionPool('h{n}')",
    "str-concat-in-sequence-literals": "['a{n}' 'b', 'c']",
    "fix-empty-sequence-comparison": "({n} if v != [] else 0)",
    "invert-boolean-check": "(not v == {n})",
    "combine-startswith-endswith": "(v.startswith('a{n}') or v.startswith('b'))",
    "fix-math-isclose": "(math.isclose(v, 0) or {n})",
    "fix-float-equality": "(v == {n}.5)",
    "timezone-aware-datetime": "(datetime.datetime.utcnow() or {n})",
    "use-defusedxml": "parse('f{n}.xml')",
    "harden-pickle-load": "pickle.load(s{n})",
}
# site shapes: where a single-line candidate sits.  Every site is still one physical line; what varies is what encloses it.
EXPR_SHAPES = ["flat",      # v = E
               "wrapped",   # E alone on a line, as an argument of a call spanning three lines
               "kwarg",     # E as a keyword argument on its own line of a call spanning four lines
               "pair",      # two sites on consecutive lines of one statement (a list display spanning four lines)
               "with",      # with ctx(E) as c:
               "deco",      # @deco(E)
               "lambda"]    # lam = lambda: E
STMT_SHAPES = ["flat", "ifblock"]    # a statement-level candidate: at top level, or indented in an `if` body


# import-level codemods: a parenthesised from-import spanning several lines, every candidate name on its own physical line
# (opening line, candidate name lines with {n} = their line number, a line that is not a candidate, closing, a use of the kept name)
IMPORTLIST = {
    "unused-imports": ("from pkg{n} import (", "    nm{n},", "    kept{n},", ")", "print(kept{n})"),
    "remove-future-imports": ("from __future__ import (", "    {future},  # {n}", "    annotations,", ")", None),
}
FUTURE_NAMES = ["print_function", "division", "absolute_import", "unicode_literals", "with_statement", "generators", "nested_scopes"]


def shapes_for(k):
    if k in EXPR:
        return EXPR_SHAPES
    if len(CODEMODS[k][1]) != 1:
        return ["flat"]
    return STMT_SHAPES + (["importlist"] if k in IMPORTLIST else [])


class ShapeMap(dict):
    """site line -> shape; .open_of: site line -> first line of the multi-line statement that holds it"""
    def __init__(self):
        super().__init__()
        self.open_of = {}


def build_shaped(rng, k, nsites, shapes, one_of_each=False):
    """Lines of a file whose candidate sites sit in the given shapes; returns (lines, sites, shape_of_site)."""
    hdr, tpl = CODEMODS[k]
    span = len(tpl)
    lines, sites, shape_of = list(hdr), [], ShapeMap()
    E = lambda n: EXPR[k].format(n=n)
    S = lambda n: tpl[0].format(n=n)

    def pad():
        n = len(lines) + 1
        lines.append(f"pad{n} = {n}")
    todo = list(shapes) if one_of_each else None
    while (todo if one_of_each else len(sites) < nsites):
        for _ in range(rng.randint(1, 2)):
            pad()
        sh = todo.pop(0) if one_of_each else rng.choice(shapes)
        if sh == "pair" and not one_of_each and len(sites) + 2 > nsites:
            sh = "wrapped"
        names = 2 if (one_of_each or len(sites) + 2 <= nsites) else 1
        n = len(lines) + 1
        new = []
        if span > 1:
            lines.extend(t.format(n=n) for t in tpl); new = [n]
        elif sh == "flat":
            lines.append(f"v{n} = {E(n)}" if k in EXPR else S(n)); new = [n]
        elif sh == "ifblock":
            lines.extend([f"if pad{n}:", "    " + S(n + 1)]); new = [n + 1]
        elif sh == "importlist":
            opening, name, kept, closing, use = IMPORTLIST[k]
            lines.append(opening.format(n=n))
            for i in range(names):
                lines.append(name.format(n=n + 1 + i, future=FUTURE_NAMES[(n + i) % len(FUTURE_NAMES)])); new.append(n + 1 + i)
            lines.extend([kept.format(n=n), closing])
            if use:
                lines.append(use.format(n=n))
        elif sh == "wrapped":
            lines.extend([f"r{n} = wrap(", f"    {E(n + 1)},", ")"]); new = [n + 1]
        elif sh == "kwarg":
            lines.extend([f"r{n} = wrap(", f"    first={n},", f"    key={E(n + 2)},", ")"]); new = [n + 2]
        elif sh == "pair":
            lines.extend([f"t{n} = [", f"    {E(n + 1)},", f"    {E(n + 2)},", "]"]); new = [n + 1, n + 2]
        elif sh == "with":
            lines.extend([f"with ctx({E(n)}) as c{n}:", "    pass"]); new = [n]
        elif sh == "deco":
            lines.extend([f"@deco({E(n)})", f"def f{n}():", "    pass"]); new = [n]
        elif sh == "lambda":
            lines.append(f"lam{n} = lambda: {E(n)}"); new = [n]
        else:
            raise ValueError(sh)
        for x in new:
            sites.append(x)
            shape_of[x] = sh
            if x != n:
                shape_of.open_of[x] = n
    pad()
    return lines, sites, shape_of


QUICK_CODEMODS = ["use-set-literal", "use-generator", "remove-debug-breakpoint", "unused-imports", "numpy-nan-equality",
                  "secure-tempfile", "invert-boolean-check", "remove-module-global",
                  "harden-pickle-load", "use-defusedxml", "https-connection",      # ImportedCallModifier family
                  "remove-future-imports", "break-or-continue-out-of-loop", "secure-flask-session-configuration", "use-walrus-if"]
RELS = ["a.py", "sub/b.py", "pkg/mod/c.py"]


def globbed(rng, rel):
    parts = rel.split("/")
    name = parts[-1]
    opts = ["*" + name[1:], name[0] + "*", "?" + name[1:], "[" + name[0] + "]" + name[1:], "*.py", "[!_]*"]
    g = rng.choice(opts)
    if len(parts) == 1:
        return g if g != "*.py" or rng.random() < 0.5 else "**.py"
    d = "/".join(parts[:-1])
    return rng.choice([f"*/{name}", f"{d}/{g}", f"**/{name}", f"{d[0]}*/{name}", f"{d}/*", f"?{d[1:]}/{name}"])


def spell(rng, how, rel, as_passed, n):
    if how == "mixed":
        how = rng.choice(["relative", "globbed", "absolute"])
    if how == "relative":
        return f"{rel}:{n}"
    if how == "globbed":
        return f"{globbed(rng, rel)}:{n}"
    return f"{as_passed}:{n}"


def build_file(k, sites, total):
    hdr, tpl = CODEMODS[k]
    lines = list(hdr)
    starts = set(sites)
    while len(lines) < total:
        n = len(lines) + 1
        if n in starts:
            lines.extend(t.format(n=n) for t in tpl)
        else:
            lines.append(f"pad{n} = {n}")
    return lines


def gen_sites(rng, k, nsites):
    hdr, tpl = CODEMODS[k]
    span = len(tpl)
    total = len(hdr) + rng.randint(6, 12) + nsites * span
    slots = list(range(len(hdr) + 1, total - span, span + 1))     # sites never touch each other nor the last line
    sites = sorted(rng.sample(slots, min(nsites, len(slots))))
    return sites, total + 1


# ------------------------------------------------------------------------------------------------
# pure correspondence
# ------------------------------------------------------------------------------------------------
def c_strs(l):
    return clist([cstr(x) for x in l], "str")


def c_zs(l):
    return clist([cZ(x) for x in l], "Z")


def impl_file_line_patterns(path, pats):
    from codemodder.code_directory import file_line_patterns
    with warnings.catch_warnings():
        warnings.simplefilter("ignore")
        try:
            return list(file_line_patterns(path, pats))
        except ValueError:
            return None


def impl_process_file_lines(as_passed, directory, pats):
    """What _process_file hands to FileContext as line_exclude (and, symmetrically, line_include) for `pats`."""
    from codemodder.codemods.base_codemod import BaseCodemod
    cap = {}

    def apply(ctx, fc, findings):
        cap["fc"] = fc
        return None
    stub = NS(transformer=NS(apply=apply), id="stub")
    ctx = NS(directory=Path(directory), path_exclude=list(pats), path_include=list(reversed(pats)))
    with warnings.catch_warnings():
        warnings.simplefilter("ignore")
        try:
            fc = BaseCodemod._process_file(stub, Path(as_passed), context=ctx, results=None, rules=[])
        except ValueError:
            return None, None
    return list(fc.line_exclude), list(fc.line_include)


def gen_line_patterns(rng, rel, as_passed):
    out = []
    for _ in range(rng.randint(0, 5)):
        r = rng.random()
        n = rng.choice([0, 1, 2, 3, 7, 12, 100])
        if r < 0.3:
            out.append(spell(rng, "relative", rel, as_passed, n))
        elif r < 0.55:
            out.append(spell(rng, "globbed", rel, as_passed, n))
        elif r < 0.7:
            out.append(spell(rng, "absolute", rel, as_passed, n))
        elif r < 0.8:
            out.append(rng.choice(["other.py", "zz/*", "q?.py"]) + f":{n}")
        elif r < 0.87:
            out.append(rng.choice([rel, "*.py", "*"]))                                   # no line part
        elif r < 0.94:
            out.append(rng.choice([f"{rel}:{n}:{n}", f":{n}", f"{rel}:", "::"]))          # 3 parts / empty parts
        else:
            out.append(rng.choice([f"{rel}:x", f"*:1a", f"nomatch.py:x"]))                # int() raises only if the glob matches
    return out


def run_pure(ctx):
    rng = ctx.rng
    n = 250 if ctx.quick() else 2000
    if getattr(ctx, "deep", False):
        n *= 3
    flp, pf, meta_pf = [], [], []
    for c in json.loads((CORPUS / "patterns.json").read_text()) if (CORPUS / "patterns.json").exists() else []:
        meta_pf.append((c["as_passed"], c["directory"], c["rel"], c["patterns"]))
    for _ in range(n):
        rel = rng.choice(RELS + ["x[1].py", "d-1/e.py"])
        directory = rng.choice(["/t/proj", "proj", "/var/tmp/w-1/p_2", "."])
        as_passed = str(Path(directory) / rel)
        meta_pf.append((as_passed, directory, rel, gen_line_patterns(rng, rel, as_passed)))
    for as_passed, directory, rel, pats in meta_pf:
        for path in (as_passed, rel):
            obs = impl_file_line_patterns(path, pats)
            flp.append((path, pats, obs))
            ctx.count("file_line_patterns:" + ("ValueError" if obs is None else f"lines={min(len(obs), 3)}"))
        ex, inc = impl_process_file_lines(as_passed, directory, pats)
        pf.append((as_passed, rel, pats, ex))
        pf.append((as_passed, rel, list(reversed(pats)), inc))
        ctx.count("process_file:" + ("ValueError" if ex is None else f"lines={min(len(ex), 3)}"))
        ctx.case({"_process_file": {"as_passed": as_passed, "rel": rel, "patterns": pats, "line_exclude": ex}},
                 nontrivial_key=("pf", as_passed, tuple(pats)) if ex else None, sample=bool(ex) and len(ex) > 1)
    bad = core.eval_bad_indices(ctx, "c13_flp", IMPORTS, "flp_case",
                                [cpair(cstr(p), c_strs(pats), copt(None if o is None else c_zs(o), "list Z")) for p, pats, o in flp],
                                ["flp_model_ok"], chunk=500)
    for i in bad["flp_model_ok"]:
        p, pats, o = flp[i]
        ctx.mismatch("code_directory.file_line_patterns vs Model.Glob.file_line_patterns",
                     f"file_line_patterns({p!r}, {pats}) = {o} differs from the model", {"kind": "flp", "path": p, "patterns": pats, "observed": o})
    bad = core.eval_bad_indices(ctx, "c13_pf", IMPORTS, "pf_case",
                                [cpair(cstr(a), cstr(r), c_strs(pats), copt(None if o is None else c_zs(o), "list Z")) for a, r, pats, o in pf],
                                ["pf_model_ok", "pf_spec_ok"], chunk=500)
    for i in bad["pf_model_ok"]:
        a, r, pats, o = pf[i]
        ctx.mismatch("BaseCodemod._process_file line lists vs Model.LineFilter.process_file_lines",
                     f"_process_file({a!r}) with patterns {pats} passed lines {o}; the model of the recognised variant says otherwise",
                     {"kind": "pf", "as_passed": a, "rel": r, "patterns": pats, "observed": o})
    for i in bad["pf_spec_ok"]:
        a, r, pats, o = pf[i]
        ctx.violation("kf_c13_relative_line_pattern_ignored",
                      f"_process_file for {a!r} (target-relative {r!r}) with patterns {pats} passed lines {o}: a `path:line` pattern "
                      "written relative to the target does not reach the file (or a line no pattern denotes does)",
                      {"kind": "pf", "as_passed": a, "rel": r, "patterns": pats, "observed": o})

    # the filter and its copy
    from libcst._position import CodePosition, CodeRange
    from codemodder.codemods.base_visitor import UtilsMixin
    import core_codemods.remove_unused_imports as rui
    copy_fn = rui.RemoveUnusedImports.__dict__.get("filter_by_path_includes_or_excludes")
    lf, meta_lf = [], []
    for _ in range(n * 2):
        ex = [rng.randint(1, 6) for _ in range(rng.choice([0, 0, 1, 2, 3]))]
        inc = [rng.randint(1, 6) for _ in range(rng.choice([0, 0, 1, 2, 3]))]
        sl = rng.randint(1, 6)
        el = sl if rng.random() < 0.75 else sl + rng.randint(1, 2)
        pos = CodeRange(CodePosition(sl, rng.randint(0, 9)), CodePosition(el, rng.randint(0, 9)))
        obs = UtilsMixin(None, list(ex), list(inc)).filter_by_path_includes_or_excludes(pos)
        if copy_fn is not None:
            obs2 = copy_fn(NS(line_exclude=list(ex), line_include=list(inc)), pos)
            if obs2 != obs:
                ctx.violation("kf_c13_filter_copy_differs", f"the filter copy in remove_unused_imports.py answers {obs2}, UtilsMixin answers {obs} "
                              f"for exclude={ex} include={inc} lines {sl}-{el}", {"kind": "lf", "exclude": ex, "include": inc, "start": sl, "end": el})
        lf.append(cpair(c_zs(ex), c_zs(inc), cpair(cpair(cZ(sl), cZ(pos.start.column)), cpair(cZ(el), cZ(pos.end.column))), core.cbool(obs)))
        meta_lf.append((ex, inc, sl, el, obs))
        ctx.count(f"filter:exclude={'yes' if ex else 'no'},include={'yes' if inc else 'no'},{'single' if sl == el else 'multi'}-line")
        ctx.case({"filter": [ex, inc, sl, el, obs]}, nontrivial_key=("lf", tuple(ex), tuple(inc), sl, el) if (ex or inc) else None)
    if copy_fn is None:
        ctx.notes.append("remove_unused_imports.RemoveUnusedImports no longer defines its own filter_by_path_includes_or_excludes")
    bad = core.eval_bad_indices(ctx, "c13_lf", IMPORTS, "lf_case", lf, ["lf_model_ok", "lf_spec_ok", "lf_shadow_ok"], chunk=1000)
    shadow_bad = set(bad["lf_shadow_ok"])
    for i in bad["lf_model_ok"]:
        ex, inc, sl, el, obs = meta_lf[i]
        ctx.mismatch("UtilsMixin.filter_by_path_includes_or_excludes vs Model.LineFilter", f"exclude={ex} include={inc} lines {sl}-{el}: {obs}",
                     {"kind": "lf", "exclude": ex, "include": inc, "start": sl, "end": el, "observed": obs})
    for i in bad["lf_spec_ok"]:
        ex, inc, sl, el, obs = meta_lf[i]
        # the known deviation absorbs a case only if it predicts the observed answer
        cls = "kf_c13_exclude_shadows_include" if (ex and inc and i not in shadow_bad) else "kf_c13_filter_rule"
        ctx.violation(cls, f"a node on line {sl} with exclude={ex} include={inc} is {'selected' if obs else 'rejected'}; the property "
                      f"demands: selected iff the line is not excluded and (no line is included or the line is)",
                      {"kind": "lf", "exclude": ex, "include": inc, "start": sl, "end": el, "observed": obs})


# ------------------------------------------------------------------------------------------------
# end to end: per-codemod conformance
# ------------------------------------------------------------------------------------------------
def make_job(rng, k, sites=None, total=None, E=None, I=None, how=None, rel=None, second=None, relative_target=False, include_plain=None,
             lines=None, shapes=None):
    hdr, tpl = CODEMODS[k]
    span = len(tpl)
    shape_of = {}
    if lines is None:
        if sites is None:
            lines, sites, shape_of = build_shaped(rng, k, rng.randint(1, 4), shapes or shapes_for(k))
        else:
            lines = build_file(k, sites, total)
    rel = rel or rng.choice(RELS)
    if E is None and I is None:
        mode = rng.choice(["E", "I", "E", "I", "I", "both", "none"])
        pick = lambda: sorted(rng.sample(sites, rng.randint(0 if len(sites) > 1 else 1, len(sites))))
        E = pick() if mode in ("E", "both") else []
        I = pick() if mode in ("I", "both") else []
    how = how or rng.choice(["relative", "globbed", "absolute", "mixed"])
    return {"codemod": k, "rel": rel, "sites": sites, "lines": lines, "span": span, "E": E, "I": I, "how": how,
            "shapes": sorted(set(shape_of.values())) or ["flat"], "shape_of": shape_of,
            "second": rng.random() < 0.25 if second is None else second, "relative_target": relative_target,
            "include_plain": rng.random() < 0.8 if include_plain is None else include_plain, "seed": rng.getrandbits(32)}


def run_job(job):
    import random
    rng = random.Random(job["seed"])
    d = Path(job["case_dir"])
    proj = d / "proj"
    k, rel = job["codemod"], job["rel"]
    files = {rel: job["lines"]}
    sites_of = {rel: job["sites"]}
    if job["second"]:
        other = "z.py" if rel != "z.py" else "y.py"
        s2, t2 = gen_sites(rng, k, 2)
        files[other] = build_file(k, s2, t2)
        sites_of[other] = s2
    core.write_tree(proj, {r: "\n".join(ls) + "\n" for r, ls in files.items()})
    target = "proj" if job["relative_target"] else str(proj)
    as_passed = {r: str(Path(target) / r) for r in files}
    span = job["span"]
    lines_of = lambda ns: [n + j for n in ns for j in range(span)]
    exc = [spell(rng, job["how"], rel, as_passed[rel], n) for n in lines_of(job["E"])]
    inc = [spell(rng, job["how"], rel, as_passed[rel], n) for n in lines_of(job["I"])]
    if job["I"] and job["include_plain"] and any(p.startswith(as_passed[rel]) for p in inc):
        inc.append(rel)            # an absolute `path:line` does not select the file at the file level: add the plain path
    if "exc" in job:               # corpus cases give the patterns verbatim
        exc, inc = job["exc"], job["inc"]
    exc, inc = list(dict.fromkeys(exc)), list(dict.fromkeys(inc))
    rep = d / "report.json"
    args = [target, "--codemod-include", "pixee:python/" + k, "--output", str(rep)]
    if inc:
        args.append("--path-include=" + ",".join(inc))
    if exc:
        args.append("--path-exclude=" + ",".join(exc))
    r = core.run_cli(args, cwd=str(d), timeout=300)
    out = {"rc": r["rc"], "stderr": r["stderr"][-500:], "exc": exc, "inc": inc, "files": {}, "as_passed": as_passed,
           "argv": [a.replace(str(d), "<case>") for a in args]}
    changes = {}
    if rep.exists():
        try:
            data = json.loads(rep.read_text())
            for res in data.get("results", []):
                for cs in res.get("changeset", []):
                    changes.setdefault(cs["path"], []).extend(c["lineNumber"] for c in cs.get("changes", []))
        except Exception:
            changes = None
    for r_, ls in files.items():
        after = (proj / r_).read_text().splitlines()
        rew = []
        for s in sites_of[r_]:
            window = ls[s - 1:s - 1 + span + (1 if span > 1 else 0)]
            present = any(after[i:i + len(window)] == window for i in range(len(after) - len(window) + 1))
            if not present:
                rew.append(s)
        out["files"][r_] = {"sites": sites_of[r_], "rewritten": rew, "before": ls, "after": after,
                            "change_lines": None if changes is None else sorted(changes.get(r_, []))}
    return out


def run_jobs(ctx, jobs, tag):
    for i, j in enumerate(jobs):
        d = ctx.scratch / f"c13_{tag}{i}"
        d.mkdir(parents=True, exist_ok=True)
        j["case_dir"] = str(d)
    with concurrent.futures.ThreadPoolExecutor(max_workers=min(12, core.NCPU)) as ex:
        return list(ex.map(run_job, jobs))


def corpus_job(rng, c):
    j = make_job(rng, c["codemod"], sites=c["sites"], total=c.get("total"), lines=c.get("lines"), E=[], I=[], how="relative",
                 rel=c["rel"], second=False)
    j["exc"], j["inc"] = c["exclude"], c["include"]
    j["corpus"] = c.get("name", "corpus")
    return j


def e2e(ctx):
    rng = ctx.rng
    quick = ctx.quick()
    codemods = QUICK_CODEMODS if quick else list(CODEMODS)
    # phase 1 - control runs, no pattern: one file per codemod with one site of every shape.  A shape in which the codemod's
    # trigger does not fire at all (nothing to do with line filtering) is not used for that codemod afterwards.
    controls = []
    for k in codemods:
        lines, sites, shape_of = build_shaped(rng, k, 0, shapes_for(k), one_of_each=True)
        j = make_job(rng, k, sites=sites, lines=lines, E=[], I=[], second=False)
        j["shape_of"], j["shapes"], j["control"] = shape_of, sorted(set(shape_of.values())), True
        controls.append(j)
    control_obs = run_jobs(ctx, controls, "ctl")
    firing = {}
    for j, o in zip(controls, control_obs):
        k = j["codemod"]
        f = o["files"].get(j["rel"], {"rewritten": []}) if o["rc"] == 0 else {"rewritten": []}
        dead = {j["shape_of"][s] for s in j["sites"] if s not in f["rewritten"]}
        firing[k] = [sh for sh in shapes_for(k) if sh not in dead]
        for sh in sorted(dead):
            ctx.count(f"e2e_shape_not_firing:{k}:{sh}")
        if "flat" in dead or o["rc"] != 0:
            ctx.mismatch("C13 conformance search coverage", f"control run of {k}: the flat trigger template no longer fires (rc={o['rc']}, "
                         f"stderr {o['stderr'][-200:]!r}); the codemod would not be searched", {"kind": "control", "codemod": k, "lines": j["lines"]})
            firing[k] = []
    # phase 2 - the search
    jobs = []
    corpus = json.loads((CORPUS / "e2e.json").read_text()) if (CORPUS / "e2e.json").exists() else []
    for c in corpus:
        jobs.append(corpus_job(rng, c))
    per = 7 if quick else 14
    if getattr(ctx, "deep", False):
        per *= 2
    for k in codemods:
        if not firing[k]:
            continue
        for i in range(per):
            jobs.append(make_job(rng, k, relative_target=(i % 5 == 4), shapes=firing[k]))
    if not quick:
        # exhaustive small scope: all subsets E and all subsets I of n = 3 sites x the three spellings, for four codemods
        for k in ["use-set-literal", "unused-imports", "remove-debug-breakpoint", "use-generator"]:
            sites, total = gen_sites(rng, k, 3)
            subsets = [list(c) for r in range(len(sites) + 1) for c in itertools.combinations(sites, r)]
            for how in ("relative", "globbed", "absolute"):
                for S in subsets:
                    jobs.append(make_job(rng, k, sites=sites, total=total, E=S, I=[], how=how, second=False))
                    if S:
                        jobs.append(make_job(rng, k, sites=sites, total=total, E=[], I=S, how=how, second=False, include_plain=True))
        # and all subsets I / E of the sites of one file holding every firing shape, for the call-rewriting families
        for k in ["harden-pickle-load", "use-defusedxml", "https-connection", "use-set-literal", "secure-tempfile"]:
            if not firing.get(k):
                continue
            lines, sites, shape_of = build_shaped(rng, k, 0, [sh for sh in firing[k] if sh != "pair"][:4], one_of_each=True)
            for S in [list(c) for r in range(1, len(sites) + 1) for c in itertools.combinations(sites, r)]:
                for E_, I_ in ((S, []), ([], S)):
                    j = make_job(rng, k, sites=sites, lines=lines, E=E_, I=I_, how="relative", second=False)
                    j["shape_of"], j["shapes"] = shape_of, sorted(set(shape_of.values()))
                    jobs.append(j)
    observations = run_jobs(ctx, jobs, "")
    jobs = controls + jobs
    observations = control_obs + observations

    cases, meta = [], []
    for j, o in zip(jobs, observations):
        ctx.cli_runs += 1
        k = j["codemod"]
        ctx.count(f"e2e_codemod:{k}")
        ctx.count(f"e2e_spelling:{j['how']}")
        ctx.count("e2e_mode:" + ("none" if not (o["exc"] or o["inc"]) else "+".join(x for x, y in (("E", o["exc"]), ("I", o["inc"])) if y)))
        ctx.count(f"e2e_sites:{min(len(j['sites']), 5)}")
        for sh in j.get("shapes", ["flat"]):
            ctx.count(f"e2e_shape:{sh}")
        anon = lambda ps: [p.replace(j["case_dir"], "<case>") for p in ps]
        base = {"kind": "e2e", "codemod": k, "rel": j["rel"], "sites": j["sites"], "lines": j["lines"], "shapes": j.get("shapes"),
                "exclude": anon(o["exc"]),
                "include": anon(o["inc"]), "argv": o["argv"], "relative_target": j["relative_target"]}
        if o["rc"] == -9:
            ctx.mismatch("CLI run of the conformance search", f"{k}: the run timed out; no observation", base)
            continue
        if o["rc"] != 0:
            ctx.violation(f"kf_c13_cli_failed:{k}", f"CLI exited {o['rc']}: {o['stderr'][-300:]}", base)
            continue
        for r_, f in o["files"].items():
            replay = dict(base, file=r_, observed_rewritten=f["rewritten"], observed_change_lines=f["change_lines"],
                          before=f["before"], after=f["after"], file_sites=f["sites"])
            if not (o["exc"] or o["inc"]) and f["rewritten"] != f["sites"]:
                ctx.count(f"e2e_unfiltered_run_left_sites:{k}")
            if j["span"] == 1 and f["change_lines"] is not None and f["change_lines"] != f["rewritten"]:
                ghost = sorted(set(f["change_lines"]) - set(f["rewritten"]))
                silent = sorted(set(f["rewritten"]) - set(f["change_lines"]))
                dup = sorted({x for x in f["change_lines"] if f["change_lines"].count(x) > 1})
                open_of = getattr(j.get("shape_of"), "open_of", {}) if r_ == j["rel"] else {}
                if ghost and silent and set(ghost) <= {open_of.get(x) for x in silent} and all(x in open_of for x in silent):
                    ctx.violation(f"kf_c13_change_entry_at_statement_start:{k}", f"{k} on {r_}: the candidates on lines {silent} (each alone on its "
                                  f"physical line of a statement spanning several lines) were rewritten, but the change entries name the first "
                                  f"line of the statement ({ghost}) instead (changes[].lineNumber: {f['change_lines']})", replay)
                    ghost, silent = [], []
                if ghost:
                    ctx.violation(f"kf_c13_change_for_unrewritten_line:{k}", f"{k} on {r_}: change entries name lines {ghost} but the constructs on "
                                  f"those lines were not rewritten (rewritten: {f['rewritten']}; changes[].lineNumber: {f['change_lines']}; "
                                  f"--path-exclude {o['exc']} --path-include {o['inc']})", replay)
                if silent:
                    ctx.violation(f"kf_c13_rewrite_without_change:{k}", f"{k} on {r_}: the sites on lines {silent} were rewritten but no change entry "
                                  f"names them (changes[].lineNumber: {f['change_lines']})", replay)
                if dup and not ghost and not silent:
                    ctx.violation(f"kf_c13_duplicate_change:{k}", f"{k} on {r_}: change entries repeat lines {dup}", replay)
            if j.get("control"):
                continue        # phase-1 run: it only establishes which shapes fire (and the change-line clause above)
            cases.append(cpair(cstr(o["as_passed"][r_]), cstr(r_), c_strs(o["exc"]), c_strs(o["inc"]), c_zs(f["sites"]), cN(j["span"]),
                               c_zs(f["rewritten"])))
            meta.append((j, o, r_, f, replay))
            proper = 0 < len(f["rewritten"]) < len(f["sites"])
            ctx.case({"e2e": {kk: replay[kk] for kk in ("codemod", "file", "file_sites", "exclude", "include", "observed_rewritten",
                                                         "observed_change_lines")}},
                     nontrivial_key=("e2e", k, r_, tuple(f["sites"]), tuple(o["exc"]), tuple(o["inc"])) if proper else None,
                     sample=proper and len(ctx.samples) < 5)
    bad = core.eval_bad_indices(ctx, "c13_sites", IMPORTS, "site_case", cases, ["site_spec_ok", "site_aspassed_ok", "site_current_ok", "site_shadow_ok"], chunk=200)
    shadow_site_bad = set(bad["site_shadow_ok"])
    form = (ctx.tables or {}).get("line_pattern_path_form", "Both")
    aspassed_bad, current_bad = set(bad["site_aspassed_ok"]), set(bad["site_current_ok"])
    for i in bad["site_spec_ok"]:
        j, o, r_, f, replay = meta[i]
        k = j["codemod"]
        if form == "AsPassedAbsolute" and i not in aspassed_bad:
            cls = "kf_c13_relative_line_pattern_ignored"
            why = "explained by matching the `path:line` patterns against the path as passed only"
        elif o["exc"] and o["inc"] and i not in shadow_site_bad:
            cls = "kf_c13_exclude_shadows_include"
            why = "explained exactly by the exclusion list shadowing the inclusion list (a line that is not included was rewritten)"
        elif not (o["exc"] or o["inc"]):
            cls = f"kf_c13_site_not_rewritten_without_patterns:{k}"
            why = "no line pattern was given, and the same construct is rewritten when it is not nested"
        elif f["rewritten"] == f["sites"]:
            cls = f"kf_no_line_filter:{k}"
            why = "every site was rewritten: the transformer does not consult the line filter"
        else:
            cls = f"kf_c13_line_filter_wrong:{k}"
            why = "neither the permitted sites nor all of them"
        ctx.violation(cls, f"{k} on {r_} (sites {f['sites']}) with --path-exclude {o['exc']} --path-include {o['inc']} rewrote the sites on lines "
                      f"{f['rewritten']}; {why}", replay)
    # conforming codemods must also agree with the model of the variant the source implements (tie of the e2e path);
    # the filtering-transformer model is not claimed for the transformers listed as not consulting the filter
    not_filtering = {e["class"].split(":", 1)[1] for e in core.load_known("C13")
                     if e.get("status") == "known" and e["class"].startswith("kf_no_line_filter:")}
    for i in sorted(current_bad - set(bad["site_spec_ok"])):
        j, o, r_, f, replay = meta[i]
        if j["codemod"] in not_filtering:
            continue
        ctx.mismatch("CLI line filtering vs Model.LineFilter (current variant)", f"{j['codemod']} rewrote {f['rewritten']}", replay)


def run(ctx: core.Ctx):
    run_pure(ctx)
    e2e(ctx)


def replay(ctx, body):
    kind = body.get("kind")
    if kind == "pf":
        d = body["as_passed"][: -len(body["rel"])].rstrip("/") or "."
        print("_process_file lines now:", impl_process_file_lines(body["as_passed"], d, body["patterns"])[0], "| recorded:", body["observed"])
    elif kind == "flp":
        print("file_line_patterns now:", impl_file_line_patterns(body["path"], body["patterns"]), "| recorded:", body["observed"])
    elif kind == "e2e":
        import random
        main = body.get("file") in (None, body["rel"])
        j = make_job(random.Random(0), body["codemod"], sites=body["sites"] if main else body["file_sites"],
                     lines=body["lines"] if main else body["before"], E=[], I=[], how="relative",
                     rel=body["rel"] if main else body["file"], second=False, relative_target=body.get("relative_target", False))
        d = ctx.scratch / "replay"
        d.mkdir(parents=True, exist_ok=True)
        j["case_dir"] = str(d)
        fix = lambda p: p.replace("<case>", str(d))
        j["exc"], j["inc"] = [fix(p) for p in body["exclude"]], [fix(p) for p in body["include"]]
        o = run_job(j)
        for r_, f in o["files"].items():
            print(f"{r_}: sites {f['sites']} rewritten now {f['rewritten']} change lines {f['change_lines']}")
        print("recorded:", body.get("file"), body.get("observed_rewritten"), body.get("observed_change_lines"))
    else:
        print(json.dumps(body, indent=1)[:2000])
    return 0
