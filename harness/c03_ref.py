"""Python transcription of the reference patch applier of coq/Model/Diff.v (apply_udiff) and of the
predicates of coq/Spec/DiffSpec.v (norm_nl, has_exotic).  Transcribed definition by definition; cross-checked
against the Coq definitions on every pure case and on every end-to-end (diff, content) pair of each run."""
from __future__ import annotations

BREAKS = {10, 11, 12, 13, 28, 29, 30, 133, 8232, 8233}


def text_lines(t: str) -> list[str]:
    ps = t.split("\n")
    return ps[:-1] if ps[-1] == "" else ps


def unlines(ls: list[str]) -> str:
    return "".join(l + "\n" for l in ls)


def norm_nl(t: str) -> str:
    if t == "":
        return ""
    return t if t.endswith("\n") else t + "\n"


def has_exotic(t: str) -> bool:
    n = len(t)
    for i, ch in enumerate(t):
        c = ord(ch)
        if c == 13:
            if i + 1 >= n or t[i + 1] != "\n":
                return True
        elif c != 10 and c in BREAKS:
            return True
    return False


def parse_dec(s: str):
    if s == "" or any(c not in "0123456789" for c in s):
        return None
    return int(s)


def parse_range(r: str):
    parts = r.split(",")
    if len(parts) == 1:
        n = parse_dec(parts[0])
        return None if n is None else (n, 1)
    if len(parts) == 2:
        n, m = parse_dec(parts[0]), parse_dec(parts[1])
        return None if n is None or m is None else (n, m)
    return None


def range_index(r):
    s, l = r
    if l == 0:
        return s
    if s == 0:
        return None
    return s - 1


def parse_header(line: str):
    toks = line.split(" ")
    if len(toks) != 4:
        return None
    at1, r1, r2, at2 = toks
    if not (r1[:1] == "-" and r2[:1] == "+"):
        return None
    if at1 != "@@" or at2 != "@@":
        return None
    ra, rb = parse_range(r1[1:]), parse_range(r2[1:])
    if ra is None or rb is None:
        return None
    ia, ib = range_index(ra), range_index(rb)
    if ia is None or ib is None:
        return None
    return ia, ra[1], ib, rb[1]


def parse_body_line(l: str):
    if l[:1] == " ":
        return ("ctx", l[1:])
    if l[:1] == "-":
        return ("del", l[1:])
    if l[:1] == "+":
        return ("add", l[1:])
    return None


def split_hunks(dl: list[str]):
    pre, raws = [], []
    for l in reversed(dl):
        if l[:1] == "@":
            raws.insert(0, (l, pre))
            pre = []
        else:
            pre = [l] + pre
    return pre, raws


def parse_hunk(raw):
    h = parse_header(raw[0])
    if h is None:
        return None
    body = []
    for l in raw[1]:
        b = parse_body_line(l)
        if b is None:
            return None
        body.append(b)
    ia, la, ib, lb = h
    if sum(1 for t, _ in body if t != "add") != la or sum(1 for t, _ in body if t != "del") != lb:
        return None
    return ia, la, ib, lb, body


def parse_diff(dl: list[str]):
    if not dl:
        return []
    if len(dl) < 2:
        return None
    if not (dl[0].startswith("--- ") and dl[1].startswith("+++ ")):
        return None
    pre, raws = split_hunks(dl[2:])
    if pre:
        return None
    out = []
    for r in raws:
        h = parse_hunk(r)
        if h is None:
            return None
        out.append(h)
    return out


def apply_body(body, rest):
    out = []
    i = 0
    for t, l in body:
        if t == "add":
            out.append(l)
        else:
            if i >= len(rest) or rest[i] != l:
                return None
            if t == "ctx":
                out.append(rest[i])
            i += 1
    return out, rest[i:]


def apply_hunks(hs, rest):
    pos = posb = 0
    res = []
    for ia, la, ib, lb, body in hs:
        if ia < pos:
            return None
        k = ia - pos
        if ib != posb + k:
            return None
        if len(rest) < k:
            return None
        r = apply_body(body, rest[k:])
        if r is None:
            return None
        out, rest2 = r
        res.extend(rest[:k])
        res.extend(out)
        rest = rest2
        pos, posb = ia + la, ib + lb
    return res + rest


def apply_udiff(d: str, f: str):
    hs = parse_diff(text_lines(d))
    if hs is None:
        return None
    out = apply_hunks(hs, text_lines(f))
    if out is None:
        return None
    return unlines(out)


# ------------------------------------------------------------------------------------------------
# helpers for the finding-class predictions of harness/c03.py (not part of the transcription of apply_udiff)
# ------------------------------------------------------------------------------------------------
def failing_hunk(d: str, f: str):
    """None if the diff applies; "parse" if it is malformed; else (ia, la) = 0-based first old line and old length of the
    first hunk that does not apply"""
    hs = parse_diff(text_lines(d))
    if hs is None:
        return "parse"
    rest, pos, posb = text_lines(f), 0, 0
    for ia, la, ib, lb, body in hs:
        k = ia - pos
        if ia < pos or ib != posb + k or len(rest) < k:
            return (ia, la)
        r = apply_body(body, rest[k:])
        if r is None:
            return (ia, la)
        rest = r[1]
        pos, posb = ia + la, ib + lb
    return None


def apply_udiff_split_world(d: str, f: str):
    """apply the diff to f seen as f.split("\n") (the empty string after a final newline IS a line), joined back with
    "\n": the world in which PyprojectWriter computes its diff"""
    hs = parse_diff(text_lines(d))
    if hs is None:
        return None
    out = apply_hunks(hs, f.split("\n"))
    return None if out is None else "\n".join(out)


def fold(diffs, text, apply=apply_udiff):
    cur = text
    for d in diffs:
        cur = apply(d, cur)
        if cur is None:
            return None
    return cur


def first_exotic_lf_line(t: str):
    """0-based index, among the lines of t split at "\n" only, of the first line holding an exotic boundary; None if none"""
    for i, l in enumerate(t.split("\n")):
        if has_exotic(l + "\n"):
            return i
    return None


def fold_lazy_lf(diffs, text, appliers=(apply_udiff,)):
    """fold in which a diff that does not apply to the current text may instead apply to its "\r\n" -> "\n"
    normalisation, which then stays (a text-mode writer reads with universal newlines and writes "\n" everywhere;
    the pipelines' own diffs, computed from the bytes, apply as they are).  Returns (text, normalised at least once)."""
    cur, normalised = text, False
    for d in diffs:
        nxt = None
        for ap in appliers:
            nxt = ap(d, cur)
            if nxt is not None:
                break
        if nxt is None and "\r\n" in cur:
            lf = cur.replace("\r\n", "\n")
            for ap in appliers:
                nxt = ap(d, lf)
                if nxt is not None:
                    normalised = True
                    break
        if nxt is None:
            return None, normalised
        cur = nxt
    return cur, normalised
