# src/codemodder/codemods/base_codemod.py @ 245fc22
class BaseCodemod:
    def _process_file(
        self,
        filename: Path,
        context: CodemodExecutionContext,
        results: ResultSet | None,
        rules: list[str],
    ):
        line_exclude = file_line_patterns(filename, context.path_exclude)
        line_include = file_line_patterns(filename, context.path_include)
        findings_for_rule = None
        if results is not None:
            findings_for_rule = []
            for rule in rules:
                findings_for_rule.extend(
                    results.results_for_rule_and_file(context, rule, filename)
                )
            logger.debug("%d findings for %s", len(findings_for_rule), filename)

        file_context = FileContext(
            context.directory,
            filename,
            line_exclude,
            line_include,
            findings_for_rule,
        )
        if results is not None and not findings_for_rule:
            logger.debug("no findings for %s, short-circuiting analysis", filename)
            return file_context

        if change_set := self.transformer.apply(
            context, file_context, findings_for_rule
        ):
            file_context.add_changeset(change_set)

        return file_context
