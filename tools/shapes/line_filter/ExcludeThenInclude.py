# src/codemodder/codemods/base_visitor.py at HEAD: UtilsMixin.filter_by_path_includes_or_excludes, UtilsMixin.node_is_selected, UtilsMixin.lineno_for_node, match_line
def match_line(pos, line):
    return pos.start.line == line and pos.end.line == line


class UtilsMixin:
    def filter_by_path_includes_or_excludes(self, pos_to_match):
        """
        Returns True if the node, whose position in the file is pos_to_match, matches any of the lines specified in the path-includes or path-excludes flags.
        """
        # an excluded line is never selected; when lines are included, only those are
        if self.line_exclude and any(
            match_line(pos_to_match, line) for line in self.line_exclude
        ):
            return False
        if self.line_include:
            return any(match_line(pos_to_match, line) for line in self.line_include)
        return True

    def node_is_selected(self, node) -> bool:
        pos_to_match = self.node_position(node)
        return self.filter_by_result(node) and self.filter_by_path_includes_or_excludes(
            pos_to_match
        )

    def lineno_for_node(self, node):
        return self.node_position(node).start.line
