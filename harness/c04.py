"""C04 — --dry-run never touches the project and predicts the real run.

Implementation side: the real console entry point on generated projects; a recursive snapshot (names, types, bytes hash,
link targets, modes) of the target before/after every `--dry-run` invocation; the CodeTF of the dry run against the CodeTF
of a real run on a copy (normalised for elapsed/directory/commandLine).
Model side: coq/Model/Run.v evaluated (vm_compute) with the oracle values observed in the REAL run (what the transformer
did to each file, what the manifest writer did) and asked to predict the DRY run (file system and report rows)."""
from __future__ import annotations

import base64
import json
from pathlib import Path

from harness import core
from harness import run_common as rc

META = {
    "rule": "generated projects (2-4 python files with trigger snippets, a decoy symlink and sub-directories) x "
            "{libcst-only codemods, each dependency-adding codemod} x {requirements.txt, pyproject.toml, setup.py, setup.cfg, "
            "two manifests, no manifest} x option combinations (--max-workers, --path-include/--path-exclude, --verbose); "
            "every case = one dry run + one real run on a copy; non-trivial = the real run changes at least one file; "
            "distinct by (codemod, manifest kinds, options, project text)",
    "trusted": ["os.walk/os.readlink/hashlib snapshot of the target directory (core.snapshot)",
                "the CodeTF file is what the properties mean by 'the report'"],
    "assumptions": [
        "oracle: a transformer's outcome on a file depends on that file's text and findings only (observed in the real run, replayed in the dry run)",
        "oracle: each manifest writer's result is a function of the manifest's current text and the new requirement names",
        "not modelled: mtime/atime, files outside the target directory, OS write errors",
    ],
}

KF_MANIFEST = "kf_dry_manifest_also_rewritten"

OPTIONS = [[], [], ["--max-workers", "2"], ["--path-exclude", "lib/*"], ["--path-include", "a.py,src/**,setup.py"],
           ["--verbose"], ["--max-workers", "4", "--path-exclude", "e.py"]]


def corpus_cases():
    out = []
    d = core.VERIF / "corpus" / "C04"
    for f in sorted(d.glob("*.json")) if d.is_dir() else []:
        body = json.loads(f.read_text())
        out.append({"name": "corpus:" + f.stem, "files": {k: base64.b64decode(v).decode() for k, v in body["project"].items()},
                    "codemod": body["codemod"], "options": body.get("options", []), "manifests": body.get("manifests", [])})
    return out


def gen_cases(ctx, n):
    rng = ctx.rng
    dep_adders = sorted(rc.DEPS)
    manifest_choices = [["requirements.txt"], ["pyproject.toml"], ["setup.py"], ["setup.cfg"], [], ["setup.py", "requirements.txt"],
                        ["requirements.txt", "setup.cfg"]]
    cases = []
    for i in range(n):
        # every dependency-adding codemod x every manifest kind is visited round-robin; the rest is random
        if i % 2 == 0:
            k = dep_adders[(i // 2) % len(dep_adders)]
            manifests = manifest_choices[(i // 2) % len(manifest_choices)]
        else:
            k = rng.choice(rc.LIBCST_ONLY)
            manifests = rng.choice(manifest_choices)
        if ctx.quick() and rc.det_of(k) == "DSemgrep" and rng.random() < 0.5:
            k = rng.choice([x for x in dep_adders if rc.det_of(x) == "DNone"])
        others = [rng.choice(rc.LIBCST_ONLY)]
        files = rc.gen_project(rng, [k] + others, rng.choice([2, 3, 4]), manifests)
        if "setup.py" in manifests and rng.random() < 0.5:
            # a setup.py that the codemod itself rewrites (the manifest is a python source under the target)
            files["setup.py"] = rng.choice(rc.SNIPPETS[k][1]) + files["setup.py"]
        cases.append({"name": f"gen:{i}", "files": files, "codemod": k, "options": rng.choice(OPTIONS), "manifests": manifests})
    return cases


def materialise(R, case):
    a = R.fresh_dir("dry")
    core.write_tree(a, case["files"])
    (a / "docs").mkdir(exist_ok=True)
    (a / "docs" / "notes.txt").write_text("not python\n")
    core.write_tree(a, {"link_to_a.py": ("link", "a.py")})
    b = R.fresh_dir("real")
    b.rmdir()
    rc.copy_tree(a, b)
    return a, b


def classify_report_diff(dry_rows, real_rows, manifests):
    for rows in (dry_rows, real_rows):
        for r in rows:
            for m in manifests:
                if r["changed"].count(m) >= 2:
                    return KF_MANIFEST
    return "kf_dry_report_differs"


def evaluate(ctx, R, case, a, b, before, dry, real):
    k = case["codemod"]
    after = core.snapshot(a)
    replay = {"project": core.b64tree(case["files"]), "codemod": k, "options": case["options"], "manifests": case["manifests"]}
    ctx.count("codemod:" + k.split("/")[-1])
    ctx.count("manifests:" + ("+".join(case["manifests"]) or "none"))
    ctx.count("options:" + (" ".join(case["options"]) or "none"))
    if dry["rc"] != 0 or real["rc"] != 0 or not isinstance(dry["report"], dict) or not isinstance(real["report"], dict):
        ctx.violation("kf_run_failed", f"{case['name']}: dry rc={dry['rc']} real rc={real['rc']} (expected 0 and a report): {dry['stderr'][-300:]}",
                      {**replay, "observed": {"dry_rc": dry["rc"], "real_rc": real["rc"]}})
        return None
    # SPEC 1: the tree is untouched
    if after != before:
        changed = sorted(set(p for p in set(before) | set(after) if before.get(p) != after.get(p)))
        ctx.violation("kf_dry_run_writes", f"{case['name']}: --dry-run with {k} changed {changed}",
                      {**replay, "observed": {"changed_paths": changed}, "expected": "snapshot(before) == snapshot(after)"})
    # SPEC 2: report(dry) == report(real) modulo timing/paths
    nd, nr = core.normalise_report(dry["report"]), core.normalise_report(real["report"])
    dry_rows, real_rows = rc.rows_of_report(dry["report"], a), rc.rows_of_report(real["report"], b)
    if nd != nr:
        cls = classify_report_diff(dry_rows, real_rows, case["manifests"])
        what = next((f"{x['changed']} diffs differ" for x, y in zip(dry_rows, real_rows) if x != y), "reports differ")
        ctx.violation(cls, f"{case['name']}: report(--dry-run) != report(real run) for {k}: {what}",
                      {**replay, "observed": {"dry": dry_rows, "real": real_rows}, "expected": "identical reports modulo elapsed/directory"})
    # MODEL: oracle values from the REAL run, prediction of the DRY run
    A = rc.Abstr()
    real_tree = core.read_tree(b)
    files = rc.py_files(case["files"])
    selected = set(real_rows[0]["changed"]) | set(dry_rows[0]["changed"]) if real_rows else set()
    # files excluded by options never reach the codemod: keep only the files the run could select
    # comma-separated lists (cli.CsvListAction); a repeated option replaces the earlier value
    inc = [p for i, o in enumerate(case["options"]) if o == "--path-include" for p in case["options"][i + 1].split(",")]
    exc = [p for i, o in enumerate(case["options"]) if o == "--path-exclude" for p in case["options"][i + 1].split(",")]
    import fnmatch
    sel = [f for f in files if (not inc or any(fnmatch.fnmatch(f, p) for p in inc)) and not any(fnmatch.fnmatch(f, p) for p in exc)]
    dep = rc.DEPS.get(k)
    # a manifest "received the dependency" iff the requirement's name appears in it after the real run and did not before
    # (a setup.py may also change as a plain source file)
    manifest_changed = [m for m in case["manifests"]
                        if dep and dep.lower() in real_tree.get(m, b"").decode(errors="replace").lower()
                        and dep.lower() not in case["files"][m].lower()]
    depid = [A.content("dep:" + dep)] if (dep and manifest_changed) else []
    T = []
    stores_paths = set(case["manifests"])
    for f in sel:
        # a setup.py that is both rewritten and given the dependency: its transformer output is the text of the source change
        # set alone, which the real tree no longer shows; the model is then fed from the dry report's row only (see below)
        if f in manifest_changed:
            continue
        if real_tree.get(f) != case["files"][f].encode():
            T.append((A.content(case["files"][f]), A.content(real_tree[f]), depid))
    overlap = [m for m in manifest_changed if m in sel and any(m == p for r in real_rows for p in r["changed"][:-1])]
    if overlap:
        ctx.count("manifest_also_rewritten")
        return ("skip-model", bool(T))
    stores = [(rc.SKIND[m], A.path(m), []) for m in rc.STORE_ORDER if m in case["manifests"]]
    W = [(A.content(case["files"][m]), depid, A.content(real_tree[m])) for m in manifest_changed]
    hx_fs = [(A.path(p), A.content(c)) for p, c in case["files"].items()]
    ob_fs = [(A.path(p), A.content(c)) for p, c in core.read_tree(a).items() if p in case["files"]]
    ob_rows = [(A.codemod(r["codemod"]), [A.path(p) for p in r["changed"]], [A.path(p) for p in r["failed"]]) for r in dry_rows]
    term = rc.c_hcase(True, [A.path(f) for f in sel], hx_fs, [], [rc.c_hcodemod(A, k, "DNone", T)], stores, W, dry["rc"], ob_fs, ob_rows)
    return (term, bool(T) or bool(W))


def run(ctx: core.Ctx):
    R = rc.Runner(ctx)
    n = 20 if ctx.quick() else 200
    if getattr(ctx, "deep", False):
        n *= 2
    cases = corpus_cases() + gen_cases(ctx, n)
    prepared = []
    for c in cases:
        a, b = materialise(R, c)
        prepared.append((c, a, b, core.snapshot(a)))
    jobs = []
    for c, a, b, _ in prepared:
        jobs.append(lambda c=c, a=a: R.run(a, [c["codemod"]], ["--dry-run", *c["options"]]))
        jobs.append(lambda c=c, b=b: R.run(b, [c["codemod"]], c["options"]))
    res = rc.parallel(jobs)
    terms, meta = [], []
    for i, (c, a, b, before) in enumerate(prepared):
        dry, real = res[2 * i], res[2 * i + 1]
        out = evaluate(ctx, R, c, a, b, before, dry, real)
        nontrivial = None
        if out is not None:
            term, nt = out
            nontrivial = (c["codemod"], tuple(c["manifests"]), tuple(c["options"]), json.dumps(c["files"], sort_keys=True)) if nt else None
            if term != "skip-model":
                terms.append(term)
                meta.append(c)
        ctx.case({"case": c["name"], "codemod": c["codemod"], "manifests": c["manifests"], "options": c["options"],
                  "files": sorted(c["files"])}, nontrivial_key=nontrivial, sample=nontrivial is not None)
    if terms:
        bad = core.eval_bad_indices(ctx, "c04_run", rc.IMPORTS, "hcase", terms, ["run_model_ok", "dry_spec_ok"], chunk=60)
        for i in bad["run_model_ok"]:
            c = meta[i]
            ctx.mismatch("real --dry-run vs Model.Run.run (oracle values taken from the real run)",
                         f"{c['name']}: the model does not predict the dry run of {c['codemod']}",
                         {"project": core.b64tree(c["files"]), "codemod": c["codemod"], "options": c["options"], "manifests": c["manifests"],
                          "case_term": terms[i]})
        for i in bad["dry_spec_ok"]:
            c = meta[i]
            ctx.violation("kf_dry_run_writes", f"{c['name']}: a path's content changed under --dry-run ({c['codemod']})",
                          {"project": core.b64tree(c["files"]), "codemod": c["codemod"], "options": c["options"], "manifests": c["manifests"]})
    rc.audit_lifts(ctx)
    # active branch of the table-indexed statement
    tv = ctx.tables or {}
    guards_ok = all("IfNotDryWrite" in (tv.get(k) or []) for k in ("libcst_apply_guards", "regex_apply_guards", "xml_apply_guards")) \
        and all(b for _, b in (tv.get("writer_dry_guards") or [[None, False]]))
    if not guards_ok:
        ctx.notes.append("C04_dry_run_fs is on its NEGATIVE branch for the current source (a write is not under `if not dry_run`): "
                         f"tables = { {k: tv.get(k) for k in ('libcst_apply_guards', 'regex_apply_guards', 'xml_apply_guards', 'writer_dry_guards')} }")
        if not any(v["class"] == "kf_dry_run_writes" for v in ctx.violations):
            ctx.tie_broken.append("theorem C04_dry_run_fs: negative branch active (an unguarded write in the source) and no generated project exercised it")
    else:
        ctx.notes.append("C04_dry_run_fs: positive branch active (every pipeline and every manifest writer writes under `if not dry_run`)")


def replay(ctx, body):
    R = rc.Runner(ctx)
    files = {k: base64.b64decode(v).decode() for k, v in body["project"].items()}
    c = {"name": "replay", "files": files, "codemod": body["codemod"], "options": body.get("options", []), "manifests": body.get("manifests", [])}
    a, b = materialise(R, c)
    before = core.snapshot(a)
    dry = R.run(a, [c["codemod"]], ["--dry-run", *c["options"]])
    real = R.run(b, [c["codemod"]], c["options"])
    after = core.snapshot(a)
    print("tree untouched by --dry-run:", before == after)
    if isinstance(dry["report"], dict) and isinstance(real["report"], dict):
        same = core.normalise_report(dry["report"]) == core.normalise_report(real["report"])
        print("report(dry) == report(real):", same)
        if not same:
            for x, y in zip(rc.rows_of_report(dry["report"], a), rc.rows_of_report(real["report"], b)):
                for p, d1, d2 in zip(x["changed"], x["diffs"], y["diffs"]):
                    if d1 != d2:
                        print("--- dry diff of", p)
                        print(d1)
                        print("--- real diff of", p)
                        print(d2)
        return 0 if (same and before == after) else 1
    print("rc:", dry["rc"], real["rc"])
    return 1
