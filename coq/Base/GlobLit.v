(** String literals for statements and witnesses: [lit "tests/"] is the code-point list of an ASCII literal. *)
From CM Require Export Base.Str.
From Coq Require Import Strings.String Strings.Ascii.

Definition lit (s : string) : str := map N_of_ascii (list_ascii_of_string s).
