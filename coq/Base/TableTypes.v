(** Types of the values that tools/translate.py extracts from /repo into Generated/Tables.v. *)
From CM Require Export Base.Str.

(** result.py: which merge the [ResultSet] class implements. *)
Inductive rs_variant :=
| AsIsNoIor        (* __or__/list_dict_or index both operands; no __ior__ (dict.__ior__ = update) *)
| TotalOrWithIor.  (* __or__/list_dict_or use .get(k, default); __ior__ defined through __or__ *)

(** registry.load_registered_codemods: what the [for entry_point in ...] loop iterates over (shared by C11 and C17). *)
Inductive iter_form :=
| OverSet            (* set(entry_points().select(group="codemods")): order chosen by the hash seed *)
| Deterministic.     (* dict.fromkeys(...) / the sequence itself: first occurrences, in sequence order *)
