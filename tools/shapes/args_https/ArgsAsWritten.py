class HTTPSConnectionModifier:
    def updated_args(self, original_args):
        """
        Last argument _proxy_config does not match new method

        We convert it to keyword
        """
        new_args = list(original_args)
        if self.count_positional_args(new_args) == 10:
            new_args[9] = new_args[9].with_changes(
                keyword=cst.parse_expression("_proxy_config")
            )
        return new_args

    def update_attribute(self, true_name, original_node, updated_node, new_args):
        del true_name, original_node
        return updated_node.with_changes(
            args=new_args,
            func=updated_node.func.with_changes(
                attr=cst.Name(value="HTTPSConnectionPool")
            ),
        )

    def update_simple_name(self, true_name, original_node, updated_node, new_args):
        del true_name
        AddImportsVisitor.add_needed_import(self.context, "urllib3")
        RemoveImportsVisitor.remove_unused_import_by_node(self.context, original_node)
        return updated_node.with_changes(
            args=new_args,
            func=cst.parse_expression("urllib3.HTTPSConnectionPool"),
        )

    def count_positional_args(self, arglist: Sequence[cst.Arg]) -> int:
        for idx, arg in enumerate(arglist):
            if arg.keyword:
                return idx
        return len(arglist)

