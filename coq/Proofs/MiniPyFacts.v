(** The parser model on printed trees: where every operator node is inside its own parentheses or sits, with closed
    operands, in a delimited position, the printed text parses back to the same tree ([norm e = allpar e]); and the
    evaluator does not look at parenthesisation flags ([eval (allpar e) = eval e]). *)
From CM Require Import Model.MiniPy Model.PySem Model.Rewrites Spec.RewritesSpec Proofs.PySemFacts.

(** * [toks] unfolded *)
Definition norms (es : list expr) : list expr := map norm es.
Lemma norms_fix es :
  (fix norms (es : list expr) : list expr := match es with [] => [] | a :: t => parse_disj (toks a) :: norms t end) es
  = map norm es.
Proof. induction es as [|a t IH]; cbn; [reflexivity|]. rewrite IH. reflexivity. Qed.
Definition cmp_toks (rest : list (cmpop * expr)) : list tok := flat_map (fun cb => TCmp (fst cb) :: toks (snd cb)) rest.
Lemma cmp_toks_fix rest :
  (fix go (rs : list (cmpop * expr)) : list tok := match rs with [] => [] | (c, b) :: t => TCmp c :: toks b ++ go t end) rest
  = cmp_toks rest.
Proof. induction rest as [|[c b] t IH]; cbn; [reflexivity|]. rewrite IH. reflexivity. Qed.

(** * token lists without boolean operators are a single piece *)
Definition no_op (t : tok) : bool := match t with TOp _ => false | _ => true end.
Lemma split_on_no_op o ts : forallb no_op ts = true -> forall cur, split_on o ts cur = [rev cur ++ ts].
Proof.
  induction ts as [|t r IH]; cbn; intros H cur; [rewrite app_nil_r; reflexivity|].
  apply andb_true_iff in H as [Ht Hr]. destruct t; try discriminate; rewrite (IH Hr); cbn [rev]; rewrite <- app_assoc; reflexivity.
Qed.

(** a comparison whose operands are atoms *)
Lemma split_cmp_targets (rest : list (cmpop * expr)) : forall cur,
  split_cmp (flat_map (fun cb => [TCmp (fst cb); TAtom (snd cb)]) rest) cur
  = (rev cur, map (fun cb => (fst cb, [TAtom (snd cb)])) rest).
Proof.
  induction rest as [|[c b] t IH]; intros cur; [reflexivity|].
  cbn. rewrite (IH [TAtom b]). reflexivity.
Qed.
Lemma split_cmp_atoms (rest : list (cmpop * expr)) b0 :
  split_cmp (TAtom b0 :: flat_map (fun cb => [TCmp (fst cb); TAtom (snd cb)]) rest) []
  = ([TAtom b0], map (fun cb => (fst cb, [TAtom (snd cb)])) rest).
Proof. cbn [split_cmp]. rewrite split_cmp_targets. reflexivity. Qed.
Lemma no_op_targets (rest : list (cmpop * expr)) :
  forallb no_op (flat_map (fun cb => [TCmp (fst cb); TAtom (snd cb)]) rest) = true.
Proof. induction rest as [|[c b] t IH]; cbn; [reflexivity|exact IH]. Qed.
Lemma parse_cmp_atoms L (rest : list (cmpop * expr)) : rest <> [] ->
  parse_disj (TAtom L :: flat_map (fun cb => [TCmp (fst cb); TAtom (snd cb)]) rest) = ECmp true L rest.
Proof.
  intros Hne. unfold parse_disj.
  rewrite (split_on_no_op BOr) by (cbn; apply no_op_targets). cbn [rev app map fold_bop fold_left].
  unfold parse_conj. rewrite (split_on_no_op BAnd) by (cbn; apply no_op_targets). cbn [rev app map fold_bop fold_left].
  cbn [parse_inv]. unfold parse_cmp. rewrite split_cmp_atoms. cbn [rev app fst snd].
  destruct rest as [|cb rest']; [contradiction|]. cbn [map parse_operand parse_arith fst snd]. f_equal.
  destruct cb as [c b]. cbn [fst snd]. f_equal.
  rewrite map_map. rewrite <- (map_id rest') at 2. apply map_ext. intros [c' b']. reflexivity.
Qed.

Lemma closed_safe_top e : closed e = true -> paren_safe_at true e = paren_safe_at false e.
Proof. destruct e; try reflexivity; cbn; intros ->; reflexivity. Qed.

Definition paren_claims (e : expr) : Prop :=
  (paren_safe_at false e = true -> closed e = true -> toks e = [TAtom (allpar e)]) /\
  (paren_safe_at true e = true -> norm e = allpar e).

Lemma all_fix_safe es :
  (fix all (es : list expr) : bool := match es with [] => true | a :: t => paren_safe_at true a && all t end) es
  = forallb (paren_safe_at true) es.
Proof. induction es as [|a t IH]; cbn; [reflexivity|]. rewrite IH. reflexivity. Qed.
Lemma cmp_fix_safe rest :
  (fix go (rs : list (cmpop * expr)) : bool :=
     match rs with [] => true | (_, b) :: t => closed b && paren_safe_at false b && go t end) rest
  = forallb (fun cb => closed (snd cb) && paren_safe_at false (snd cb)) rest.
Proof. induction rest as [|[c b] t IH]; cbn; [reflexivity|]. rewrite IH. reflexivity. Qed.

Lemma norms_allpar es :
  Forall paren_claims es -> forallb (paren_safe_at true) es = true -> map norm es = map allpar es.
Proof.
  induction 1 as [|a t [_ Ha] _ IH]; cbn; intros H; [reflexivity|].
  apply andb_true_iff in H as [H1 H2]. rewrite (Ha H1), (IH H2). reflexivity.
Qed.
Lemma cmp_toks_closed rest :
  Forall (fun cb => paren_claims (snd cb)) rest ->
  forallb (fun cb => closed (snd cb) && paren_safe_at false (snd cb)) rest = true ->
  cmp_toks rest = flat_map (fun cb => [TCmp (fst cb); TAtom (snd cb)]) (map (fun cb => (fst cb, allpar (snd cb))) rest).
Proof.
  induction 1 as [|[c b] t [Hb _] _ IH]; cbn; intros H; [reflexivity|].
  apply andb_true_iff in H as [H1 H2]. apply andb_true_iff in H1 as [Hc Hs]. cbn in Hb.
  unfold cmp_toks in IH. rewrite (Hb Hs Hc), (IH H2). reflexivity.
Qed.

(** the single-atom token list parses to the atom *)
Lemma parse_atom X : parse_disj [TAtom X] = X.
Proof. reflexivity. Qed.

Lemma paren_claims_all : forall e, paren_claims e.
Proof.
  induction e as [x|c|t|es H|es H|es H|r m args H|f args H|par op e1 e2 IHe1 IHe2|par e IHe|par e rest IHe H|e1 x e2 IHe1 IHe2|par e1 x e2 IHe1 IHe2|e1 e2 IHe1 IHe2|n e IHe]
    using expr_ind'; unfold paren_claims, norm; cbn [toks paren_safe_at closed allpar];
    rewrite ?norms_fix, ?cmp_toks_fix, ?all_fix_safe, ?cmp_fix_safe.
  - split; reflexivity.
  - split; reflexivity.
  - split; reflexivity.
  - split; intros S; try intros _; rewrite (norms_allpar es H S); reflexivity.
  - split; intros S; try intros _; rewrite (norms_allpar es H S); reflexivity.
  - split; intros S; try intros _; rewrite (norms_allpar es H S); reflexivity.
  - split; intros S; try intros _; rewrite (norms_allpar args H S); reflexivity.
  - split; intros S; try intros _; rewrite (norms_allpar args H S); reflexivity.
  - (* EBool *)
    destruct IHe1 as [A1 _], IHe2 as [A2 _].
    assert (Core : closed e1 = true -> closed e2 = true -> paren_safe_at false e1 = true -> paren_safe_at false e2 = true ->
                   parse_disj (toks e1 ++ TOp op :: toks e2) = EBool true op (allpar e1) (allpar e2)).
    { intros C1 C2 S1 S2. rewrite (A1 S1 C1), (A2 S2 C2). destruct op; reflexivity. }
    split.
    + intros S C. subst par. cbn [orb andb] in S.
      apply andb_true_iff in S as [S S2]. apply andb_true_iff in S as [S S1]. apply andb_true_iff in S as [C1 C2].
      rewrite (Core C1 C2 S1 S2). reflexivity.
    + intros S. rewrite orb_true_r in S. cbn [andb] in S.
      apply andb_true_iff in S as [S S2]. apply andb_true_iff in S as [S S1]. apply andb_true_iff in S as [C1 C2].
      destruct par; [rewrite (Core C1 C2 S1 S2); reflexivity | apply (Core C1 C2 S1 S2)].
  - (* ENot *)
    destruct IHe as [A _].
    assert (Core : closed e = true -> paren_safe_at false e = true -> parse_disj (TNot :: toks e) = ENot true (allpar e)).
    { intros C S. rewrite (A S C). reflexivity. }
    split.
    + intros S C. subst par. cbn [orb andb] in S. apply andb_true_iff in S as [C1 S1]. rewrite (Core C1 S1). reflexivity.
    + intros S. rewrite orb_true_r in S. cbn [andb] in S. apply andb_true_iff in S as [C1 S1].
      destruct par; [rewrite (Core C1 S1); reflexivity | apply (Core C1 S1)].
  - (* ECmp *)
    destruct IHe as [A _].
    assert (Core : closed e = true -> paren_safe_at false e = true ->
                   forallb (fun cb => closed (snd cb) && paren_safe_at false (snd cb)) rest = true -> rest <> [] ->
                   parse_disj (toks e ++ cmp_toks rest) = ECmp true (allpar e) (map (fun cb => (fst cb, allpar (snd cb))) rest)).
    { intros C S R Hne. rewrite (A S C), (cmp_toks_closed rest H R). cbn [app]. apply parse_cmp_atoms.
      destruct rest; [contradiction|discriminate]. }
    split.
    + intros S C. subst par. cbn [orb andb] in S.
      apply andb_true_iff in S as [S R]. apply andb_true_iff in S as [S Hne]. apply andb_true_iff in S as [C1 S1].
      rewrite (Core C1 S1 R) by (destruct rest; [discriminate|discriminate]). reflexivity.
    + intros S. rewrite orb_true_r in S. cbn [andb] in S.
      apply andb_true_iff in S as [S R]. apply andb_true_iff in S as [S Hne]. apply andb_true_iff in S as [C1 S1].
      assert (Hne' : rest <> []) by (destruct rest; discriminate).
      destruct par; [rewrite (Core C1 S1 R Hne'); reflexivity | apply (Core C1 S1 R Hne')].
  - (* EListComp *)
    destruct IHe1 as [_ B1], IHe2 as [_ B2]. unfold norm in B1, B2.
    split; intros S; try intros _; apply andb_true_iff in S as [S1 S2]; rewrite (B1 S1), (B2 S2); reflexivity.
  - destruct IHe1 as [_ B1], IHe2 as [_ B2]. unfold norm in B1, B2.
    split; intros S; try intros _; apply andb_true_iff in S as [S1 S2]; rewrite (B1 S1), (B2 S2); reflexivity.
  - (* EFloorDiv *)
    destruct IHe1 as [A1 _], IHe2 as [A2 _].
    split; intros S; try intros _;
      (apply andb_true_iff in S as [S S2]; apply andb_true_iff in S as [S S1]; apply andb_true_iff in S as [C1 C2];
       rewrite (A1 S1 C1), (A2 S2 C2); reflexivity).
  - split; intros S; discriminate S.
Qed.

Theorem norm_paren_safe e : paren_safe e = true -> norm e = allpar e.
Proof. apply paren_claims_all. Qed.

(** * the evaluator ignores the flags *)
Definition set_flag (e : expr) : expr :=
  match e with
  | EBool _ o l r => EBool true o l r
  | ENot _ a => ENot true a
  | ECmp _ l rest => ECmp true l rest
  | EGen _ elt x it => EGen true elt x it
  | _ => e
  end.
Lemma allpar_bu : forall e, allpar e = bu set_flag e.
Proof.
  induction e using expr_ind'; cbn [allpar bu set_flag]; try reflexivity;
    try (f_equal; apply map_ext_in; intros a Ha; rewrite Forall_forall in H; apply H, Ha);
    try (rewrite IHe1, IHe2; reflexivity); try (rewrite IHe; reflexivity).
  - rewrite IHe. f_equal. apply map_ext_in. intros cb Hcb. rewrite Forall_forall in H. rewrite (H cb Hcb). reflexivity.
Qed.
Theorem eval_allpar rho e : eval rho (allpar e) = eval rho e.
Proof.
  rewrite allpar_bu. apply (bu_sound set_flag (fun _ _ => true)).
  - intros r n _. destruct n; reflexivity.
  - intros p elt x it. exists true. reflexivity.
  - intros _ n _. destruct n; intros Hn; try reflexivity; try discriminate.
  - unfold bguard. apply forallb_forall. reflexivity.
Qed.
