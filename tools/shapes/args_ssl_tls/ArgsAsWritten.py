class UpgradeSSLContextTLS:
    def on_result_found(self, original_node, updated_node):
        self.remove_unused_import(original_node)
        self.add_needed_import("ssl")

        if len((args := original_node.args)) == 1 and args[0].keyword is None:
            new_args = [self.make_new_arg(self.SAFE_TLS_PROTOCOL_VERSION)]
        else:
            new_args = self.replace_args(
                original_node,
                [
                    NewArg(
                        name="protocol",
                        value=self.SAFE_TLS_PROTOCOL_VERSION,
                        add_if_missing=True,
                    )
                ],
            )
        return self.update_arg_target(updated_node, new_args)

