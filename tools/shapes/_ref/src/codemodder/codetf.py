"""
Data models for the CodeTF format.

We need to keep this in sync with the CodeTF schema.
"""

from __future__ import annotations

import os
import sys
from enum import Enum
from typing import TYPE_CHECKING, Optional

from pydantic import BaseModel, model_validator

from codemodder import __version__
from codemodder.logging import logger

if TYPE_CHECKING:
    from codemodder.context import CodemodExecutionContext


class Action(Enum):
    ADD = "add"
    REMOVE = "remove"


class PackageResult(Enum):
    COMPLETED = "completed"
    FAILED = "failed"
    SKIPPED = "skipped"


class DiffSide(Enum):
    LEFT = "left"
    RIGHT = "right"


class PackageAction(BaseModel):
    action: Action
    result: PackageResult
    package: str


class Change(BaseModel):
    lineNumber: int
    description: Optional[str]
    # All of our changes are currently treated as additive, so it makes sense
    # for the comments to appear on the RIGHT side of the split diff. Eventually we
    # may want to differentiate between LEFT and RIGHT, but for now we'll just
    # default to RIGHT.
    diffSide: DiffSide = DiffSide.RIGHT
    properties: Optional[dict] = None
    packageActions: Optional[list[PackageAction]] = None
    findings: Optional[list[Finding]] = None

    @model_validator(mode="after")
    def validate_lineNumber(self):
        if self.lineNumber < 1:
            raise ValueError("lineNumber must be greater than 0")
        return self

    @model_validator(mode="after")
    def validate_description(self):
        if self.description is not None and not self.description:
            raise ValueError("description must not be empty")
        return self


class AIMetadata(BaseModel):
    provider: Optional[str] = None
    model: Optional[str] = None
    tokens: Optional[int] = None


class ChangeSet(BaseModel):
    """A set of changes made to a file at `path`"""

    path: str
    diff: str
    changes: list[Change] = []
    ai: Optional[AIMetadata] = None


class Reference(BaseModel):
    url: str
    description: Optional[str] = None

    @model_validator(mode="after")
    def validate_description(self):
        self.description = self.description or self.url
        return self


class Rule(BaseModel):
    id: str
    name: str
    url: Optional[str] = None


class Finding(BaseModel):
    id: str
    rule: Rule

    def to_unfixed_finding(
        self,
        *,
        path: str,
        line_number: Optional[int] = None,
        reason: str,
    ) -> UnfixedFinding:
        return UnfixedFinding(
            id=self.id,
            rule=self.rule,
            path=path,
            lineNumber=line_number,
            reason=reason,
        )


class UnfixedFinding(Finding):
    path: str
    lineNumber: Optional[int] = None
    reason: str


class DetectionTool(BaseModel):
    name: str


class Result(BaseModel):
    codemod: str
    summary: str
    description: str
    detectionTool: Optional[DetectionTool] = None
    references: Optional[list[Reference]] = None
    properties: Optional[dict] = None
    failedFiles: Optional[list[str]] = None
    changeset: list[ChangeSet]
    unfixedFindings: Optional[list[UnfixedFinding]] = None


class Sarif(BaseModel):
    artifact: str
    sha1: str


class Run(BaseModel):
    vendor: str
    tool: str
    version: str
    projectName: Optional[str] = None
    commandLine: str
    elapsed: Optional[int]
    directory: str
    sarifs: list[Sarif] = []


class CodeTF(BaseModel):
    run: Run
    results: list[Result]

    @classmethod
    def build(
        cls,
        context: CodemodExecutionContext,
        elapsed_ms,
        original_args,
        results: list[Result],
    ):
        command_name = os.path.basename(sys.argv[0])
        command_args = " ".join(original_args)
        run = Run(
            vendor="pixee",
            tool="codemodder-python",
            version=__version__,
            projectName=None,
            commandLine=f"{command_name} {command_args}",
            elapsed=elapsed_ms,
            directory=str(context.directory.absolute()),
            # TODO: this should be populated from the context
            sarifs=[],
        )
        return cls(run=run, results=results)

    def write_report(self, outfile):
        try:
            with open(outfile, "w", encoding="utf-8") as f:
                f.write(self.model_dump_json(exclude_none=True))
        except Exception:
            logger.exception("failed to write report file.")
            # Any issues with writing the output file should exit status 2.
            return 2
        logger.debug("wrote report to %s", outfile)
        return 0
