(** C11 — results do not depend on scheduling, worker count, hash seed or sibling files; no more than
    --max-workers files are processed at the same time.

    Full statement: for all projects D, codemod selections, worker counts w >= 1, per-file delay schedules s, hash
    seeds h and file creation orders o: normalise(run(D; w, s, h, o)) is constant; run(D)|f = run({f})|f for
    sibling-independent codemods; max in-flight files <= w.

    What is proved here, for the model of Model/Sched.v (one codemod over its file list; the whole run is the
    sequential composition of such steps, apply_codemods, which is observed, not proved):
    - C11_schedule_free (indexed by sched_task_local): with task-local per-file state, EVERY interleaving of the
      per-file tasks [Read i; Compute i; Write i] (any number of threads, any scheduler, any completion order) over
      distinct files ends with the same file system (pointwise [lookup]) and the same merged aggregates as the
      sequential run and as the schedule-free specification, and touches no path outside the list.  With per-file
      state kept on a shared object the statement is refuted (two files, overlapped reads).  The locality itself is
      read off the source by the translator (scan of _process_file, the three pipelines' apply methods,
      LibcstResultTransformer.transform and FileContext); that a pipeline's answer is a function of the text it read is
      an oracle assumption measured by the harness.
    - C11_merge_in_input_order (indexed by sched_collect): the aggregates are the per-file results in INPUT order.
    - C11_sibling_free: with a detector that looks at one file at a time, outcome and final text of f in D equal
      those in the project {f}.
    - C11_inflight (indexed by pool_size_arg): the number of files in flight is derived from a model of the executor's
      worker threads (a thread is spawned only below max_workers; a thread runs one item at a time): <= w after every
      prefix of every execution, and so is the counter read off the events; refuted for ThreadPoolExecutor()
      (w = 2, 12 files in flight).  That CPython's executor behaves like the worker model is measured by the harness.
    - C11_registry_order (indexed by entry_point_iteration): dict.fromkeys and set are both modelled WITH the seeded
      hash (lookups go through the hash; a set is iterated in slot order): for dict.fromkeys the run / report order of
      the default and SAST selection is proved independent of the hash and of the table size and equal to the
      first-occurrence order; for a set it is refuted, but the same collections are still loaded (a permutation).
    - C11_enumeration_free (indexed by sched_paths_order): sorted(set) gives the same task order for every
      enumeration order, hash and table size; refuted for list(set).
    Not modelled (observed by the harness only): preemption inside libcst, the GIL, the file system's own
    atomicity, CPython's open addressing (abstracted to buckets / slots). *)
From CM Require Import Base.Dict Model.Sched Spec.SchedSpec Proofs.SchedFacts Generated.Tables.
From Coq Require Import Permutation.

(* ---------------------------------------------------------------------------------------------- *)
(** witnesses *)
Definition w_a : str := [97]%N.
Definition w_b : str := [98]%N.
Definition w_T : transformer :=
  fun p _ c => (match c with Some t => Some (t ++ [33]%N) | None => None end,
                {| r_changesets := [p]; r_failures := []; r_deps := []; r_unfixed := [] |}).
Definition w_fnd : path -> findings := fun _ => [].
Definition w_fs : fsys := [(w_a, [120]%N); (w_b, [121]%N); ([99]%N, [122]%N)].
Definition w_reversed : list ev := [Read 1; Compute 1; Write 1; Read 0; Compute 0; Write 0].
Definition w_overlapped : list ev := [Read 1; Read 0; Compute 0; Compute 1; Write 1; Write 0].
Definition w_reads_first : list ev := [Read 0; Read 1; Compute 0; Compute 1; Write 0; Write 1].

Lemma w_nodup : List.NoDup [w_a; w_b].
Proof. repeat constructor; simpl; intuition discriminate. Qed.

(* ---------------------------------------------------------------------------------------------- *)
Definition C11_schedule_free_statement (loc : locality_form) : Prop :=
  match loc with
  | TaskLocal =>
      forall (T : transformer) (fnd : path -> findings) (files : list path) (fs0 : fsys) (tr : list ev),
        List.NoDup files -> interleaving (tasks (length files)) tr ->
        let st := exec loc files T fnd fs0 tr in
        let sq := exec loc files T fnd fs0 (sequential (length files)) in
        (forall p, lookup (st_fs st) p = lookup (st_fs sq) p) /\
        merged MapInputOrder (length files) tr st = merged MapInputOrder (length files) (sequential (length files)) sq /\
        (forall p, ~ In p files -> lookup (st_fs st) p = lookup fs0 p) /\
        (forall p, lookup (st_fs st) p = spec_fs files T fnd fs0 p) /\
        merged MapInputOrder (length files) tr st = spec_merged files T fnd fs0
  | SharedScratch =>
      exists (T : transformer) (fnd : path -> findings) (files : list path) (fs0 : fsys) (tr : list ev) (p : path),
        List.NoDup files /\ interleaving (tasks (length files)) tr /\
        lookup (st_fs (exec loc files T fnd fs0 tr)) p <> lookup (st_fs (exec loc files T fnd fs0 (sequential (length files)))) p
  end.
Lemma C11_schedule_free_all loc : C11_schedule_free_statement loc.
Proof.
  destruct loc; simpl.
  - intros T fnd files fs0 tr Hnd Hil.
    destruct (schedule_free T fnd files fs0 tr Hnd Hil) as (H1 & H2 & H3).
    destruct (exec_spec T fnd files fs0 tr Hnd Hil) as (H4 & H5). repeat split; assumption.
  - exists w_T, w_fnd, [w_a; w_b], w_fs, w_reads_first, w_a.
    split; [exact w_nodup|]. split; [apply check_il_sound; vm_compute; reflexivity|].
    vm_compute. discriminate.
Qed.
Theorem C11_schedule_free : C11_schedule_free_statement sched_task_local.
Proof. exact (C11_schedule_free_all sched_task_local). Qed.
Print Assumptions C11_schedule_free.

(** The sequential run is one of the interleavings (the quantification above is not empty). *)
Theorem C11_sequential_is_a_schedule : forall n, interleaving (tasks n) (sequential n).
Proof. exact sequential_interleaving. Qed.
Print Assumptions C11_sequential_is_a_schedule.

(* ---------------------------------------------------------------------------------------------- *)
Definition C11_merge_statement (v : collect_form) : Prop :=
  match v with
  | MapInputOrder =>
      forall (T : transformer) (fnd : path -> findings) (files : list path) (fs0 : fsys) (tr : list ev),
        List.NoDup files -> interleaving (tasks (length files)) tr ->
        merged v (length files) tr (exec TaskLocal files T fnd fs0 tr) = spec_merged files T fnd fs0
  | CompletionOrder =>
      exists (T : transformer) (fnd : path -> findings) (files : list path) (fs0 : fsys) (tr1 tr2 : list ev),
        List.NoDup files /\ interleaving (tasks (length files)) tr1 /\ interleaving (tasks (length files)) tr2 /\
        merged v (length files) tr1 (exec TaskLocal files T fnd fs0 tr1) <> merged v (length files) tr2 (exec TaskLocal files T fnd fs0 tr2)
  end.
Lemma C11_merge_all v : C11_merge_statement v.
Proof.
  destruct v; simpl.
  - intros. now apply exec_spec.
  - exists w_T, w_fnd, [w_a; w_b], w_fs, (sequential 2), w_reversed.
    split; [exact w_nodup|]. split; [apply sequential_interleaving|].
    split; [apply check_il_sound; vm_compute; reflexivity|]. vm_compute. discriminate.
Qed.
Theorem C11_merge_in_input_order : C11_merge_statement sched_collect.
Proof. exact (C11_merge_all sched_collect). Qed.
Print Assumptions C11_merge_in_input_order.

(* ---------------------------------------------------------------------------------------------- *)
Theorem C11_sibling_free :
  forall (T : transformer) (D : detector) (files : list path) (fs0 : fsys) (f : path) (i : nat) (tr tr1 : list ev),
    List.NoDup files -> nth_error files i = Some f -> sibling_independent D ->
    interleaving (tasks (length files)) tr -> interleaving (tasks 1) tr1 ->
    let st := run_codemod TaskLocal files T D fs0 tr in
    let st1 := run_codemod TaskLocal [f] T D (only_file fs0 f) tr1 in
    lookup (st_fs st) f = lookup (st_fs st1) f /\ res_of st i = res_of st1 0.
Proof. exact sibling_free. Qed.
Print Assumptions C11_sibling_free.

(* ---------------------------------------------------------------------------------------------- *)
Definition w_pool_pre : list pev := map Submit (seq 0 12) ++ repeat Spawn 12 ++ map (fun i => Take i i) (seq 0 12).
Definition w_pool_post : list pev := map Done (seq 0 12).

Definition C11_inflight_statement (a : option pool_arg) : Prop :=
  match a with
  | Some MaxWorkersArg =>
      forall (w cpu : N) (pre post : list pev) (p'' : pool),
        pool_run (pool_bound a w cpu) pool_init (pre ++ post) = Some p'' ->
        (exists p', pool_run (pool_bound a w cpu) pool_init pre = Some p' /\ (N.of_nat (busy p') <= w)%N) /\
        (N.of_nat (peak (pre ++ post)) <= w)%N
  | None =>
      exists (w cpu : N) (pre post : list pev) (p' p'' : pool),
        pool_run (pool_bound a w cpu) pool_init (pre ++ post) = Some p'' /\
        pool_run (pool_bound a w cpu) pool_init pre = Some p' /\ (w < N.of_nat (busy p'))%N
  end.
Lemma C11_inflight_all a : C11_inflight_statement a.
Proof.
  destruct a as [[]|]; simpl.
  - intros w cpu pre post p'' H. split; [eapply pool_inflight_le; eauto | eapply peak_le; eauto].
  - exists 2%N, 16%N, w_pool_pre, w_pool_post. do 2 eexists.
    split; [vm_compute; reflexivity|]. split; [vm_compute; reflexivity|]. vm_compute. reflexivity.
Qed.
Theorem C11_inflight : C11_inflight_statement pool_size_arg.
Proof. exact (C11_inflight_all pool_size_arg). Qed.
Print Assumptions C11_inflight.

(* ---------------------------------------------------------------------------------------------- *)
Definition w_eps : list entry_point :=
  [(0%N, [([115; 111; 110; 97; 114; 58; 97]%N, false)]); (1%N, [([115; 101; 109; 103; 114; 101; 112; 58; 98]%N, false)]);
   (2%N, [([112; 105; 120; 101; 101; 58; 99]%N, true)]); (0%N, [([115; 111; 110; 97; 114; 58; 97]%N, false)])].

Definition C11_registry_statement (v : iter_form) : Prop :=
  match v with
  | Deterministic =>
      forall (h h' : N -> N) (m m' : N) (eps : list entry_point) (excluded : list str) (sast_only : bool),
        run_order v h m eps excluded sast_only = run_order v h' m' eps excluded sast_only /\
        run_order v h m eps excluded sast_only = spec_run_order eps excluded sast_only
  | OverSet =>
      (exists (h h' : N -> N) (m : N) (eps : list entry_point) (excluded : list str) (sast_only : bool),
         (0 < m)%N /\ run_order v h m eps excluded sast_only <> run_order v h' m eps excluded sast_only) /\
      (forall (h : N -> N) (m : N) (eps : list entry_point), (0 < m)%N -> Permutation (iter_order v h m eps) (dedup_eps eps))
  end.
Lemma C11_registry_all v : C11_registry_statement v.
Proof.
  destruct v; simpl.
  - split.
    + exists (fun n => n), (fun n => (7 - n)%N), 8%N, w_eps, [], true. split; [reflexivity|]. vm_compute. discriminate.
    + intros. now apply iter_order_overset_perm.
  - intros h h' m m' eps excluded sast_only. unfold run_order, registry_of, spec_run_order.
    rewrite !iter_order_deterministic. split; reflexivity.
Qed.
Theorem C11_registry_order : C11_registry_statement entry_point_iteration.
Proof. exact (C11_registry_all entry_point_iteration). Qed.
Print Assumptions C11_registry_order.

(* ---------------------------------------------------------------------------------------------- *)
Definition C11_enumeration_statement (v : order_form) : Prop :=
  match v with
  | SortedPaths =>
      forall (h h' : str -> N) (m m' : N) l l', (0 < m)%N -> (0 < m')%N -> Permutation l l' ->
        match_order v h m l = match_order v h' m' l'
  | SetOrder => exists (h h' : str -> N) (m : N) l, (0 < m)%N /\ match_order v h m l <> match_order v h' m l
  end.
Lemma C11_enumeration_all v : C11_enumeration_statement v.
Proof.
  destruct v; simpl.
  - intros h h' m m' l l' Hm Hm' HP. now apply (match_order_sorted_free h h' m m' l l').
  - exists (fun s => hd 0%N s), (fun s => (200 - hd 0 s)%N), 8%N, [w_a; w_b]. split; [reflexivity|]. vm_compute. discriminate.
Qed.
Theorem C11_enumeration_free : C11_enumeration_statement sched_paths_order.
Proof. exact (C11_enumeration_all sched_paths_order). Qed.
Print Assumptions C11_enumeration_free.

(* ---------------------------------------------------------------------------------------------- *)
(** Non-vacuity: a non-sequential schedule of two rewriting tasks meets the hypotheses, and the result is computed. *)
Example C11_schedule_free_example :
  List.NoDup [w_a; w_b] /\ interleaving (tasks 2) w_overlapped /\
  lookup (st_fs (exec TaskLocal [w_a; w_b] w_T w_fnd w_fs w_overlapped)) w_a = Some [120; 33]%N /\
  lookup (st_fs (exec TaskLocal [w_a; w_b] w_T w_fnd w_fs w_overlapped)) w_b = Some [121; 33]%N /\
  lookup (st_fs (exec TaskLocal [w_a; w_b] w_T w_fnd w_fs w_overlapped)) [99]%N = Some [122]%N /\
  r_changesets (merged MapInputOrder 2 w_overlapped (exec TaskLocal [w_a; w_b] w_T w_fnd w_fs w_overlapped)) = [w_a; w_b].
Proof.
  split; [exact w_nodup|]. split; [apply check_il_sound; vm_compute; reflexivity|].
  vm_compute. repeat split; reflexivity.
Qed.

(** the race of the refuted branch, computed: with shared per-file state the first file receives the second one's text *)
Example C11_shared_state_race :
  lookup (st_fs (exec SharedScratch [w_a; w_b] w_T w_fnd w_fs w_reads_first)) w_a = Some [121; 33]%N /\
  lookup (st_fs (exec TaskLocal [w_a; w_b] w_T w_fnd w_fs w_reads_first)) w_a = Some [120; 33]%N.
Proof. split; vm_compute; reflexivity. Qed.

(** a pool with bound 2: three items, two threads, two files in flight at the peak; a third thread cannot be spawned *)
Example C11_inflight_example :
  (exists p', pool_run (pool_bound (Some MaxWorkersArg) 2 16) pool_init
                [Submit 0; Spawn; Submit 1; Spawn; Submit 2; Take 0 0; Take 1 1; Done 0; Take 0 2; Done 1; Done 0] = Some p') /\
  peak [Submit 0; Spawn; Submit 1; Spawn; Submit 2; Take 0 0; Take 1 1; Done 0; Take 0 2; Done 1; Done 0] = 2 /\
  pool_run (pool_bound (Some MaxWorkersArg) 2 16) pool_init [Spawn; Spawn; Spawn] = None.
Proof. split; [eexists; vm_compute; reflexivity|]. split; vm_compute; reflexivity. Qed.

(** the duplicated entry point of [w_eps] is loaded once, whatever the hash; a set yields the same collections *)
Example C11_registry_example :
  map fst (iter_order Deterministic (fun n => (7 - n)%N) 8 w_eps) = [0; 1; 2]%N /\
  map fst (iter_order OverSet (fun n => (7 - n)%N) 8 w_eps) = [2; 1; 0]%N.
Proof. split; vm_compute; reflexivity. Qed.

Example C11_sibling_example :
  sibling_independent (fun fs p => match lookup fs p with Some c => c | None => [] end).
Proof. intros fs fs' p H. now rewrite H. Qed.
