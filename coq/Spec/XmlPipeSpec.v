(** What C19 demands of the XML pipelines, on observables.
    - [canon]: the content of an event stream that must be preserved: elements with their attributes (in order),
      character data (adjacent runs merged; runs of white space only, outside CDATA, are insignificant and
      dropped), CDATA boundaries, comments, processing instructions, the document type declaration.
      The XML declaration is not an event and is not part of it.
    - [retarget_attr] / [retarget_new]: the expected stream: the input with exactly the targeted edits.
    - decoders for the two escaping functions of the serializer ([unescape], [unquote]). *)
From CM Require Export Model.XmlPipe.
From Coq Require Import String.

Inductive item :=
| IStart (name : str) (attrs : dict str str)
| IEnd (name : str)
| IText (s : str)
| IPI (target data : str)
| ISkipped (name : str)
| IComment (s : str)
| ICDataStart | ICDataEnd
| IDoctype (name : str) (public_id system_id : option str).

Definition is_ws (c : N) : bool := (c =? 32)%N || (c =? 9)%N || (c =? 10)%N || (c =? 13)%N.
Definition flush (in_cdata : bool) (pending : str) : list item :=
  match pending with
  | [] => []
  | _ => if negb in_cdata && forallb is_ws pending then [] else [IText pending]
  end.
Fixpoint canon_go (in_cdata : bool) (pending : str) (evs : list event) : list item :=
  match evs with
  | [] => flush in_cdata pending
  | e :: r =>
      match e with
      | Characters c | IgnorableWhitespace c => canon_go in_cdata (pending ++ c) r
      | StartDocument | EndDocument | EndDTD => canon_go in_cdata pending r
      | StartElement n a => flush in_cdata pending ++ IStart n a :: canon_go in_cdata [] r
      | EndElement n => flush in_cdata pending ++ IEnd n :: canon_go in_cdata [] r
      | ProcessingInstruction t d => flush in_cdata pending ++ IPI t d :: canon_go in_cdata [] r
      | SkippedEntity n => flush in_cdata pending ++ ISkipped n :: canon_go in_cdata [] r
      | Comment c => flush in_cdata pending ++ IComment c :: canon_go in_cdata [] r
      | StartCDATA => flush in_cdata pending ++ ICDataStart :: canon_go true [] r
      | EndCDATA => flush in_cdata pending ++ ICDataEnd :: canon_go false [] r
      | StartDTD n p s => flush in_cdata pending ++ IDoctype n p s :: canon_go in_cdata [] r
      end
  end.
Definition canon (evs : list event) : list item := canon_go false [] evs.

(** d | new, said without the update loop: existing keys keep their place and take the new value if there is one;
    keys that are new come after, in the order of [new] *)
Definition merge_spec (a new : dict str str) : dict str str :=
  map (fun kv => (fst kv, match dget str_eqb (fst kv) new with Some v => v | None => snd kv end)) a ++
  List.filter (fun kv => negb (dhas str_eqb (fst kv) a)) new.

Section Retarget.
  Variable fc_results : list xresult.
  Definition spec_change (line : N) : xchange :=
    {| xc_line := line; xc_findings := xfindings_for_location fc_results line |}.

  (** the element at [pe] is a target of the attribute transformer *)
  Definition attr_target (amap : dict str (dict str str)) (results : option (list xresult)) (line_only : bool)
             (pe : pevent) : option (str * dict str str * dict str str) :=
    match pe_ev pe with
    | StartElement n a =>
        if match_result results line_only (pe_line pe) (pe_col pe)
        then match dget str_eqb n amap with Some new => Some (n, a, new) | None => None end else None
    | _ => None
    end.
  Definition retarget_attr amap results line_only (evs : list pevent) : list event :=
    map (fun pe => match attr_target amap results line_only pe with
                   | Some (n, a, new) => StartElement n (merge_spec a new)
                   | None => pe_ev pe end) evs.
  Definition changes_attr amap results line_only (evs : list pevent) : list xchange :=
    flat_map (fun pe => match attr_target amap results line_only pe with
                        | Some _ => [spec_change (pe_line pe)] | None => [] end) evs.

  (** the new children due before the end tag at [pe] *)
  Definition new_children (news : list new_element) (pe : pevent) : list new_element :=
    match pe_ev pe with
    | EndElement n => List.filter (fun ne => str_eqb (ne_parent ne) n) news
    | _ => []
    end.
  Definition retarget_new news (evs : list pevent) : list event :=
    flat_map (fun pe => flat_map add_new_element (new_children news pe) ++ [pe_ev pe]) evs.
  Definition changes_new news (evs : list pevent) : list xchange :=
    flat_map (fun pe => map (fun _ => spec_change (pe_line pe)) (new_children news pe)) evs.
End Retarget.

(** element nesting: Some stack' when the stream is properly nested starting from the open elements [stack] *)
Fixpoint nest (stack : list str) (evs : list event) : option (list str) :=
  match evs with
  | [] => Some stack
  | StartElement n _ :: r => nest (n :: stack) r
  | EndElement n :: r => match stack with top :: st => if str_eqb top n then nest st r else None | [] => None end
  | _ :: r => nest stack r
  end.

(** ** decoders (what an XML parser does with the predefined entities and the character references the
       serializer produces); right-to-left single pass *)
Fixpoint strip_prefix (p s : str) : option str :=
  match p, s with
  | [], _ => Some s
  | a :: p', b :: s' => if (a =? b)%N then strip_prefix p' s' else None
  | _ :: _, [] => None
  end.
Definition entities : list (str * N) :=
  [ ([97; 109; 112; 59], 38); ([108; 116; 59], 60); ([103; 116; 59], 62); ([113; 117; 111; 116; 59], 34);
    ([35; 49; 48; 59], 10); ([35; 49; 51; 59], 13); ([35; 57; 59], 9) ]%N.
Fixpoint first_entity (es : list (str * N)) (s : str) : option (N * str) :=
  match es with
  | [] => None
  | (p, c) :: es' => match strip_prefix p s with Some r => Some (c, r) | None => first_entity es' s end
  end.
Definition ent_step (c : N) (acc : str) : str :=
  if (c =? 38)%N then match first_entity entities acc with Some (d, r) => d :: r | None => c :: acc end else c :: acc.
Definition unescape (s : str) : str := fold_right ent_step [] s.

Fixpoint take_until (q : N) (s : str) : option (str * str) :=
  match s with
  | [] => None
  | c :: r => if (c =? q)%N then Some ([], r)
              else match take_until q r with Some (a, b) => Some (c :: a, b) | None => None end
  end.
(** read one quoted attribute value off the front of [s]: (value, rest) *)
Definition unquote (s : str) : option (str * str) :=
  match s with
  | q :: r => if (q =? 34)%N || (q =? 39)%N
              then match take_until q r with Some (body, rest) => Some (unescape body, rest) | None => None end
              else None
  | [] => None
  end.

Definition no_specials (s : str) : bool := forallb (fun c => negb ((c =? 38)%N || (c =? 60)%N || (c =? 62)%N)) s.

(** the declaration a faithful writer produces for startDTD(name, public_id, system_id) *)
Definition ref_doctype (name : str) (p s : option str) : str :=
  lit "<!DOCTYPE " ++ name ++
  match p, s with
  | None, None => []
  | None, Some sy => lit " SYSTEM """ ++ sy ++ lit """"
  | Some pu, None => lit " PUBLIC """ ++ pu ++ lit """"
  | Some pu, Some sy => lit " PUBLIC """ ++ pu ++ lit """ """ ++ sy ++ lit """"
  end ++ lit ">".
