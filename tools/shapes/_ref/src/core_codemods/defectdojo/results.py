import json
from functools import cache
from pathlib import Path

import libcst as cst
from libcst._position import CodeRange
from typing_extensions import Self, override

from codemodder.codetf import Finding, Rule
from codemodder.result import LineInfo, Location, ResultSet, SASTResult


class DefectDojoLocation(Location):
    @classmethod
    def from_result(cls, result: dict) -> Self:
        return cls(
            file=Path(result["file_path"]),
            # TODO: parse snippet from "description" field?
            start=LineInfo(result["line"]),
            end=LineInfo(result["line"]),
        )


class DefectDojoResult(SASTResult):
    @classmethod
    def from_result(cls, result: dict) -> Self:
        return cls(
            finding_id=result["id"],
            rule_id=result["title"],
            locations=[DefectDojoLocation.from_result(result)],
            finding=Finding(
                id=str(result["id"]),
                rule=Rule(
                    # TODO: it's possible that these fields actually come from the codemod and not the result
                    id=str(result["title"]),
                    name=str(result["title"]),
                    url=None,
                ),
            ),
        )

    @override
    def match_location(self, pos: CodeRange, node: cst.CSTNode) -> bool:
        """
        Match location for DefectDojo results

        Since DefectDojo does not provide column information, we can only match based on line number.
        We check whether the start line of the result is within the range of the node.
        """
        del node
        return any(
            pos.start.line <= location.start.line <= pos.end.line
            for location in self.locations
        )


class DefectDojoResultSet(ResultSet):
    @classmethod
    @cache
    def from_json(cls, json_file: str | Path) -> Self:
        with open(json_file, "r", encoding="utf-8") as file:
            data = json.load(file)

        result_set = cls()
        for result in data.get("results"):
            result_set.add_result(DefectDojoResult.from_result(result))

        return result_set
