(** calc_line_num_changes on the lines unified_diff produces: the numbers it returns are the 1-based
    positions of the removed lines (in a) and of the added lines (in b), provided no removed line starts
    with "--" and no added line starts with "++" (the code's test for the "---"/"+++" file header also
    swallows such content lines: [linenums_refuted_dashes]). *)
From CM Require Import Spec.DiffSpec Proofs.DiffFacts.
From Coq Require Import Lia ZifyBool.
Local Open Scope Z_scope.
Ltac zl := unfold str in *; lia.

Definition mk (c o : Z) (acc : list Z) : lnstate := {| cur_ln := c; orig_ln := o; acc_ln := acc |}.

Definition no_dd (l : str) : bool := negb (startswith [45; 45]%N l).
Definition no_pp (l : str) : bool := negb (startswith [43; 43]%N l).
Definition seg_pm_ok (s : seg) : bool :=
  match s with SEq _ => true | SRep a b => forallb no_dd a && forallb no_pp b end.
(** guard: no removed line starts with "--", no added line with "++" *)
Definition pm_ok (s : script) : bool := forallb (fun gg => forallb seg_pm_ok (fst gg)) (hunks s).

Lemma seq_from_S s n : seq_from s (S n) = (s + 1) :: seq_from (s + 1) n.
Proof.
  unfold seq_from. cbn [seq map]. f_equal. rewrite <- seq_shift, map_map. apply map_ext. intros i. lia.
Qed.

Lemma fold_ctx ls : forall c o acc,
  fold_left calc_step (map (cons 32%N) ls) (Some (mk c o acc))
  = Some (mk (c + Z.of_nat (length ls)) (o + Z.of_nat (length ls)) acc).
Proof.
  induction ls as [|l ls IH]; intros c o acc; cbn [map fold_left length].
  - f_equal. unfold mk. f_equal; lia.
  - change (calc_step (Some (mk c o acc)) (32%N :: l)) with (Some (mk (c + 1) (o + 1) acc)).
    rewrite IH. f_equal. unfold mk. f_equal; lia.
Qed.

Lemma step_del l c o acc : no_dd l = true ->
  calc_step (Some (mk c o acc)) (45%N :: l) = Some (mk c (o + 1) (acc ++ [o + 1])).
Proof.
  unfold no_dd. intros H. apply negb_true_iff in H. unfold calc_step.
  change (startswith [64; 64]%N (45%N :: l)) with false.
  change (startswith [43]%N (45%N :: l)) with false.
  change (startswith [45]%N (45%N :: l)) with true.
  change (startswith [45; 45; 45]%N (45%N :: l)) with (startswith [45; 45]%N l). rewrite H. reflexivity.
Qed.
Lemma step_add l c o acc : no_pp l = true ->
  calc_step (Some (mk c o acc)) (43%N :: l) = Some (mk (c + 1) o (acc ++ [c + 1])).
Proof.
  unfold no_pp. intros H. apply negb_true_iff in H. unfold calc_step.
  change (startswith [64; 64]%N (43%N :: l)) with false.
  change (startswith [43]%N (43%N :: l)) with true.
  change (startswith [43; 43; 43]%N (43%N :: l)) with (startswith [43; 43]%N l). rewrite H. reflexivity.
Qed.

Lemma fold_del a : forall c o acc, forallb no_dd a = true ->
  fold_left calc_step (map (cons 45%N) a) (Some (mk c o acc))
  = Some (mk c (o + Z.of_nat (length a)) (acc ++ seq_from o (length a))).
Proof.
  induction a as [|l a IH]; intros c o acc H; cbn [map fold_left length forallb] in *.
  - f_equal. unfold mk, seq_from. cbn. rewrite app_nil_r. f_equal; lia.
  - apply andb_true_iff in H as [Hl Ha]. rewrite (step_del _ _ _ _ Hl), (IH _ _ _ Ha), seq_from_S.
    rewrite <- app_assoc. cbn [app]. f_equal. unfold mk. f_equal; lia.
Qed.
Lemma fold_add b : forall c o acc, forallb no_pp b = true ->
  fold_left calc_step (map (cons 43%N) b) (Some (mk c o acc))
  = Some (mk (c + Z.of_nat (length b)) o (acc ++ seq_from c (length b))).
Proof.
  induction b as [|l b IH]; intros c o acc H; cbn [map fold_left length forallb] in *.
  - f_equal. unfold mk, seq_from. cbn. rewrite app_nil_r. f_equal; lia.
  - apply andb_true_iff in H as [Hl Hb]. rewrite (step_add _ _ _ _ Hl), (IH _ _ _ Hb), seq_from_S.
    rewrite <- app_assoc. cbn [app]. f_equal. unfold mk. f_equal; lia.
Qed.

Lemma fold_grp g : forall c o acc, forallb seg_pm_ok g = true ->
  fold_left calc_step (grp_lines g) (Some (mk c o acc))
  = Some (mk (c + Z.of_nat (length (grp_b g))) (o + Z.of_nat (length (grp_a g))) (acc ++ seg_positions o c g)).
Proof.
  induction g as [|s g IH]; intros c o acc H.
  - cbn. rewrite app_nil_r. f_equal. unfold mk. f_equal; zl.
  - unfold grp_lines, grp_a, grp_b in *. cbn [flat_map forallb] in *. apply andb_true_iff in H as [Hs Hg].
    rewrite fold_left_app, !app_length, !Nat2Z.inj_add. destruct s as [ls|a b]; cbn [seg_lines seg_a seg_b seg_positions seg_pm_ok] in *.
    + rewrite fold_ctx, (IH _ _ _ Hg). f_equal. unfold mk. f_equal; zl.
    + apply andb_true_iff in Hs as [Ha Hb].
      rewrite fold_left_app, (fold_del _ _ _ _ Ha), (fold_add _ _ _ _ Hb), (IH _ _ _ Hg).
      f_equal. unfold mk. rewrite <- !app_assoc. f_equal; zl.
Qed.

(** the header line resets both counters from its two ranges *)
Lemma start_minus_1_fmt c start n : c <> 44%N ->
  start_minus_1 (c :: fmt_range start (start + n)%N)
  = Some (if (n =? 0)%N then Z.of_N start - 1 else Z.of_N start).
Proof.
  intros Hc. unfold start_minus_1, fmt_range. replace (start + n - start)%N with n by lia.
  assert (F : forall m, free 44 (c :: dec m) = true).
  { intros m. unfold free. cbn [forallb]. fold (free 44 (dec m)). rewrite dec_free by reflexivity.
    apply N.eqb_neq in Hc. rewrite Hc. reflexivity. }
  destruct (n =? 1)%N eqn:E1.
  - apply N.eqb_eq in E1. subst n. rewrite (split_on_free _ _ (F _)). cbn [tl]. rewrite parse_dec_dec.
    cbn [option_map N.eqb]. f_equal. lia.
  - destruct (n =? 0)%N eqn:E0.
    + change ([44%N] ++ dec n) with (44%N :: dec n). rewrite app_comm_cons.
      rewrite (split_on_free_app _ _ _ (F _)). cbn [tl].
      rewrite parse_dec_dec. cbn [option_map]. f_equal. lia.
    + change ([44%N] ++ dec n) with (44%N :: dec n). rewrite app_comm_cons.
      rewrite (split_on_free_app _ _ _ (F _)). cbn [tl].
      rewrite parse_dec_dec. cbn [option_map]. f_equal. lia.
Qed.

Lemma split_header pa pb g :
  tl (split_on 32 (hunk_header pa pb g))
  = [45%N :: fmt_range pa (pa + len (grp_a g)); 43%N :: fmt_range pb (pb + len (grp_b g)); [64; 64; 10]%N].
Proof.
  unfold hunk_header.
  set (R1 := fmt_range pa (pa + len (grp_a g))). set (R2 := fmt_range pb (pb + len (grp_b g))).
  change ([64; 64; 32; 45]%N ++ R1 ++ [32; 43]%N ++ R2 ++ [32; 64; 64; 10]%N)
    with ([64; 64]%N ++ 32%N :: (45%N :: R1) ++ 32%N :: (43%N :: R2) ++ 32%N :: [64; 64; 10]%N).
  rewrite (split_on_free_app 32 [64; 64]%N) by reflexivity.
  assert (F1 : free 32 (45%N :: R1) = true) by (cbn; apply fmt_range_free; [reflexivity|discriminate]).
  assert (F2 : free 32 (43%N :: R2) = true) by (cbn; apply fmt_range_free; [reflexivity|discriminate]).
  rewrite (split_on_free_app 32 _ _ F1), (split_on_free_app 32 _ _ F2).
  rewrite (split_on_free 32 [64; 64; 10]%N) by reflexivity. reflexivity.
Qed.

Lemma step_header pa pb g c o acc :
  calc_step (Some (mk c o acc)) (hunk_header pa pb g)
  = Some (mk (if (len (grp_b g) =? 0)%N then Z.of_N pb - 1 else Z.of_N pb)
             (if (len (grp_a g) =? 0)%N then Z.of_N pa - 1 else Z.of_N pa) acc).
Proof.
  unfold calc_step. change (startswith [64; 64]%N (hunk_header pa pb g)) with true. cbv iota.
  rewrite split_header, !start_minus_1_fmt by discriminate. reflexivity.
Qed.

Lemma seg_positions_no_a g : forall o o' c, length (grp_a g) = 0%nat -> seg_positions o c g = seg_positions o' c g.
Proof.
  induction g as [|s g IH]; intros o o' c H; [reflexivity|].
  unfold grp_a in *. cbn [flat_map] in H. rewrite app_length in H.
  assert (Hs : length (seg_a s) = 0%nat) by lia. assert (Hg : length (flat_map seg_a g) = 0%nat) by lia.
  destruct s as [ls|a b]; cbn [seg_a seg_positions] in *; rewrite Hs.
  - apply IH. exact Hg.
  - unfold seq_from at 1 3. cbn [seq map app]. f_equal. apply IH. exact Hg.
Qed.
Lemma seg_positions_no_b g : forall o c c', length (grp_b g) = 0%nat -> seg_positions o c g = seg_positions o c' g.
Proof.
  induction g as [|s g IH]; intros o c c' H; [reflexivity|].
  unfold grp_b in *. cbn [flat_map] in H. rewrite app_length in H.
  assert (Hs : length (seg_b s) = 0%nat) by lia. assert (Hg : length (flat_map seg_b g) = 0%nat) by lia.
  destruct s as [ls|a b]; cbn [seg_b seg_positions] in *; rewrite ?Hs.
  - destruct ls; [|discriminate Hs]. cbn [length]. apply IH. exact Hg.
  - unfold seq_from at 2 4. cbn [seq map app]. f_equal. apply IH. exact Hg.
Qed.

Lemma len_Z {A} (x : list A) : Z.of_N (len x) = Z.of_nat (length x).
Proof. unfold len. apply nat_N_Z. Qed.
Lemma len_0 {A} (x : list A) : (len x =? 0)%N = true -> length x = 0%nat.
Proof. intros H. apply N.eqb_eq in H. unfold len in H. lia. Qed.

Lemma fold_hunks gs : forall pa pb c o acc,
  forallb (fun gg => forallb seg_pm_ok (fst gg)) gs = true ->
  exists c' o', fold_left calc_step (hunks_lines pa pb gs) (Some (mk c o acc))
                = Some (mk c' o' (acc ++ hunk_positions (Z.of_N pa) (Z.of_N pb) gs)).
Proof.
  induction gs as [|[g gap] gs IH]; intros pa pb c o acc H.
  - exists c, o. cbn. rewrite app_nil_r. reflexivity.
  - cbn [forallb fst hunks_lines hunk_positions] in *. apply andb_true_iff in H as [Hg Hr].
    rewrite fold_left_app. cbn [fold_left]. rewrite step_header, (fold_grp _ _ _ _ Hg).
    edestruct (IH (pa + len (grp_a g) + len gap)%N (pb + len (grp_b g) + len gap)%N) as [c' [o' E]]; [exact Hr|].
    exists c', o'. rewrite E. f_equal. unfold mk. f_equal. rewrite <- app_assoc. f_equal.
    rewrite !N2Z.inj_add, !len_Z. f_equal.
    destruct (len (grp_a g) =? 0)%N eqn:Ea; destruct (len (grp_b g) =? 0)%N eqn:Eb.
    + rewrite (seg_positions_no_a g _ (Z.of_N pa) _ (len_0 _ Ea)). apply seg_positions_no_b. exact (len_0 _ Eb).
    + apply seg_positions_no_a. exact (len_0 _ Ea).
    + apply seg_positions_no_b. exact (len_0 _ Eb).
    + reflexivity.
Qed.

Lemma dedupZ_In l z : In z (dedupZ l) <-> In z l.
Proof.
  unfold dedupZ.
  assert (G : forall l acc, In z (fold_left (fun acc x => if existsb (Z.eqb x) acc then acc else acc ++ [x]) l acc)
                            <-> In z acc \/ In z l).
  { clear l. induction l as [|x l IH]; intros acc; cbn [fold_left]; [cbn; tauto|].
    rewrite IH. destruct (existsb (Z.eqb x) acc) eqn:E.
    - apply existsb_exists in E as [y [Hy Exy]]. apply Z.eqb_eq in Exy. subst y. cbn [In]. split; [tauto|].
      intros [H|[->|H]]; tauto.
    - rewrite in_app_iff. cbn [In]. tauto. }
  rewrite G. cbn. tauto.
Qed.

Theorem linenums_exact s :
  pm_ok s = true ->
  exists L, calc_line_num_changes (udiff_lines s) = Some L /\ forall z, In z L <-> In z (changed_positions s).
Proof.
  intros H. unfold calc_line_num_changes, udiff_lines, changed_positions, pm_ok in *.
  destruct (hunks s) as [|h t] eqn:E.
  - exists []. split; [reflexivity|]. cbn. tauto.
  - rewrite <- E in *. cbn [fold_left].
    change (calc_step (calc_step (Some {| cur_ln := 0; orig_ln := 0; acc_ln := [] |}) hdr_from) hdr_to)
      with (Some (mk 1 1 [])).
    destruct (fold_hunks (hunks s) (len (gap0 s)) (len (gap0 s)) 1 1 [] H) as [c' [o' F]].
    destruct (hunks s) as [|h' t'] eqn:E'; [discriminate E|]. rewrite <- E' in *. rewrite F.
    eexists. split; [reflexivity|]. intros z. cbn [acc_ln mk app]. rewrite dedupZ_In, !len_Z. tauto.
Qed.
