from dataclasses import dataclass
from enum import Enum
from pathlib import Path

from packaging.requirements import InvalidRequirement
from packaging.utils import canonicalize_name

from codemodder.dependency import Requirement


class FileType(Enum):
    REQ_TXT = "requirements.txt"
    TOML = "pyproject.toml"
    SETUP_PY = "setup.py"
    SETUP_CFG = "setup.cfg"


@dataclass(init=False)
class PackageStore:
    type: FileType
    file: Path
    dependencies: set[Requirement]
    py_versions: list[str]

    def __init__(
        self,
        type: FileType,
        file: Path,
        dependencies: set[str | Requirement],
        py_versions: list[str],
    ):
        self.type = type
        self.file = file
        self.dependencies = {
            x for x in {parse_requirement(dep) for dep in dependencies} if x
        }
        self.py_versions = py_versions

    def has_requirement(self, requirement: Requirement) -> bool:
        return canonicalize_name(requirement.name) in {
            canonicalize_name(dep.name) for dep in self.dependencies
        }


def parse_requirement(requirement: str | Requirement) -> Requirement:
    match requirement:
        case Requirement():
            return requirement
        case _:
            try:
                return Requirement(convert_py_version(requirement))
            except (InvalidRequirement, ValueError):
                return None


def convert_py_version(py_version: str) -> str:
    """
    Convert any dependency with ^ syntax to equivalent >=, < syntax.
    packaging.requirements does not support parsing dependencies with `^` syntax
    which is common in Poetry. For our internal representation we will convert it to

    `pandas^1.2.31` is equivalent to `pandas>=1.2.3,< 2.0.0`
    """
    if "^" in py_version:
        try:
            name, version = py_version.split("^")
            next_major_version = int(version.strip()[0]) + 1
            return f"{name}>={version},<{next_major_version}.0.0"
        except Exception:
            raise ValueError
    return py_version
