(** Types of the table values emitted by tools/fragments_glob.py (C05, C13). *)
From CM Require Export Base.Str.

(** base_codemod._process_file: which string form of the file path the `path:line` patterns are matched against. *)
Inductive path_form :=
| AsPassedAbsolute   (* pinned tree: file_line_patterns(filename, ...) -- only the path as passed (target-prefixed) *)
| Both.              (* fix 18b42d9: the path as passed, then the target-relative path *)

(** context.find_and_fix_paths: what is tested for emptiness before the default excludes are used. *)
Inductive exclude_sentinel_form :=
| RawOrNone          (* `self.path_exclude or None`: a list holding only `path:line` patterns switches the defaults off *)
| FileLevelOrNone.   (* the patterns without `:` `or None`: the defaults apply unless a FILE-level exclude is given *)

(** project_analysis/file_parsers/base_parser.BaseParser.find_file_locations: which manifests are candidates. *)
Inductive manifest_loc_form :=
| AllNamed           (* list(rglob(<manifest name>)): a symlinked manifest (possibly pointing outside the target) is a candidate *)
| SkipSymlinks.      (* ... if not path.is_symlink() *)

(** context.process_dependencies: are the file-level exclude patterns applied to the manifests before one is written? *)
Inductive manifest_excl_form :=
| NoManifestExclusion     (* every parsed package store may be written *)
| FileLevelExcludes.      (* a store whose file matches a file-level exclude (the user's, else the defaults) is skipped *)

(** base_visitor.UtilsMixin.filter_by_path_includes_or_excludes (and its copy in remove_unused_imports.py):
    how the exclusion and inclusion line lists combine. *)
Inductive lf_rule :=
| ExcludeShadowsInclude   (* `if self.line_exclude: return not any(...)`: a non-empty exclusion list makes the inclusion list irrelevant *)
| ExcludeThenInclude.     (* an excluded line is never selected; when lines are included, only those are *)

(** A fragment whose source text is exactly the one the model was written from. *)
Inductive as_written := AsWritten.
