"""C16 — hardening codemods make only their documented edit (argument-list algebra, coq/Model/Args.v).

(1) in-process kernel differential: random call shapes (positional / keyword / *a / **k in any order Python accepts,
    varied `=` and comma layout, nested calls) are given to the real LibcstResultTransformer.replace_args /
    add_arg_to_call / update_call_target / update_arg_target and to the real transformer classes of the codemods
    (node_is_selected overridden by position, everything else untouched); argument sequences (keyword, star, `=` tag,
    comma tag, value) are compared with the model and with the documented edit (Spec/ArgsSpec.v), inside Coq.
(2) end to end: generated projects, the real CLI with --codemod-include pixee:python/<name>, files parsed before/after
    with `ast`; per call the argument sequence is compared with the model and the spec, token multisets with the
    documented delta, and every other statement must be unchanged apart from the documented import."""
from __future__ import annotations

import ast
import concurrent.futures
import json
import re
from pathlib import Path

from harness import core
from harness.core import cN, cbool, clist, cstr

META = {
    "rule": "kernel: random calls (0-7 arguments, keyword/star/double-star mixes, layout variants, nesting depth <= 2) through the "
            "real replace_args/add_arg_to_call/update_call_target/update_arg_target and 13 real transformer classes; end to end: "
            "generated files with several trigger and non-trigger calls per file, import/alias spellings, nested triggers, through "
            "the real CLI for each covered codemod; non-trivial = a call with >= 2 arguments of which at least one is a star or a "
            "listed keyword, or a nested selected call; distinct by source text",
    "trusted": ["libcst 1.4.0 parser/codegen and CPython `ast` as observation instruments (argument sequences are read from their trees)",
                "semgrep 1.90 as the detector of the end-to-end runs (which calls are selected is an input of the model)"],
    "assumptions": [
        "the detector's verdict is an input: a call is modelled as selected iff the CodeTF report lists a change on its line; where "
        "that differs from the generator's intent the marks are taken from the report and the file is still judged (a changed but "
        "unreported call is a violation); a report that cannot be attributed to calls, a transformer exception the model does not "
        "predict, or a codemod with no judged selected call is a correspondence mismatch, never a silent skip",
        "name resolution (aliases), imports and dependencies are observed end to end only, not modelled",
    ],
}

IMPORTS = ("From CM Require Import Harness.RunBase Harness.C16_run Model.Args Spec.ArgsSpec Model.JwtOpts Spec.JwtOptsSpec Generated.Tables.\n")

KF_NESTED = "kf_nested_selected_calls"
KF_PYYAML_DROP = "kf_pyyaml_extra_args_dropped"
KF_PYYAML_SECOND = "kf_pyyaml_second_arg_overwritten"
KF_SSL = "kf_ssl_protocol_twice"


# ------------------------------------------------------------------------------------------------
# expression values: ('n', name) | ('a', E, attr) | ('c', text) | ('call', mark, funcE, [arg])
# arg = (kw|None, star 0/1/2, sp tag, lay tag, valueE)
# ------------------------------------------------------------------------------------------------
def c_expr(e) -> str:
    t = e[0]
    if t == "n":
        return f"(EName {cstr(e[1])})"
    if t == "a":
        return f"(EAttr {c_expr(e[1])} {cstr(e[2])})"
    if t == "c":
        return f"(EConst {cstr(e[1])})"
    return f"(ECall {cbool(e[1])} {c_expr(e[2])} {c_args(e[3])})"


def c_arg(a) -> str:
    kw, star, sp, lay, v = a
    return f"(mkArg {core.copt(cstr(kw) if kw is not None else None, 'str')} {cN(star)} {cN(sp)} {cN(lay)} {c_expr(v)})"


def c_args(args) -> str:
    return clist([c_arg(a) for a in args], "arg")


def c_newarg(n) -> str:
    return f"(mkNew {cstr(n[0])} {c_expr(n[1])} {cbool(n[2])})"


def c_kind(k) -> str:
    t = k[0]
    if t == "HReplace":
        return f"(HReplace {clist([c_newarg(n) for n in k[1]], 'newarg')})"
    if t in ("HCookie", "HSandbox", "HHttpsAttr", "HHttpsName"):
        return t
    if t == "HAddArg":
        return f"(HAddArg {cstr(k[1])} {c_expr(k[2])})"
    if t == "HPyyaml":
        return f"(HPyyaml {k[2]} {c_expr(k[1])})"
    if t in ("HSslTls", "HLimitReadline", "HTarget"):
        return f"({t} {c_expr(k[1])})"
    if t == "HSwapCallee":
        return f"(HSwapCallee {c_expr(k[1])} {cstr(k[2])})"
    if t == "HSendFile":
        return "(HSendFile %s %s %s %s)" % (k[1], c_expr(k[2]), c_expr(k[3]),
                                            clist([core.copt(cstr(x) if x is not None else None, "str") for x in k[4]], "option str"))
    if t in ("HTzNow", "HTzFromTs"):
        return f"({t} {c_expr(k[1])} {c_expr(k[2])})"
    raise ValueError(t)


def erase(e):
    if e[0] == "a":
        return ("a", erase(e[1]), e[2])
    if e[0] == "call":
        return ("call", False, erase(e[2]), [(a[0], a[1], 0, 0, erase(a[4])) for a in e[3]])
    return e


def calls_of(e, out=None):
    """all call nodes, pre-order"""
    out = [] if out is None else out
    if e[0] == "a":
        calls_of(e[1], out)
    elif e[0] == "call":
        out.append(e)
        calls_of(e[2], out)
        for a in e[3]:
            calls_of(a[4], out)
    return out


def has_marked(e):
    return any(c[1] for c in calls_of(e))


def nested_selected(e):
    """a selected call below a selected call"""
    for c in calls_of(e):
        if c[1] and (has_marked(c[2]) or any(has_marked(a[4]) for a in c[3])):
            return True
    return False


# ------------------------------------------------------------------------------------------------
# generator of call sources (G trees carry layout strings; the printer records where calls start)
# G = ('n', name) | ('a', G, attr) | ('c', text) | ('call', mark, funcG, [garg], ) ; garg = dict(kw, star, eq, comma, value)
# ------------------------------------------------------------------------------------------------
NAMES = ["x", "y", "data", "cfg", "opts", "items", "val"]
ATTRS = ["text", "args", "value", "f1"]
CONSTS_AST = ["1", "42", "'u'", "'a b'", "2.5", "0"]
CONSTS_CST = CONSTS_AST + ['"dq"', "[1, 2]", "x + 1", "{'k': v}", "lambda: 0", "f'{x}'", "(a, b)", "not y"]
KWS = ["alpha", "beta", "gamma", "key", "mode", "timeout2"]
EQS = ["=", "=", "=", " = ", "= ", " ="]
COMMAS = [", ", ", ", ", ", ",", " , ", ",\n        ", ",  "]


def gen_value(rng, depth, consts, sub=None):
    r = rng.random()
    if depth > 0 and sub is not None and r < 0.18:
        return sub(rng, depth - 1)
    if depth > 0 and r < 0.30:
        return ("call", False, gen_callee(rng), gen_gargs(rng, depth - 1, consts, [], sub), rng.random() < 0.1)
    if r < 0.55:
        return ("n", rng.choice(NAMES))
    if r < 0.70:
        return ("a", ("n", rng.choice(NAMES)), rng.choice(ATTRS))
    return ("c", rng.choice(consts))


def gen_callee(rng):
    return rng.choice([("n", "fn"), ("a", ("n", "mod"), "fn2"), ("a", ("a", ("n", "pkg"), "sub"), "go")])


def gen_gargs(rng, depth, consts, must_kw, sub=None, max_n=6, forbid_kw=(), allow_star=True):
    """argument list in an order Python accepts; `must_kw`: [(kw, valueG)] that must occur; no duplicate keywords."""
    n = rng.choice([0, 1, 1, 2, 2, 3, 3, 4, 5, max_n])
    kinds = []
    seen_kw = seen_dstar = False
    pending = list(must_kw)
    rng.shuffle(pending)
    used = set(k for k, _ in must_kw) | set(forbid_kw)
    for _ in range(n):
        opts = []
        if not seen_kw and not seen_dstar:
            opts += ["pos"] * 3
        opts += ["kw"] * 3
        if allow_star and not seen_dstar:
            opts += ["star"]
        if allow_star:
            opts += ["dstar"]
        k = rng.choice(opts)
        if k in ("kw", "dstar"):
            seen_kw = True
        if k == "dstar":
            seen_dstar = True
        kinds.append(k)
    # place the mandatory keywords at random keyword positions
    for kwv in pending:
        pos = [i for i, k in enumerate(kinds) if k in ("kw", "dstar")]
        first_kwpos = min(pos) if pos else len(kinds)
        i = rng.randint(first_kwpos, len(kinds))
        kinds.insert(i, ("must", kwv))
    # a `*x` may not follow `**y`; re-check after insertion is unnecessary (must-kw are keywords)
    out = []
    free = [k for k in KWS if k not in used]
    rng.shuffle(free)
    for k in kinds:
        if isinstance(k, tuple):
            kw, v = k[1]
            out.append(dict(kw=kw, star=0, eq=rng.choice(EQS), value=v))
        elif k == "pos":
            out.append(dict(kw=None, star=0, eq="", value=gen_value(rng, depth, consts, sub)))
        elif k == "kw":
            if not free:
                continue
            out.append(dict(kw=free.pop(), star=0, eq=rng.choice(EQS), value=gen_value(rng, depth, consts, sub)))
        elif k == "star":
            out.append(dict(kw=None, star=1, eq="", value=("n", rng.choice(["rest", "more", "xs"]))))
        else:
            out.append(dict(kw=None, star=2, eq="", value=("n", rng.choice(["kwargs", "extra", "kw2"]))))
    # keyword after ** is fine, `*` after ** is not: drop offending stars
    seen_d = False
    res = []
    for a in out:
        if a["star"] == 2:
            seen_d = True
        if a["star"] == 1 and seen_d:
            continue
        res.append(a)
    # positional after keyword is not allowed: the construction above never does it, but mandatory insertion may
    seen_k = False
    res2 = []
    for a in res:
        if a["kw"] is not None or a["star"] == 2:
            seen_k = True
        if a["kw"] is None and a["star"] == 0 and seen_k:
            continue
        res2.append(a)
    for i, a in enumerate(res2):
        a["comma"] = rng.choice(COMMAS) if i < len(res2) - 1 else ""
    return res2


SEND_FILE_PATH = "f'files/{name}'"


def _garg(kw=None, star=0, value=("n", "x"), eq="="):
    return dict(kw=kw, star=star, eq=eq if kw is not None else "", value=value, comma=", ")


def star_family(head, must):
    """Argument lists with `*rest` / `**kw` in every position class relative to the arguments a codemod touches
    (`head`: leading positionals, `must`: the keyword arguments of the trigger): before / between / after, one and two `**`
    spreads, both kinds, a spread as the only argument, and the plain list.  Each is a list of generator args."""
    H = [_garg(value=v) for v in head]
    M = [_garg(kw=k, value=v) for k, v in must]
    S = lambda: _garg(star=1, value=("n", "rest"))            # noqa: E731
    D = lambda n="kw": _garg(star=2, value=("n", n))          # noqa: E731
    X = lambda: _garg(kw="zeta", value=("c", "1"))            # noqa: E731
    between = (M[:1] + [D()] + M[1:] + [X()]) if len(M) >= 2 else ([X(), D()] + M)
    shapes = [
        ("star-before", H + [S()] + M),
        ("dstar-before", H + [D()] + M),
        ("dstar-between", H + between),
        ("dstar-after", H + M + [D()]),
        ("star-after-keywords", H + M + [S()]),
        ("two-dstar", H + [D()] + M + [D("kw2")]),
        ("star-and-dstar", H + [S()] + M + [D()]),
        ("dstar-only", [D()]),
        ("star-only", [S()]),
        ("plain", H + M),
    ]
    out = []
    for name, args in shapes:
        args = [dict(a) for a in args]
        for i, a in enumerate(args):
            a["comma"] = ", " if i < len(args) - 1 else ""
        out.append((name, args))
    return out


class Printer:
    def __init__(self):
        self.buf, self.off, self.calls = [], 0, []

    def w(self, s):
        self.buf.append(s)
        self.off += len(s)

    def emit(self, g):
        t = g[0]
        if t in ("n", "c"):
            self.w(g[1])
        elif t == "a":
            self.emit(g[1])
            self.w("." + g[2])
        else:
            self.calls.append((self.off, g[1]))
            self.emit(g[2])
            self.w("(")
            for a in g[3]:
                self.w({0: "", 1: "*", 2: "**"}[a["star"]])
                if a["kw"] is not None:
                    self.w(a["kw"] + a["eq"])
                self.emit(a["value"])
                self.w(a["comma"])
            if len(g) > 4 and g[4] and g[3]:
                self.w(",")
            self.w(")")

    def text(self):
        return "".join(self.buf)


def offset_to_pos(text, off):
    line = text.count("\n", 0, off) + 1
    col = off - (text.rfind("\n", 0, off) + 1)
    return line, col


def apply_marks(e, g):
    """copy the marks of the generator tree onto a converted tree of the same shape"""
    if e[0] == "a" and g[0] == "a":
        return ("a", apply_marks(e[1], g[1]), e[2])
    if e[0] == "call" and g[0] == "call":
        assert len(e[3]) == len(g[3]), (e, g)
        return ("call", bool(g[1]), apply_marks(e[2], g[2]),
                [(a[0], a[1], a[2], a[3], apply_marks(a[4], ga["value"])) for a, ga in zip(e[3], g[3])])
    return e


# ------------------------------------------------------------------------------------------------
# libcst side
# ------------------------------------------------------------------------------------------------
class Tags:
    """opaque layout tags: 0 = what a freshly built cst.Arg has"""

    def __init__(self):
        self.sp, self.lay = {"": 0, "=": 0}, {(None, "", ""): 0}

    def sp_tag(self, s):
        return self.sp.setdefault(s, len(self.sp))

    def lay_tag(self, t):
        return self.lay.setdefault(t, len(self.lay))


def cst_conv(node, tags):
    import libcst as cst
    m = cst.Module([])
    if isinstance(node, cst.Name) and not node.lpar:
        return ("n", node.value)
    if isinstance(node, cst.Attribute) and not node.lpar:
        return ("a", cst_conv(node.value, tags), node.attr.value)
    if isinstance(node, cst.Call) and not node.lpar:
        args = []
        for a in node.args:
            eq = "" if isinstance(a.equal, cst.MaybeSentinel) else m.code_for_node(a.equal)
            comma = None if isinstance(a.comma, cst.MaybeSentinel) else m.code_for_node(a.comma)
            lay = (comma, a.whitespace_after_arg.value if hasattr(a.whitespace_after_arg, "value") else m.code_for_node(a.whitespace_after_arg),
                   a.whitespace_after_star.value if hasattr(a.whitespace_after_star, "value") else m.code_for_node(a.whitespace_after_star))
            args.append((a.keyword.value if a.keyword is not None else None, {"": 0, "*": 1, "**": 2}[a.star],
                         tags.sp_tag(eq), tags.lay_tag(lay), cst_conv(a.value, tags)))
        return ("call", False, cst_conv(node.func, tags), args)
    return ("c", m.code_for_node(node))


def parse_value(text, tags=None):
    import libcst as cst
    return cst_conv(cst.parse_expression(text), tags or Tags())


class _Dummy:
    """`self` for the unbound kernel methods: they only use make_new_arg"""

    def make_new_arg(self, *a, **k):
        from codemodder.codemods.libcst_transformer import LibcstResultTransformer
        return LibcstResultTransformer.make_new_arg(self, *a, **k)


def transformer_classes():
    from core_codemods.add_requests_timeouts import TransformAddRequestsTimeouts
    from core_codemods.django_json_response_type import DjangoJsonResponseTypeTransformer
    from core_codemods.enable_jinja2_autoescape import EnableJinja2AutoescapeTransformer
    from core_codemods.harden_pyyaml import HardenPyyamlTransformer
    from core_codemods.harden_ruamel import HardenRuamel
    from core_codemods.limit_readline import LimitReadline
    from core_codemods.lxml_safe_parser_defaults import LxmlSafeParserDefaults
    from core_codemods.lxml_safe_parsing import LxmlSafeParsing
    from core_codemods.process_creation_sandbox import ProcessSandbox
    from core_codemods.requests_verify import RequestsVerify
    from core_codemods.secure_flask_cookie import SecureFlaskCookie
    from core_codemods.secure_random import SecureRandomTransformer
    from core_codemods.upgrade_sslcontext_tls import UpgradeSSLContextTLS
    from core_codemods.replace_flask_send_file import ReplaceFlaskSendFile
    return {
        "replace-flask-send-file": ReplaceFlaskSendFile,
        "requests-verify": RequestsVerify, "harden-ruamel": HardenRuamel,
        "enable-jinja2-autoescape": EnableJinja2AutoescapeTransformer,
        "safe-lxml-parser-defaults": LxmlSafeParserDefaults, "safe-lxml-parsing": LxmlSafeParsing,
        "secure-flask-cookie": SecureFlaskCookie, "upgrade-sslcontext-tls": UpgradeSSLContextTLS,
        "sandbox-process-creation": ProcessSandbox, "limit-readline": LimitReadline,
        "add-requests-timeouts": TransformAddRequestsTimeouts,
        "django-json-response-type": DjangoJsonResponseTypeTransformer,
        "secure-random": SecureRandomTransformer, "harden-pyyaml": HardenPyyamlTransformer,
    }


PYYAML_VARIANT = ["PyyamlByIndex"]   # set from Generated/Tables (pyyaml_shape) at the start of run()


ctx_tables_cache = [None]


def table_rows(ctx):
    ctx_tables_cache[0] = ctx.tables or {}
    PYYAML_VARIANT[0] = (ctx.tables or {}).get("pyyaml_shape", "PyyamlByParameter")
    return {name: [tuple(e) for e in entries] for name, entries in (ctx.tables or {}).get("newargs", [])}


def kind_for(codemod, rows, tags=None, ast_mode=False):
    """the model's transformer kind of a codemod, its NewArg values taken from Generated/Tables (this run's source)"""
    pv = (lambda t: ast_value(t)) if ast_mode else (lambda t: parse_value(t, tags))

    def info(name):
        return [(n, pv(v), a) for n, v, a in rows[name]]
    if codemod in ("requests-verify", "harden-ruamel", "enable-jinja2-autoescape", "safe-lxml-parser-defaults",
                   "safe-lxml-parsing", "subprocess-shell-false", "fix-math-isclose", "jwt-decode-verify"):
        return ("HReplace", info(codemod))
    if codemod == "replace-flask-send-file":
        t = (ctx_tables_cache[0] or {})
        path = ast.unparse(ast.parse(SEND_FILE_PATH, mode="eval").body) if ast_mode else SEND_FILE_PATH
        return ("HSendFile", t.get("p2k_shape", "P2kCarriesOver"), ("a", ("c", f"(p := Path({path}))"), "parent"), ("a", ("n", "p"), "name"),
                t.get("send_file_pos_map", []))
    if codemod == "secure-flask-cookie":
        return ("HCookie",)
    if codemod == "upgrade-sslcontext-tls":
        return ("HSslTls", info(codemod)[0][1])
    if codemod == "sandbox-process-creation":
        return ("HSandbox",)
    if codemod == "limit-readline":
        return ("HLimitReadline", ("c", "5000000" if ast_mode else "5_000_000"))
    if codemod == "add-requests-timeouts":
        n, v, _ = info(codemod)[0]
        return ("HAddArg", n, v)
    if codemod == "django-json-response-type":
        return ("HAddArg", "content_type", pv('"application/json"'))
    if codemod == "secure-random":
        return ("HTarget", pv("secrets.SystemRandom()"))
    if codemod == "harden-pyyaml":
        return ("HPyyaml", pv("yaml.SafeLoader"), PYYAML_VARIANT[0])
    raise KeyError(codemod)


def run_transformer(cls, src, selected):
    """the real transformer class on `src`, with node_is_selected decided by position only"""
    import libcst as cst
    from codemodder.file_context import FileContext

    class T(cls):
        def node_is_selected(self, node):
            if not isinstance(node, cst.Call):
                return False
            p = self.node_position(node).start
            return (p.line, p.column) in selected

    fc = FileContext(Path("/nonexistent"), Path("/nonexistent/a.py"))
    out = T.transform(cst.parse_module(src), None, fc)
    return out, fc


def stmt_values_cst(module):
    import libcst as cst
    out = {}
    for st in module.body:
        if isinstance(st, cst.SimpleStatementLine) and len(st.body) == 1 and isinstance(st.body[0], cst.Assign):
            t = st.body[0].targets[0].target
            if isinstance(t, cst.Name) and re.fullmatch(r"[rv]\d+", t.value):
                out[t.value] = st.body[0].value
    return out


# ------------------------------------------------------------------------------------------------
# (1) kernel differential
# ------------------------------------------------------------------------------------------------
def gen_newargs(rng, call_kws):
    pool = list(dict.fromkeys(call_kws + KWS + ["verify", "shell"]))
    n = rng.choice([1, 1, 2, 3, 4])
    out = []
    for _ in range(n):
        name = rng.choice(call_kws) if call_kws and rng.random() < 0.5 else rng.choice(pool)
        out.append((name, rng.choice(["True", "False", '"safe"', "1e-09", "ssl.PROTOCOL_TLS_CLIENT",
                                      "lxml.etree.XMLParser(resolve_entities=False)", "x", "'Lax'"]), rng.random() < 0.6))
    if rng.random() < 0.75:   # mostly distinct names (every codemod's list has distinct names); sometimes duplicates
        seen, d = set(), []
        for e in out:
            if e[0] not in seen:
                seen.add(e[0])
                d.append(e)
        out = d
    return out


def kernel_direct(ctx, n, exhaustive=False):
    import libcst as cst
    from codemodder.codemods.libcst_transformer import LibcstResultTransformer as L, NewArg
    rng, tags = ctx.rng, Tags()
    ra_cases, ra_meta, tree_cases, tree_meta = [], [], [], []
    corpus = [("f(a, b = 1, *c, **d, b=2,\n   e=3 ,)", [("b", "9", False), ("z", "'q'", True), ("b", "7", True)]),
              ("f()", [("k", "1", True), ("j", "2", False)]),
              ("f(**k)", [("k", "1", True)]),
              ("requests.get('u', verify = False , timeout=3)", [("verify", "True", False)])]
    if exhaustive:
        import itertools
        atoms = {"p": "x", "ka": "a=1", "kb": "b = 2", "s": "*s", "d": "**d"}
        infos = [[]] + [[(nm, "9", ad)] for nm in "ab" for ad in (True, False)] + \
            [[(n1, "9", a1), (n2, "'q'", a2)] for n1, n2 in (("a", "b"), ("b", "a")) for a1 in (True, False) for a2 in (True, False)]
        for ln in range(4):
            for shape in itertools.product(atoms, repeat=ln):
                seen_k = seen_d = False
                ok = len([x for x in shape if x == "ka"]) <= 1 and len([x for x in shape if x == "kb"]) <= 1
                for x in shape:
                    if x == "p" and (seen_k or seen_d):
                        ok = False
                    if x == "s" and seen_d:
                        ok = False
                    seen_k = seen_k or x in ("ka", "kb")
                    seen_d = seen_d or x == "d"
                if ok:
                    for inf in infos:
                        corpus.append(("f(" + ", ".join(atoms[x] for x in shape) + ")", inf))
        ctx.count("kernel.replace_args.exhaustive_small_scope", len(corpus))
    for i in range(n + len(corpus)):
        if i < len(corpus):
            src, info = corpus[i]
        else:
            g = ("call", False, gen_callee(rng), gen_gargs(rng, 2, CONSTS_CST, []), rng.random() < 0.15)
            p = Printer()
            p.emit(g)
            src = p.text()
            call0 = cst.parse_expression(src)
            info = gen_newargs(rng, [a.keyword.value for a in call0.args if a.keyword is not None])
        call = cst.parse_expression(src)
        e = cst_conv(call, tags)
        lst = [NewArg(*x) for x in info]
        try:
            new_args = L.replace_args(_Dummy(), call, lst)
        except Exception as ex:   # the model is total: a raise is a model/implementation mismatch, not a harness error
            ctx.mismatch("LibcstResultTransformer.replace_args vs Model.Args.replace_args",
                         f"replace_args raised {type(ex).__name__}: {ex} on {src!r} with {info}", {"op": "replace_args", "call": src, "newargs": info})
            continue
        obs = cst_conv(call.with_changes(args=new_args), tags)[3]
        left = [(x.name, parse_value(x.value, tags), x.add_if_missing) for x in lst]
        minfo = [(nm, parse_value(v, tags), a) for nm, v, a in info]
        ra_cases.append("(%s, %s, %s, %s)" % (c_args(e[3]), clist([c_newarg(x) for x in minfo], "newarg"), c_args(obs),
                                              clist([c_newarg(x) for x in left], "newarg")))
        ra_meta.append({"call": src, "newargs": info})
        kws = [a[0] for a in e[3] if a[0] is not None]
        nontrivial = len(e[3]) >= 2 and (any(a[1] for a in e[3]) or any(x[0] in kws for x in info))
        ctx.case({"call": src, "newargs": info}, nontrivial_key=("ra", src, tuple(info)) if nontrivial else None, sample=nontrivial)
        ctx.count(f"kernel.replace_args.arity:{min(len(e[3]), 7)}")
        ctx.count("kernel.replace_args.newargs:" + ("distinct" if len({x[0] for x in info}) == len(info) else "duplicate-names"))
        for a in e[3]:
            ctx.count("kernel.arg:" + ("kw" if a[0] is not None else ["pos", "star", "dstar"][a[1]]))
        # add_arg_to_call / update_call_target / update_arg_target on the same call
        root = ("call", True, e[2], e[3])
        which = i % 3
        try:
            _probe = (L.add_arg_to_call(_Dummy(), call, "k9", "x") if which == 0 else
                      L.update_call_target(_Dummy(), call, "a.b") if which == 1 else
                      L.update_arg_target(_Dummy(), call, [cst.Integer("1")]))
        except Exception as ex:
            ctx.mismatch("LibcstResultTransformer kernel vs Model.Args", f"kernel call #{which} raised {type(ex).__name__}: {ex} on {src!r}",
                         {"op": "direct", "call": src, "kind": ["HAddArg", "HTarget", "HLimitReadline"][which]})
            continue
        if which == 0:
            name, val = rng.choice(["timeout", "content_type", "k9"]), rng.choice(["60", '"application/json"', "x.y"])
            out = L.add_arg_to_call(_Dummy(), call, name, val if val != "60" else 60)
            kind = ("HAddArg", name, parse_value(val, tags))
        elif which == 1:
            target = rng.choice(["secrets", "secrets.SystemRandom()", "a.b"])
            out = L.update_call_target(_Dummy(), call, target)
            kind = ("HTarget", parse_value(target, tags))
        else:
            out = L.update_arg_target(_Dummy(), call, [cst.Integer("5_000_000")])
            kind = ("HLimitReadline", ("c", "5_000_000"))
        tree_cases.append("(%s, %s, %s)" % (c_kind(kind), c_expr(root), c_expr(cst_conv(out, tags))))
        tree_meta.append({"call": src, "kind": kind[0], "via": "direct"})
        ctx.count(f"kernel.direct:{kind[0]}")
    bad = core.eval_bad_indices(ctx, "c16_ra", IMPORTS, "ra_case", ra_cases, ["ra_model_ok", "ra_spec_ok"])
    for i in bad["ra_model_ok"]:
        ctx.mismatch("LibcstResultTransformer.replace_args vs Model.Args.replace_args",
                     f"replace_args differs from the model on {ra_meta[i]}", {"op": "replace_args", **ra_meta[i]})
    for i in bad["ra_spec_ok"]:
        ctx.violation("kf_none:replace_args_frame", f"replace_args breaks its frame / token delta on {ra_meta[i]}",
                      {"op": "replace_args", **ra_meta[i], "expected": "C16_replace_args_frame, C16_multiset_delta"})
    bad = core.eval_bad_indices(ctx, "c16_direct", IMPORTS, "tree_case", tree_cases, ["tree_model_ok", "tree_spec_ok"])
    for i in bad["tree_model_ok"]:
        ctx.mismatch(f"LibcstResultTransformer kernel ({tree_meta[i]['kind']}) vs Model.Args",
                     f"kernel call differs from the model on {tree_meta[i]}", {"op": "direct", **tree_meta[i]})
    for i in bad["tree_spec_ok"]:
        m = tree_meta[i]
        if m["kind"] == "HLimitReadline":
            continue      # update_arg_target replaces the list by design; the documented edit is judged on the codemod (below)
        ctx.violation("kf_none:kernel_" + m["kind"], f"kernel call breaks its documented edit on {m}", {"op": "direct", **m})


def gen_trigger_tree(rng, codemod, depth, nest_p):
    """a call the transformer is told to rewrite (mark True), in shapes that suit the codemod, possibly with a selected call inside"""
    def sub(r, d):
        return gen_trigger_tree(r, codemod, d, nest_p * 0.5) if r.random() < nest_p else \
            ("call", False, gen_callee(r), gen_gargs(r, d, CONSTS_CST, []), False)
    must, forbid, callee, max_n, allow_star = [], (), ("a", ("n", "m"), "f"), 6, True
    if codemod == "requests-verify":
        must, callee = [("verify", ("n", "False"))], ("a", ("n", "requests"), rng.choice(["get", "post"]))
    elif codemod == "harden-ruamel":
        must, callee = [("typ", ("c", '"unsafe"'))], ("a", ("a", ("n", "ruamel"), "yaml"), "YAML")
    elif codemod == "enable-jinja2-autoescape":
        callee = ("a", ("n", "jinja2"), "Environment")
        must = [("autoescape", ("n", "False"))] if rng.random() < 0.4 else []
        forbid = ("autoescape",)
    elif codemod == "safe-lxml-parser-defaults":
        callee = ("a", ("a", ("n", "lxml"), "etree"), "XMLParser")
        must = [(k, ("n", rng.choice(["True", "False"]))) for k in ("resolve_entities", "no_network", "dtd_validation") if rng.random() < 0.4]
        forbid = ("resolve_entities", "no_network", "dtd_validation")
    elif codemod == "safe-lxml-parsing":
        callee = ("a", ("a", ("n", "lxml"), "etree"), "parse")
        must = [("parser", ("n", "None"))] if rng.random() < 0.3 else []
        forbid = ("parser",)
    elif codemod == "secure-flask-cookie":
        callee = ("a", ("n", "resp"), "set_cookie")
        for k, vals in (("secure", ["True", "False"]), ("httponly", ["True", "False"]), ("samesite", ["'Strict'", '"Strict"', "'None'", "'Lax'"])):
            if rng.random() < 0.4:
                v = rng.choice(vals)
                must.append((k, ("n", v) if v in ("True", "False") else ("c", v)))
        forbid = ("secure", "httponly", "samesite")
    elif codemod == "upgrade-sslcontext-tls":
        callee = ("a", ("n", "ssl"), "SSLContext")
        r = rng.random()
        if r < 0.3:
            return ("call", True, callee, [dict(kw=None, star=0, eq="", value=("a", ("n", "ssl"), "PROTOCOL_SSLv3"), comma="")], False)
        if r < 0.5:
            must = [("protocol", ("a", ("n", "ssl"), "PROTOCOL_TLSv1"))]
        forbid = ("protocol",)
    elif codemod == "sandbox-process-creation":
        callee = ("a", ("n", "subprocess"), rng.choice(["run", "Popen", "call"]))
    elif codemod == "limit-readline":
        return ("call", True, ("a", ("n", "fh"), "readline"), [], False)
    elif codemod == "replace-flask-send-file":
        callee, max_n = ("a", ("n", "flask"), "send_file"), 5
        args = gen_gargs(rng, 0, CONSTS_CST, must, None, max_n=max_n)
        head = dict(kw=None, star=0, eq="", value=("c", SEND_FILE_PATH), comma=", " if args else "")
        return ("call", True, callee, [head] + args, False)
    elif codemod == "add-requests-timeouts":
        callee, forbid = ("a", ("n", "requests"), "get"), ("timeout",)
    elif codemod == "django-json-response-type":
        callee, forbid = ("n", "HttpResponse"), ("content_type",)
    elif codemod == "secure-random":
        callee = ("a", ("n", "random"), rng.choice(["random", "randint", "shuffle"]))
    elif codemod == "harden-pyyaml":
        callee, max_n = ("a", ("n", "yaml"), "load"), 3
        r = rng.random()
        if r < 0.5:   # the shapes the detector reports: yaml.load(x) / yaml.load(x, yaml.Loader) / yaml.load(x, Loader=yaml.Loader)
            args = [dict(kw=None, star=0, eq="", value=gen_value(rng, depth, CONSTS_CST, sub), comma=", ")]
            k = rng.choice([0, 1, 2])
            if k == 1:
                args.append(dict(kw=None, star=0, eq="", value=("a", ("n", "yaml"), "Loader"), comma=""))
            elif k == 2:
                args.append(dict(kw="Loader", star=0, eq=rng.choice(EQS), value=("a", ("n", "yaml"), "FullLoader"), comma=""))
            else:
                args[0]["comma"] = ""
            return ("call", True, callee, args, False)
    args = gen_gargs(rng, depth, CONSTS_CST, must, sub, max_n=max_n, forbid_kw=forbid, allow_star=allow_star)
    if codemod == "upgrade-sslcontext-tls" and len(args) == 1 and args[0]["star"] != 0:
        args = []   # SSLContext(*a) / SSLContext(**k) is never reported by the detector; the kernel would drop the argument there
    return ("call", True, callee, args, rng.random() < 0.1)


def sendfile_marks(e, path_text):
    """replace-flask-send-file selects by itself: a flask.send_file call whose first argument is the (string-typed) path"""
    def go(x):
        if x[0] == "a":
            return ("a", go(x[1]), x[2])
        if x[0] == "call":
            callee = erase(x[2])
            sel = callee in (("a", ("n", "flask"), "send_file"), ("n", "send_file")) and bool(x[3]) and x[3][0][0] is None \
                and x[3][0][1] == 0 and x[3][0][4] == ("c", path_text)
            return ("call", sel, go(x[2]), [(a[0], a[1], a[2], a[3], go(a[4])) for a in x[3]])
        return x
    return go(e)


def classify_tree(codemod, e, as_written=False, nested_ok=False):
    """finding class of a spec violation observed on input tree `e` (marks = selected calls).  A known class is given only
    when the OBSERVED output is exactly the modelled deviation (`as_written`: output = code-as-written model; `nested_ok`:
    Harness.C16_run.nested_class_ok); any other failure on the same input shape stays unclassified and is reported."""
    if as_written and codemod == "harden-pyyaml":
        for c in calls_of(e):
            if c[1] and len(c[3]) > 2:
                return KF_PYYAML_DROP
        for c in calls_of(e):
            if c[1] and len(c[3]) == 2 and (c[3][1][1] != 0 or c[3][1][0] not in (None, "Loader")
                                            or any(a[0] == "Loader" for a in c[3][:1])):
                return KF_PYYAML_SECOND
    if as_written and codemod == "upgrade-sslcontext-tls" and not nested_selected(e):
        for c in calls_of(e):
            if c[1] and len(c[3]) >= 2 and c[3][0][0] is None and c[3][0][1] == 0 and not any(a[0] == "protocol" for a in c[3]):
                return KF_SSL
    if nested_ok:
        return f"{KF_NESTED}:{codemod}"
    return f"kf_none:{codemod}"


def kernel_transformers(ctx, per_codemod):
    import libcst as cst
    rng, tags = ctx.rng, Tags()
    rows = table_rows(ctx)
    classes = transformer_classes()
    cases, meta = [], []
    work = []   # (codemod, source, selected positions, statement -> marks provider)
    for c in load_corpus():
        if c["codemod"] in classes:
            vals = {st.targets[0].id: ast_conv(st.value, c["selected"]) for st in ast.parse(c["text"]).body
                    if isinstance(st, ast.Assign) and isinstance(st.targets[0], ast.Name)}
            work.append((c["codemod"], c["text"], c["selected"], lambda e, name, vals=vals: copy_marks(e, vals[name])))
    for cm in classes:
        for _ in range(per_codemod):
            g = gen_trigger_tree(rng, cm, 2, 0.25)
            p = Printer()
            p.w("import random\nr0 = ")
            p.emit(g)
            p.w("\n")
            src = p.text()
            work.append((cm, src, {offset_to_pos(src, off) for off, mk in p.calls if mk}, lambda e, name, g=g: apply_marks(e, g)))
    # the star family: `*rest` / `**kw` in every position class, for every transformer
    for cm in classes:
        sample = gen_trigger_tree(rng, cm, 0, 0.0)
        head = [a["value"] for a in sample[3] if a["kw"] is None and a["star"] == 0][:2]
        must = [(a["kw"], a["value"]) for a in sample[3] if a["kw"] is not None][:3]
        for shape_name, fargs in star_family(head, must):
            g = ("call", True, sample[2], fargs, False)
            p = Printer()
            p.w("import random\nr0 = ")
            p.emit(g)
            p.w("\n")
            src = p.text()
            work.append((cm, src, {offset_to_pos(src, off) for off, mk in p.calls if mk}, lambda e, name, g=g: apply_marks(e, g)))
            ctx.count(f"kernel.transformer.star_family:{shape_name}")
    ocases, ometa = [], []
    for cm, src, selected, marks in work:
        kind = kind_for(cm, rows, tags)
        if cm == "replace-flask-send-file":
            # this transformer decides by itself (callee flask.send_file and a string-typed path): every generated call is a site
            selected = set(selected)
        try:
            out, fc = run_transformer(classes[cm], src, selected)
        except Exception as ex:
            # the file would be reported as failed and left untouched: allowed by the property, but the model must predict the raise
            ctx.count(f"kernel.transformer_raised:{cm}:{type(ex).__name__}")
            for name, node in stmt_values_cst(cst.parse_module(src)).items():
                e = marks(cst_conv(node, tags), name)
                if cm == "replace-flask-send-file":
                    e = sendfile_marks(e, SEND_FILE_PATH)
                ocases.append("(%s, %s, %s)" % (c_kind(kind), c_expr(e), core.copt(None, "expr")))
                ometa.append({"codemod": cm, "source": src, "selected": sorted(selected), "raised": f"{type(ex).__name__}: {ex}"})
                ctx.case({"codemod": cm, "source": src, "raised": True}, nontrivial_key=("kt-raise", cm, src))
            continue
        before, after = stmt_values_cst(cst.parse_module(src)), stmt_values_cst(out)
        nchanges = len(fc.codemod_changes)
        for name, node in before.items():
            e = marks(cst_conv(node, tags), name)
            if cm == "replace-flask-send-file":
                e = sendfile_marks(e, SEND_FILE_PATH)
            obs = cst_conv(after[name], tags)
            cases.append("(%s, %s, %s)" % (c_kind(kind), c_expr(e), c_expr(obs)))
            meta.append({"codemod": cm, "source": src, "selected": sorted(selected), "tree": e, "reported_changes": nchanges})
            nt = nested_selected(e) or (len(e[3]) >= 2 and any(a[1] for a in e[3]))
            ctx.case({"codemod": cm, "source": src}, nontrivial_key=("kt", cm, src, name) if nt else None, sample=nested_selected(e))
            ctx.count(f"kernel.transformer:{cm}")
            ctx.count("kernel.transformer.nested_selected:" + str(nested_selected(e)))
    if ocases:
        obad = core.eval_bad_indices(ctx, "c16_kto", IMPORTS, "otree_case", ocases, ["otree_model_ok"])
        for i in obad["otree_model_ok"]:
            m = ometa[i]
            ctx.mismatch(f"{m['codemod']} transformer vs Model.Args.rw", f"transformer raised {m['raised']} on {m['source']!r}; the model rewrites it",
                         {"op": "transformer", "codemod": m["codemod"], "source": m["source"], "selected": m["selected"]})
    bad = core.eval_bad_indices(ctx, "c16_kt", IMPORTS, "tree_case", cases,
                                ["tree_model_ok", "tree_spec_ok", "tree_delta_ok", "as_written_ok", "nested_class_ok"])
    not_aw, not_nested = set(bad["as_written_ok"]), set(bad["nested_class_ok"])
    for i in bad["tree_model_ok"]:
        m = meta[i]
        ctx.mismatch(f"{m['codemod']} transformer vs Model.Args.rw", f"transformer output differs from the model on {m['source']!r}",
                     {"op": "transformer", "codemod": m["codemod"], "source": m["source"], "selected": m["selected"]})
    seen = set()
    for i in sorted(set(bad["tree_spec_ok"]) | set(bad["tree_delta_ok"])):
        m = meta[i]
        cls = classify_tree(m["codemod"], m["tree"], i not in not_aw, i not in not_nested)
        if m["codemod"] == "upgrade-sslcontext-tls" and cls.startswith("kf_none") and i not in not_aw and len(m["tree"][3]) == 1 \
                and m["tree"][3][0][1] != 0:
            continue   # SSLContext(*a) / SSLContext(**k) is never reported by the detector; kernel-only deviation (C16_ssl_frame_partial, star s)
        if m["codemod"] == "limit-readline" and cls.startswith("kf_none") and i not in not_aw:
            continue   # readline(n) is never reported by the detector (pattern `$SINK.readline()`); kernel-only deviation, see C16_limit_readline_overwrites
        if (cls, m["codemod"]) in seen:
            continue
        seen.add((cls, m["codemod"]))
        ctx.violation(cls, f"{m['codemod']}: the rewritten call is not the documented edit of {m['source']!r} "
                           f"({m['reported_changes']} changes reported)",
                      {"op": "transformer", "codemod": m["codemod"], "source": m["source"], "selected": m["selected"],
                       "expected": "Spec.ArgsSpec.rw_spec (documented edit of every selected call, everything else kept)"})


# ------------------------------------------------------------------------------------------------
# (2) end to end
# ------------------------------------------------------------------------------------------------
def ast_conv(node, selected=None):
    """Python `ast` expression -> value; a call is marked when its (line, column) is in `selected`"""
    def go(n):
        if isinstance(n, ast.Name):
            return ("n", n.id)
        if isinstance(n, ast.Constant) and (n.value is True or n.value is False or n.value is None):
            return ("n", repr(n.value))
        if isinstance(n, ast.Attribute):
            return ("a", go(n.value), n.attr)
        if isinstance(n, ast.Call):
            items = []
            for a in n.args:
                if isinstance(a, ast.Starred):
                    items.append(((a.lineno, a.col_offset), (None, 1, 0, 0, go(a.value))))
                else:
                    items.append(((a.lineno, a.col_offset), (None, 0, 0, 0, go(a))))
            for k in n.keywords:
                items.append(((k.lineno, k.col_offset), (k.arg, 0, 0, 0, go(k.value)) if k.arg is not None
                              else (None, 2, 0, 0, go(k.value))))
            items.sort(key=lambda x: x[0])
            return ("call", bool(selected) and (n.lineno, n.col_offset) in selected, go(n.func), [x[1] for x in items])
        return ("c", ast.unparse(n))
    return go(node)


def copy_marks(e, src):
    """marks of `src` onto the same-shaped tree `e`"""
    if e[0] == "a" and src[0] == "a":
        return ("a", copy_marks(e[1], src[1]), e[2])
    if e[0] == "call" and src[0] == "call" and len(e[3]) == len(src[3]):
        return ("call", src[1], copy_marks(e[2], src[2]), [(a[0], a[1], a[2], a[3], copy_marks(a[4], b[4])) for a, b in zip(e[3], src[3])])
    return e


def load_corpus():
    out = []
    d = core.VERIF / "corpus" / "C16"
    for f in sorted(d.glob("*.json")) if d.is_dir() else []:
        c = json.loads(f.read_text())
        c["name"] = f.stem
        c["selected"] = {tuple(x) for x in c["selected"]}
        out.append(c)
    return out


def ast_call_positions(node):
    """(line, column) of every call, in the order of calls_of(ast_conv(node))"""
    out = []

    def go(n):
        if isinstance(n, ast.Attribute):
            go(n.value)
        elif isinstance(n, ast.Call):
            out.append((n.lineno, n.col_offset))
            go(n.func)
            for a in sorted(list(n.args) + list(n.keywords), key=lambda a: (a.lineno, a.col_offset)):
                go(a.value if isinstance(a, (ast.Starred, ast.keyword)) else a)
    go(node)
    return out


def remark(e, flags):
    """the tree with the marks of its calls (order of calls_of) replaced by `flags`"""
    it = iter(flags)

    def go(x):
        if x[0] == "a":
            return ("a", go(x[1]), x[2])
        if x[0] == "call":
            mk = next(it)
            f = go(x[2])
            return ("call", mk, f, [(a[0], a[1], a[2], a[3], go(a[4])) for a in x[3]])
        return x
    return go(e)


def marks_from_report(stmts, positions, got_lines, trigger_callee):
    """Reconcile the generator's intent with the tool's own account (CodeTF change lines): which calls did the tool select?
    Returns (stmts with marks, adjusted?) or None when the report cannot be attributed to calls unambiguously."""
    flat = []   # (stmt index, call index, line, predicted mark, callee is the trigger spelling)
    for si, ((name, e), pos) in enumerate(zip(stmts, positions)):
        cs = calls_of(e)
        if len(cs) != len(pos):
            return None
        for ci, (c, (ln, _)) in enumerate(zip(cs, pos)):
            flat.append([si, ci, ln, bool(c[1]), erase(c[2]) == trigger_callee])
    lines = {}
    for row in flat:
        lines.setdefault(row[2], []).append(row)
    if any(ln not in lines for ln in got_lines):
        return None
    adjusted = False
    for ln, rows in lines.items():
        k, p = got_lines.count(ln), sum(1 for r in rows if r[3])
        if k == p:
            continue
        adjusted = True
        trig = [r for r in rows if r[4]]
        if k == len(rows):
            for r in rows:
                r[3] = True
        elif k == 0:
            for r in rows:
                r[3] = False
        elif k == len(trig):
            for r in rows:
                r[3] = r[4]
        else:
            return None
    out = []
    for si, (name, e) in enumerate(stmts):
        out.append((name, remark(e, [r[3] for r in flat if r[0] == si])))
    return out, adjusted


def ast_value(text):
    return ast_conv(ast.parse(text, mode="eval").body)


def g_name(path):
    parts = path.split(".")
    g = ("n", parts[0])
    for p in parts[1:]:
        g = ("a", g, p)
    return g


# per codemod: import header variants -> callee spellings; trigger / non-trigger argument recipes
E2E = {
    "requests-verify": dict(
        variants=[("import requests\n", "requests.get"), ("import requests\n", "requests.post"), ("import requests as rq\n", "rq.get"),
                  ("from requests import get\n", "get")],
        must=lambda r: [("verify", ("n", "False"))], forbid=(), nontrigger_must=lambda r: [("verify", ("n", "True"))],
        nest_attr="text", imports_added=[], semgrep=True),
    "harden-ruamel": dict(
        variants=[("import ruamel.yaml\n", "ruamel.yaml.YAML"), ("from ruamel import yaml\n", "yaml.YAML")],
        must=lambda r: [("typ", ("c", r.choice(["'unsafe'", "'base'"])))], forbid=(), nontrigger_must=lambda r: [("typ", ("c", "'rt'"))],
        nest_attr="x", imports_added=[], semgrep=True, allow_star=False),
    "enable-jinja2-autoescape": dict(
        variants=[("import jinja2\n", "jinja2.Environment"), ("from jinja2 import Environment\n", "Environment")],
        must=lambda r: [("autoescape", ("n", "False"))] if r.random() < 0.4 else [], forbid=("autoescape",),
        nontrigger_must=lambda r: [("autoescape", ("n", "True"))], nest_attr="loader", imports_added=[], semgrep=True, no_dstar_only=True),
    "safe-lxml-parser-defaults": dict(
        variants=[("import lxml.etree\n", "lxml.etree.XMLParser"), ("from lxml import etree\n", "etree.XMLParser"),
                  ("import lxml.etree\n", "lxml.etree.ETCompatXMLParser")],
        must=lambda r: [(k, ("n", r.choice(["True", "False"]))) for k in ("no_network", "dtd_validation") if r.random() < 0.4]
        + ([("resolve_entities", ("n", "True"))] if r.random() < 0.3 else []),
        forbid=("resolve_entities", "no_network", "dtd_validation"), nontrigger_must=lambda r: [("resolve_entities", ("n", "False"))],
        nest_attr="target", imports_added=[], semgrep=True),
    "safe-lxml-parsing": dict(
        variants=[("import lxml.etree\n", "lxml.etree.parse"), ("import lxml.etree\n", "lxml.etree.fromstring")],
        must=lambda r: [("parser", ("n", "None"))] if r.random() < 0.3 else [], forbid=("parser",),
        nontrigger_must=lambda r: [("parser", ("n", "myparser"))], nest_attr="docinfo", imports_added=["import lxml.etree"], semgrep=True,
        min_pos=1),
    "add-requests-timeouts": dict(
        variants=[("import requests\n", "requests.get"), ("import requests\n", "requests.post"), ("import requests as rq\n", "rq.put")],
        must=lambda r: [], forbid=("timeout",), nontrigger_must=lambda r: [("timeout", ("c", "5"))],
        nest_attr="text", imports_added=[], semgrep=True),
    "upgrade-sslcontext-tls": dict(
        variants=[("import ssl\n", "ssl.SSLContext")],
        must=lambda r: [("protocol", g_name("ssl." + r.choice(["PROTOCOL_SSLv2", "PROTOCOL_TLSv1", "PROTOCOL_TLS"])))],
        forbid=("protocol",), nontrigger_must=lambda r: [("protocol", g_name("ssl.PROTOCOL_TLS_CLIENT"))],
        nest_attr="options", imports_added=["import ssl"], semgrep=True, only_must=True,
        extra_shapes=lambda r: r.choice([[], [dict(kw=None, star=0, eq="", comma="", value=g_name("ssl.PROTOCOL_SSLv3"))],
                                         [dict(kw=None, star=0, eq="", comma=", ", value=g_name("ssl.PROTOCOL_SSLv3")),
                                          dict(kw=None, star=2, eq="", comma="", value=("n", "opts"))]])),
    "sandbox-process-creation": dict(
        variants=[("import subprocess\n", "subprocess.run"), ("import subprocess\n", "subprocess.Popen"), ("import subprocess\n", "subprocess.call")],
        must=lambda r: [], forbid=(), nontrigger_must=None, nest_attr="args",
        imports_added=["from security import safe_command"], semgrep=True, first_pos=lambda r: ("n", r.choice(["cmd", "argv"]))),
    "secure-random": dict(
        variants=[("import random\n", "random.random"), ("import random\n", "random.randint"), ("import random\n", "random.choice")],
        must=lambda r: [], forbid=(), nontrigger_must=None, nest_attr="real", imports_added=["import secrets"], imports_removed=["import random"],
        semgrep=True),
    "url-sandbox": dict(
        variants=[("import requests\n", "requests.get")],
        must=lambda r: [], forbid=(), nontrigger_must=None, nest_attr="text", imports_added=["from security import safe_requests"],
        imports_removed=["import requests"], semgrep=True, first_pos=lambda r: ("n", r.choice(["url", "target"]))),
    "harden-pyyaml": dict(
        variants=[("import yaml\n", "yaml.load")], must=lambda r: [], forbid=(), nontrigger_must=None, nest_attr="x", imports_added=["import yaml"],
        semgrep=True, only_must=True,
        extra_shapes=lambda r: r.choice([
            [dict(kw=None, star=0, eq="", comma="", value=("n", "data"))],
            [dict(kw=None, star=0, eq="", comma=", ", value=("n", "data")), dict(kw=None, star=0, eq="", comma="", value=g_name("yaml.Loader"))],
            [dict(kw=None, star=0, eq="", comma=", ", value=("n", "data")), dict(kw="Loader", star=0, eq=" = ", comma="", value=g_name("yaml.FullLoader"))],
            [dict(kw="stream", star=0, eq="=", comma=", ", value=("n", "data")), dict(kw="Loader", star=0, eq="=", comma="", value=g_name("yaml.UnsafeLoader"))],
            [dict(kw="Loader", star=0, eq="=", comma=", ", value=g_name("yaml.Loader")), dict(kw="stream", star=0, eq="=", comma="", value=("n", "data"))],
            [dict(kw=None, star=0, eq="", comma=", ", value=("n", "data")), dict(kw=None, star=0, eq="", comma=", ", value=g_name("yaml.Loader")),
             dict(kw=None, star=0, eq="", comma="", value=("n", "extra"))],
        ])),
    "jwt-decode-verify": dict(
        variants=[("import jwt\n", "jwt.decode"), ("import jwt as pyjwt\n", "pyjwt.decode"), ("from jwt import decode\n", "decode")],
        must=lambda r: _jwt_must(r, True), forbid=("verify", "options"), nontrigger_must=lambda r: _jwt_must(r, False),
        nest_attr="x", imports_added=[], semgrep=True, first_two=lambda r: [("n", "token"), ("n", "key")]),
    "replace-flask-send-file": dict(
        variants=[("import flask\n", "flask.send_file"), ("from flask import send_file\n", "send_file")],
        must=lambda r: [], forbid=(), nontrigger_must=None, nest_attr="x",
        imports_added=["import flask", "from pathlib import Path"], imports_removed=["from flask import send_file"], semgrep=False,
        first_pos=lambda r: ("c", SEND_FILE_PATH), one_stmt_family=True),
    "subprocess-shell-false": dict(
        variants=[("import subprocess\n", "subprocess.run"), ("import subprocess as sp\n", "sp.check_output"), ("from subprocess import Popen\n", "Popen")],
        must=lambda r: [("shell", ("n", "True"))], forbid=(), nontrigger_must=lambda r: [("shell", ("n", "False"))], nest_attr="args",
        imports_added=[], semgrep=False, first_pos=lambda r: ("n", r.choice(["cmd", "argv"]))),
    "fix-math-isclose": dict(
        variants=[("import math\n", "math.isclose"), ("from math import isclose\n", "isclose")],
        must=lambda r: [("abs_tol", ("c", "0"))] if r.random() < 0.3 else [], forbid=("abs_tol",),
        nontrigger_must=lambda r: [("abs_tol", ("c", "0.5"))], nest_attr="real", imports_added=[], semgrep=False,
        first_two=lambda r: [("n", r.choice(["x", "y"])), ("c", "0")], allow_star=False),
    "use-defusedxml": dict(
        variants=[("import xml.etree.ElementTree\n", "xml.etree.ElementTree.parse"), ("from xml.etree import ElementTree\n", "ElementTree.fromstring"),
                  ("from xml.dom.minidom import parseString\n", "parseString")],
        must=lambda r: [], forbid=(), nontrigger_must=None, nest_attr="x", imports_added=["import defusedxml.ElementTree", "import defusedxml.minidom"],
        imports_removed=["import xml.etree.ElementTree", "from xml.etree import ElementTree", "from xml.dom.minidom import parseString"], semgrep=False),
    "harden-pickle-load": dict(
        variants=[("import pickle\n", "pickle.load")], must=lambda r: [], forbid=(), nontrigger_must=None, nest_attr="x",
        imports_added=["import fickling"], imports_removed=["import pickle"], semgrep=False),
}

def _jwt_must(r, trigger):
    from harness.c16_jwt import gen_dict_text
    if not trigger:
        return [("verify", ("n", "True"))] + ([("options", ("c", r.choice(["{'leeway': 10}", "{'verify_exp': True, 'require': ['exp']}", "{}"])))]
                                               if r.random() < 0.5 else [])
    if r.random() < 0.25:    # selected through the options pattern only (semgrep does not match a dict with a spread there)
        return [("options", ("c", gen_dict_text(r, ast_mode=True, spread_p=0.0, force_verify_false=True)))]
    return [("verify", ("n", "False"))] + ([("options", ("c", gen_dict_text(r, ast_mode=True, spread_p=0.35 if r.random() < 0.2 else 0.0)))] if r.random() < 0.75 else [])


SWAP = {  # callee swaps of the ImportedCallModifier codemods: spelled callee -> (target, name)
    "url-sandbox": {"requests.get": ("safe_requests", "get")},
    "harden-pickle-load": {"pickle.load": ("fickling", "load")},
    "use-defusedxml": {"xml.etree.ElementTree.parse": ("defusedxml.ElementTree", "parse"),
                       "ElementTree.fromstring": ("defusedxml.ElementTree", "fromstring"),
                       "parseString": ("defusedxml.minidom", "parseString")},
}


def e2e_kind(codemod, rows, callee):
    if codemod == "replace-flask-send-file":
        return kind_for(codemod, rows, ast_mode=True)
    if codemod in SWAP:
        t, n = SWAP[codemod][callee]
        return ("HSwapCallee", ast_value(t), n)
    if codemod == "secure-random":
        return ("HTarget", ast_value("secrets" if callee == "random.choice" else "secrets.SystemRandom()"))
    return kind_for(codemod, rows, ast_mode=True)


def gen_e2e_call(rng, codemod, spec, callee, trigger, depth, nest_p):
    def sub(r, d):
        if trigger and r.random() < nest_p:
            return ("a", gen_e2e_call(r, codemod, spec, callee, True, d, 0.0), spec["nest_attr"])
        return ("call", False, gen_callee(r), gen_gargs(r, 0, CONSTS_AST, []), False)
    if trigger and spec.get("extra_shapes") and (spec.get("only_must") or rng.random() < 0.5):
        if spec.get("only_must") and rng.random() < 0.4:
            args = [dict(kw=k, star=0, eq=rng.choice(EQS), comma="", value=v) for k, v in spec["must"](rng)]
        else:
            args = [dict(a) for a in spec["extra_shapes"](rng)]
        return ("call", True, g_name(callee), args, False)
    must = spec["must"](rng) if trigger else spec["nontrigger_must"](rng)
    args = gen_gargs(rng, depth, CONSTS_AST, must, sub, max_n=5, forbid_kw=spec["forbid"], allow_star=spec.get("allow_star", True))
    head = []
    if spec.get("first_pos"):
        head = [spec["first_pos"](rng)]
    elif spec.get("first_two"):
        head = spec["first_two"](rng)
    elif spec.get("min_pos") and not any(a["kw"] is None and a["star"] == 0 for a in args[:1]):
        head = [("n", "src")]
    if head:
        args = [dict(kw=None, star=0, eq="", comma=", ", value=v) for v in head] + args
        args[-1]["comma"] = "" if len(args) == len(head) else args[-1]["comma"]
        if len(args) == len(head):
            args[-1]["comma"] = ""
    if spec.get("no_dstar_only") and len(args) == 1 and args[0]["star"] == 2:
        args = []
    for i, a in enumerate(args):
        if i == len(args) - 1:
            a["comma"] = ""
        elif not a["comma"]:
            a["comma"] = ", "
    return ("call", bool(trigger), g_name(callee), args, False)


def e2e_family_parts(rng, codemod, spec):
    """(head positionals, trigger keywords) of a codemod's trigger call, for star_family"""
    if codemod == "harden-pyyaml":
        return [("n", "data")], [("Loader", g_name("yaml.Loader"))]
    head = []
    if spec.get("first_pos"):
        head = [spec["first_pos"](rng)]
    elif spec.get("first_two"):
        head = spec["first_two"](rng)
    elif spec.get("min_pos"):
        head = [("n", "src")]
    return head, spec["must"](rng)


def gen_e2e_file(rng, codemod, spec, family=None):
    header, callee = rng.choice(spec["variants"])
    if family is not None:
        # one statement per position class of `*rest` / `**kw` around the arguments the codemod touches
        p = Printer()
        p.w(header)
        p.w("import os\n\n")
        stmts = []
        head, must = e2e_family_parts(rng, codemod, spec)
        shapes = star_family(head, must)
        pick = shapes[family::2] if not spec.get("one_stmt_family") else shapes[family:family + 1]
        for i, (shape_name, fargs) in enumerate(pick):
            g = ("call", True, g_name(callee), fargs, False)
            p.w(f"v{i} = ")
            p.emit(g)
            p.w("\n")
            stmts.append((f"v{i}", g))
        p.w("print(os.getcwd())\n")
        return header, callee, p.text(), stmts, p.calls
    p = Printer()
    p.w(header)
    p.w("import os\n\n")
    stmts = []   # (name, G, trigger-line-set)
    n = rng.choice([2, 3, 4, 5])
    p.w("def helper(a, b=2):\n    return os.path.join(a, str(b))\n\n")
    for i in range(n):
        trig = rng.random() < 0.7 or spec["nontrigger_must"] is None
        g = gen_e2e_call(rng, codemod, spec, callee, trig, 1, 0.25 if codemod in NESTABLE else 0.0)
        p.w(f"v{i} = ")
        p.emit(g)
        p.w("\n")
        stmts.append((f"v{i}", g))
        if rng.random() < 0.4:
            p.w(f"w{i} = helper(v{i}, b={i})\n")
    p.w("print(os.getcwd())\n")
    return header, callee, p.text(), stmts, p.calls


NESTABLE = {"requests-verify", "add-requests-timeouts", "sandbox-process-creation", "safe-lxml-parser-defaults", "enable-jinja2-autoescape",
            "secure-random", "subprocess-shell-false"}


def split_module(text):
    """(imports dumps list, {target: value node}, other statement dumps)"""
    tree = ast.parse(text)
    imports, vals, others = [], {}, []
    for st in tree.body:
        if isinstance(st, (ast.Import, ast.ImportFrom)):
            imports.append(ast.unparse(st))
        elif isinstance(st, ast.Assign) and len(st.targets) == 1 and isinstance(st.targets[0], ast.Name) and re.fullmatch(r"v\d+", st.targets[0].id):
            vals[st.targets[0].id] = st.value
        else:
            others.append(ast.dump(st))
    return imports, vals, others


def e2e_project(ctx, codemod, spec, nfiles, tag):
    rng = ctx.rng
    root = ctx.scratch / f"e2e-{codemod}-{tag}"
    files = {}
    metas = {}
    nfam = 10 if spec.get("one_stmt_family") else 2     # a raising statement fails its whole file: one family shape per file there
    for i in range(max(nfiles, nfam + 4)):
        if spec.get("one_stmt_family") and i >= nfam:
            spec = dict(spec, allow_star=(i % 2 == 0))      # half of the ordinary files without any starred argument
        header, callee, text, stmts, calls = gen_e2e_file(rng, codemod, spec, family=i if i < nfam else None)
        if i < nfam:
            ctx.count(f"e2e.star_family_files:{codemod}")
        files[f"m{i}.py"] = text
        metas[f"m{i}.py"] = (header, callee, text, stmts, calls)
    for c in load_corpus():
        if c["codemod"] == codemod and c.get("e2e", True):
            files[f"corpus_{c['name']}.py"] = c["text"]
            metas[f"corpus_{c['name']}.py"] = ("corpus", c)
    core.write_tree(root, files)
    return root, files, metas


def e2e(ctx, codemods, nfiles, tag="a"):
    rows = table_rows(ctx)
    projects = []
    for cm in codemods:
        root, files, metas = e2e_project(ctx, cm, E2E[cm], nfiles, tag)
        projects.append((cm, root, files, metas))

    walls = []

    def run(p):
        cm, root, files, metas = p
        out = root.parent / (root.name + ".codetf.json")
        r = core.run_cli([str(root), "--codemod-include", f"pixee:python/{cm}", "--output", str(out)])
        rep = json.loads(out.read_text()) if out.exists() else None
        walls.append((cm, round(r["wall"], 1)))
        return cm, r, rep

    with concurrent.futures.ThreadPoolExecutor(max_workers=12) as ex:
        results = list(ex.map(run, projects))
    ctx.cli_runs += len(results)
    ctx.notes.append("e2e CLI wall times: " + ", ".join(f"{c} {w}s" for c, w in walls))

    from harness import c16_jwt
    cases, meta, jcases, jmeta, ocases, ometa = [], [], [], [], [], []
    for (cm, root, files, metas), (_, r, rep) in zip(projects, results):
        if r["rc"] != 0 or rep is None:
            ctx.mismatch(f"CLI run of {cm}", f"exit status {r['rc']}: {r['stderr'][-400:]}", {"op": "e2e", "codemod": cm, "project": core.b64tree(files)})
            continue
        changes = {}
        for res in rep.get("results", []):
            for cs in res.get("changeset", []):
                changes[cs["path"]] = sorted(c["lineNumber"] for c in cs["changes"])
        spec = E2E[cm]
        failed = {Path(f).name for res in rep.get("results", []) for f in (res.get("failedFiles") or [])}
        for rel, before in files.items():
            after = (root / rel).read_text()
            m = metas[rel]
            ctx.count(f"e2e.files:{cm}")
            if isinstance(m, tuple) and m[0] == "corpus":
                c = m[1]
                stmts = [(st.targets[0].id, ast_conv(st.value, c["selected"])) for st in ast.parse(before).body
                         if isinstance(st, ast.Assign) and isinstance(st.targets[0], ast.Name) and re.fullmatch(r"v\d+", st.targets[0].id)]
                callee = c.get("callee", "")
                pred_lines = sorted(ln for ln, _ in c["selected"])
                text, gstmts, calls = before, [], []
            else:
                header, callee, text, gstmts, calls = m
                _, bvals, _ = split_module(before)
                stmts = [(name, apply_marks(ast_conv(bvals[name]), g)) for name, g in gstmts]
                pred_lines = sorted(offset_to_pos(text, off)[0] for off, mk in calls if mk)
            if cm == "replace-flask-send-file":
                stmts = [(name, sendfile_marks(e, ast.unparse(ast.parse(SEND_FILE_PATH, mode="eval").body))) for name, e in stmts]
                bn = {st.targets[0].id: st.value for st in ast.parse(before).body
                      if isinstance(st, ast.Assign) and isinstance(st.targets[0], ast.Name)}
                pred_lines = sorted(ln for name, e in stmts for c, (ln, _) in zip(calls_of(e), ast_call_positions(bn[name])) if c[1])
            got_lines = changes.get(rel, [])
            if rel in failed:
                # the transformer raised: the file is reported as failed.  The property allows that ("untouched"), but the file must be
                # byte-identical, and the model must predict the raise (otherwise the tie is broken)
                ctx.count(f"e2e.failed_file:{cm}")
                if after != before:
                    ctx.violation(f"kf_none:{cm}:failed_file_modified", f"{cm}: {rel} is reported as failed but was modified",
                                  {"op": "e2e", "codemod": cm, "project": core.b64tree({rel: before}), "after": after})
                if cm != "jwt-decode-verify":
                    ftree = ("call", False, ("n", "__file__"), [(None, 0, 0, 0, e) for _, e in stmts])
                    ocases.append("(%s, %s, %s)" % (c_kind(e2e_kind(cm, rows, callee)), c_expr(ftree), core.copt(None, "expr")))
                    ometa.append({"codemod": cm, "file": rel, "before": before, "after": after})
                    ctx.case({"codemod": cm, "file": rel, "failed": True}, nontrivial_key=("e2e-failed", cm, before))
                    continue
            if cm == "jwt-decode-verify" and rel in failed and not c16_jwt.file_raises(stmts):
                ctx.mismatch("jwt-decode-verify end to end vs Model.JwtOpts", f"{rel} is listed under failedFiles but no selected call has a `**spread` options entry",
                             {"op": "e2e", "codemod": cm, "project": core.b64tree({rel: before}), "after": after})
                continue
            if cm == "jwt-decode-verify" and c16_jwt.file_raises(stmts) and after == before and not got_lines:
                # a `**spread` entry in the options dict of a selected call: the transformer raises, the file is left untouched
                ctx.count("e2e.jwt.raised_file_untouched")
                for name, e in stmts:
                    d = c16_jwt.options_dict(e) if e[1] else None
                    if d is not None and any(x[0] == "spread" for x in d):
                        jcases.append("(%s, %s)" % (c16_jwt.c_delems(d), core.copt(None, "list delem")))
                        jmeta.append({"codemod": cm, "file": rel, "stmt": name, "before": before, "after": after})
                        ctx.case({"codemod": cm, "file": rel, "stmt": name}, nontrivial_key=("e2e-jwt-raise", before, name))
                continue
            if pred_lines != got_lines:
                # the tool selected other calls than the generator intended.  The detector's verdict is an input of the model, so the
                # marks are taken from the tool's own account (the report) and the file IS judged: a call the tool changed without
                # reporting it, or changed beyond the documented edit, then shows up as a spec violation ("and nothing else").
                bnodes = {st.targets[0].id: st.value for st in ast.parse(before).body
                          if isinstance(st, ast.Assign) and isinstance(st.targets[0], ast.Name)}
                rec = marks_from_report(stmts, [ast_call_positions(bnodes[name]) for name, _ in stmts], got_lines,
                                        erase(ast_conv(ast.parse(callee, mode="eval").body)) if callee else None)
                if rec is None:
                    ctx.count(f"e2e.report_not_attributable:{cm}")
                    ctx.mismatch(f"{cm} end to end: report vs generated calls",
                                 f"{rel}: generator expected changes on lines {pred_lines}, report lists {got_lines}; the reported lines cannot "
                                 f"be attributed to calls unambiguously, so the file cannot be judged (coverage lost)",
                                 {"op": "e2e", "codemod": cm, "project": core.b64tree({rel: before}), "after": after})
                    continue
                stmts, adjusted = rec
                ctx.count(f"e2e.marks_from_report:{cm}")
                if len(ctx.notes) < 12:
                    ctx.notes.append(f"{cm}/{rel}: generator expected changes on lines {pred_lines}, report lists {got_lines}: marks taken from the report")
            try:
                aimports, avals, aothers = split_module(after)
            except SyntaxError as ex:
                ctx.violation(f"kf_none:{cm}:syntax", f"{cm} wrote a file that does not parse: {ex}", {"op": "e2e", "codemod": cm, "project": core.b64tree({rel: before})})
                continue
            bimports, _, bothers = split_module(before)
            # everything outside the rewritten calls
            if aothers != bothers:
                ctx.violation(f"kf_none:{cm}:outside", f"{cm} changed a statement outside the selected calls in {rel}",
                              {"op": "e2e", "codemod": cm, "project": core.b64tree({rel: before}), "after": after})
            changed = bool(got_lines)
            added = [i for i in aimports if i not in bimports]
            removed = [i for i in bimports if i not in aimports]
            if any(i not in spec["imports_added"] for i in added) or any(i not in spec.get("imports_removed", []) for i in removed) \
                    or (not changed and (added or removed)):
                ctx.violation(f"kf_none:{cm}:imports", f"{cm}: import delta +{added} -{removed} is not the documented one in {rel}",
                              {"op": "e2e", "codemod": cm, "project": core.b64tree({rel: before}), "after": after})
            kind = e2e_kind(cm, rows, callee)
            for name, e in stmts:
                if name not in avals:
                    ctx.violation(f"kf_none:{cm}:outside", f"{cm}: statement {name} disappeared from {rel}", {"op": "e2e", "codemod": cm, "project": core.b64tree({rel: before})})
                    continue
                obs = ast_conv(avals[name])
                if cm == "jwt-decode-verify" and e[0] == "call" and e[1]:
                    d = c16_jwt.options_dict(e)
                    if d is not None:
                        od = c16_jwt.options_dict(obs) if obs[0] == "call" else None
                        jcases.append("(%s, %s)" % (c16_jwt.c_delems(d), core.copt(c16_jwt.c_delems(od or []), "list delem")))
                        jmeta.append({"codemod": cm, "file": rel, "stmt": name, "before": before, "after": after})
                        ctx.count("e2e.jwt.options_dict:" + ("with-spread" if any(x[0] == "spread" for x in d) else "no-spread"))
                        e, obs = c16_jwt.strip_options(e), (c16_jwt.strip_options(obs) if obs[0] == "call" else obs)
                cases.append("(%s, %s, %s)" % (c_kind(kind), c_expr(e), c_expr(obs)))
                meta.append({"codemod": cm, "file": rel, "stmt": name, "before": before, "after": after, "tree": e})
                nt = nested_selected(e) or (has_marked(e) and len(e[3]) >= 2 and (any(a[1] for a in e[3]) or True))
                ctx.case({"codemod": cm, "stmt": ast.unparse(ast.parse(before).body[0])[:0] + name, "file": rel},
                         nontrivial_key=("e2e", cm, before, name) if nt else None, sample=nested_selected(e))
                ctx.count(f"e2e.calls:{cm}:" + ("selected" if has_marked(e) else "not-selected"))
                if nested_selected(e):
                    ctx.count(f"e2e.nested_selected:{cm}")
    for cm in codemods:
        if not any(k.startswith(f"e2e.calls:{cm}:selected") for k in ctx.dist) and not ctx.dist.get("e2e.jwt.raised_file_untouched" if cm == "jwt-decode-verify" else "-"):
            ctx.mismatch(f"{cm} end to end: coverage", f"no selected call of {cm} was judged in this run (detector stopped matching the generated triggers, "
                         f"or every file was skipped)", {"op": "e2e-coverage", "codemod": cm})
    if ocases:
        obad = core.eval_bad_indices(ctx, "c16_e2eo", IMPORTS, "otree_case", ocases, ["otree_model_ok"])
        for i in obad["otree_model_ok"]:
            m = ometa[i]
            ctx.mismatch(f"{m['codemod']} end to end vs Model.Args.rw", f"{m['file']} is listed under failedFiles (the transformer raised); the model rewrites it",
                         {"op": "e2e", "codemod": m["codemod"], "project": core.b64tree({m["file"]: m["before"]}), "after": m["after"]})
    if jcases:
        jbad = core.eval_bad_indices(ctx, "c16_e2ej", IMPORTS, "jwt_case", jcases, ["jwt_ast_model_ok", "jwt_spec_ok"])
        for i in jbad["jwt_ast_model_ok"]:
            m = jmeta[i]
            ctx.mismatch("jwt-decode-verify end to end vs Model.JwtOpts.replace_opts_dict", f"options dict of {m['file']}:{m['stmt']} differs from the model",
                         {"op": "e2e", "codemod": m["codemod"], "project": core.b64tree({m["file"]: m["before"]}), "after": m["after"], "stmt": m["stmt"]})
        for i in jbad["jwt_spec_ok"][:1]:
            m = jmeta[i]
            ctx.violation(c16_jwt.KF_JWT, f"jwt-decode-verify: entries of the options dict of {m['file']}:{m['stmt']} were not preserved",
                          {"op": "e2e", "codemod": m["codemod"], "project": core.b64tree({m["file"]: m["before"]}), "after": m["after"], "stmt": m["stmt"],
                           "expected": "Spec.JwtOptsSpec.spec_opts: only the verify_* values become True; every other entry, `**spread` included, is kept in order"})
    bad = core.eval_bad_indices(ctx, "c16_e2e", IMPORTS, "tree_case", cases,
                                ["ast_model_ok", "tree_spec_ok", "tree_delta_ok", "as_written_ok", "nested_class_ok"])
    not_aw, not_nested = set(bad["as_written_ok"]), set(bad["nested_class_ok"])
    for i in bad["ast_model_ok"]:
        m = meta[i]
        ctx.mismatch(f"{m['codemod']} end to end vs Model.Args.rw", f"{m['file']}:{m['stmt']} differs from the model",
                     {"op": "e2e", "codemod": m["codemod"], "project": core.b64tree({m["file"]: m["before"]}), "after": m["after"], "stmt": m["stmt"]})
    seen = set()
    for i in sorted(set(bad["tree_spec_ok"]) | set(bad["tree_delta_ok"])):
        m = meta[i]
        cls = classify_tree(m["codemod"], m["tree"], i not in not_aw, i not in not_nested)
        if (cls, m["codemod"]) in seen:
            continue
        seen.add((cls, m["codemod"]))
        ctx.violation(cls, f"{m['codemod']}: {m['file']}:{m['stmt']} is not the documented edit (arguments of a selected call lost, "
                           f"left unfixed, or tokens outside the documented delta)",
                      {"op": "e2e", "codemod": m["codemod"], "project": core.b64tree({m["file"]: m["before"]}), "after": m["after"], "stmt": m["stmt"],
                       "expected": "Spec.ArgsSpec.rw_spec / C16_multiset_delta_tree_partial"})


# ------------------------------------------------------------------------------------------------
def check_tables(ctx):
    """Tables.newargs_expr (translator, via `ast`) against libcst's own parse of the same texts (Tables.newargs)"""
    tags = Tags()
    cases, names = [], []
    for name, entries in table_rows(ctx).items():
        info = [(n, ("c", v) if v.startswith("$") else erase(parse_value(v, tags)), a) for n, v, a in entries]
        cases.append("(%s, %s)" % (cstr(name), clist([c_newarg(x) for x in info], "newarg")))
        names.append(name)
    if not cases:
        ctx.tie_broken.append("translator: Tables.newargs is empty")
        return
    bad = core.eval_bad_indices(ctx, "c16_tab", IMPORTS, "table_case", cases, ["table_ok"])
    for i in bad["table_ok"]:
        ctx.mismatch("Tables.newargs_expr vs libcst parse of Tables.newargs", f"row {names[i]} differs", {"op": "table", "row": names[i]})


def run(ctx: core.Ctx):
    quick = ctx.quick()
    deep = getattr(ctx, "deep", False)
    check_tables(ctx)
    kernel_direct(ctx, (300 if quick else 3000) * (3 if deep else 1), exhaustive=not quick)
    kernel_transformers(ctx, (25 if quick else 250) * (3 if deep else 1))
    from harness import c16_jwt
    c16_jwt.kernel(ctx, (150 if quick else 1500) * (3 if deep else 1))
    codemods = list(E2E)
    e2e(ctx, codemods, 14 if quick else 40)
    if not quick or deep:
        e2e(ctx, codemods, 40, tag="b")


def replay(ctx, body):
    op = body.get("op")
    if op == "replace_args":
        import libcst as cst
        from codemodder.codemods.libcst_transformer import LibcstResultTransformer as L, NewArg
        call = cst.parse_expression(body["call"])
        new = L.replace_args(_Dummy(), call, [NewArg(*x) for x in body["newargs"]])
        print("replace_args(", body["call"], ",", body["newargs"], ") =", cst.Module([]).code_for_node(call.with_changes(args=new)))
        return 0
    if op == "jwt_dict":
        import libcst as cst
        from core_codemods.jwt_decode_verify import JwtDecodeVerifyTransformer as J
        node = cst.parse_expression(body["dict"])
        try:
            print("input :", body["dict"], "\noutput:", cst.Module([]).code_for_node(node.with_changes(elements=J._replace_opts_dict(None, node))))
        except AttributeError as ex:
            print("input :", body["dict"], "\nraises:", ex, "(file left untouched)")
        print("expected:", body.get("expected"))
        return 0
    if op == "transformer":
        out, fc = run_transformer(transformer_classes()[body["codemod"]], body["source"], {tuple(x) for x in body["selected"]})
        print("input :", body["source"].strip())
        print("output:", out.code.strip())
        print("changes reported:", len(fc.codemod_changes), "| expected:", body.get("expected"))
        return 0
    if op == "e2e":
        files = core.unb64tree(body["project"])
        root = ctx.scratch / "replay"
        core.write_tree(root, files)
        r = core.run_cli([str(root), "--codemod-include", f"pixee:python/{body['codemod']}", "--output", str(ctx.scratch / "r.json")])
        print("exit status", r["rc"])
        for rel in files:
            print(f"--- {rel} before\n{files[rel].decode()}--- after (now)\n{(root / rel).read_text()}")
        if "after" in body:
            print("--- after (recorded)\n" + body["after"])
        print("expected:", body.get("expected"))
        return 0
    print(json.dumps(body, indent=1)[:2000])
    return 0
