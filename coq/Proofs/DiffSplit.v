(** str.splitlines(keepends=True): joining the lines gives the text back, and a text without exotic
    line boundaries (finding class kf_exotic_linebreak) splits into an lf-clean line list. *)
From CM Require Import Spec.DiffSpec Proofs.DiffFacts.
Local Open Scope N_scope.

Lemma splitlines_concat_n n : forall t cur, (length t <= n)%nat -> concat (splitlines_from cur t) = rev cur ++ t.
Proof.
  induction n as [|n IH]; intros t cur Hn.
  - destruct t; [|cbn in Hn; lia]. cbn. destruct cur; [reflexivity|]. cbn [concat]. rewrite !app_nil_r. reflexivity.
  - destruct t as [|c t']; [cbn; destruct cur; [reflexivity|]; cbn [concat]; rewrite !app_nil_r; reflexivity|].
    cbn [length] in Hn. cbn [splitlines_from].
    assert (Fin : forall t2 l, (length t2 <= n)%nat -> forall x, x = rev l ++ t2 -> concat (rev l :: splitlines_from [] t2) = x).
    { intros t2 l H2 x ->. cbn [concat]. rewrite IH by exact H2. reflexivity. }
    destruct (c =? 13) eqn:E13.
    + apply N.eqb_eq in E13. subst c. destruct t' as [|d t''].
      * cbn [concat rev]. rewrite app_nil_r. reflexivity.
      * cbn [length] in Hn. destruct (d =? 10) eqn:E10.
        -- apply N.eqb_eq in E10. subst d. apply Fin; [lia|]. cbn [rev]. rewrite <- !app_assoc. reflexivity.
        -- apply Fin; [cbn [length]; lia|]. cbn [rev]. rewrite <- !app_assoc. reflexivity.
    + destruct (is_break c).
      * apply Fin; [lia|]. cbn [rev]. rewrite <- !app_assoc. reflexivity.
      * rewrite IH by lia. cbn [rev]. rewrite <- app_assoc. reflexivity.
Qed.
Lemma splitlines_concat t : concat (splitlines_keepends t) = t.
Proof. unfold splitlines_keepends. rewrite (splitlines_concat_n (length t)); [reflexivity|lia]. Qed.

Lemma forallb_rev {A} (f : A -> bool) l : forallb f (rev l) = forallb f l.
Proof.
  induction l as [|x l IH]; [reflexivity|]. cbn [rev forallb]. rewrite forallb_app, IH. cbn. rewrite andb_true_r.
  apply andb_comm.
Qed.

Lemma lf_clean_cons l L : line_ok l = true -> ends_nl l = true -> lf_clean L = true -> lf_clean (l :: L) = true.
Proof.
  unfold lf_clean. intros Hl He H. apply andb_true_iff in H as [H1 H2]. cbn [forallb]. rewrite Hl, H1.
  destruct L as [|l' L']; [reflexivity|]. cbn [removelast forallb andb] in *. rewrite He. exact H2.
Qed.

Lemma nl_free_noends l : nl_free l = true -> ends_nl l = false.
Proof.
  induction l as [|c r IH]; [reflexivity|]. cbn [nl_free forallb]. intros H. apply andb_true_iff in H as [Hc Hr].
  destruct r as [|d r']; [cbn; apply negb_true_iff in Hc; exact Hc|]. rewrite ends_nl_cons by discriminate.
  apply IH. exact Hr.
Qed.

Lemma line_ok_term cur : nl_free cur = true -> line_ok (rev (10 :: cur)) = true /\ ends_nl (rev (10 :: cur)) = true.
Proof.
  intros H. cbn [rev]. unfold line_ok. rewrite chomp_snoc, ends_nl_snoc. split; [|reflexivity].
  unfold nl_free. rewrite forallb_rev. fold (nl_free cur). rewrite H.
  destruct (rev cur); reflexivity.
Qed.

Lemma line_ok_unterm cur : cur <> [] -> nl_free cur = true -> line_ok (rev cur) = true.
Proof.
  intros Hne H. unfold line_ok.
  assert (Hr : nl_free (rev cur) = true) by (unfold nl_free; rewrite forallb_rev; exact H).
  rewrite (chomp_noends _ (nl_free_noends _ Hr)), Hr.
  destruct cur; [congruence|]. cbn [rev]. destruct (rev cur); reflexivity.
Qed.

Lemma splitlines_clean_n n : forall t cur,
  (length t <= n)%nat -> has_exotic t = false -> nl_free cur = true -> lf_clean (splitlines_from cur t) = true.
Proof.
  induction n as [|n IH]; intros t cur Hn Hx Hc.
  - destruct t; [|cbn in Hn; lia]. cbn. destruct cur eqn:E; [reflexivity|]. rewrite <- E in *.
    unfold lf_clean. cbn [forallb removelast]. rewrite line_ok_unterm; [reflexivity|subst; discriminate|exact Hc].
  - destruct t as [|c t'].
    { cbn. destruct cur eqn:E; [reflexivity|]. rewrite <- E in *.
      unfold lf_clean. cbn [forallb removelast]. rewrite line_ok_unterm; [reflexivity|subst; discriminate|exact Hc]. }
    cbn [length] in Hn. cbn [splitlines_from has_exotic] in *.
    destruct (c =? 13) eqn:E13.
    + apply N.eqb_eq in E13. subst c. destruct t' as [|d t'']; [discriminate Hx|].
      apply orb_false_iff in Hx as [Hd Hx]. apply negb_false_iff in Hd. rewrite Hd.
      apply N.eqb_eq in Hd. subst d. cbn [length] in Hn.
      cbn [has_exotic] in Hx. change (10 =? 13) with false in Hx. change (10 =? 10) with true in Hx. cbv iota in Hx.
      assert (Hc' : nl_free (13 :: cur) = true) by (cbn [nl_free forallb]; exact Hc).
      destruct (line_ok_term _ Hc') as [H1 H2].
      apply lf_clean_cons; [exact H1|exact H2|]. apply IH; [lia|exact Hx|reflexivity].
    + destruct (c =? 10) eqn:E10.
      * apply N.eqb_eq in E10. subst c. change (is_break 10) with true. cbv iota.
        destruct (line_ok_term _ Hc) as [H1 H2].
        apply lf_clean_cons; [exact H1|exact H2|]. apply IH; [lia|exact Hx|reflexivity].
      * apply orb_false_iff in Hx as [Hb Hx]. rewrite Hb. apply IH; [lia|exact Hx|].
        cbn [nl_free forallb]. rewrite E10. exact Hc.
Qed.

Theorem splitlines_lf_clean t : has_exotic t = false -> lf_clean (splitlines_keepends t) = true.
Proof. intros H. apply (splitlines_clean_n (length t)); [lia|exact H|reflexivity]. Qed.
