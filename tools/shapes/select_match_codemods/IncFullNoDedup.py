# whole-id matching, but every match appended (only the include part of this file is a new shape)
TAGS = {"include_matcher": "FullGlob", "include_dedup": False, "exclude_matcher": "FullGlob"}


def match_codemods(self, codemod_include=None, codemod_exclude=None, sast_only=False):
    codemod_include = codemod_include or []
    codemod_exclude = codemod_exclude or DEFAULT_EXCLUDED_CODEMODS

    if codemod_exclude and not codemod_include:
        base_codemods = {}
        patterns = [
            _wildcard_pattern(exclude)
            for exclude in codemod_exclude
            if "*" in exclude
        ]
        names = set(name for name in codemod_exclude if "*" not in name)

        for codemod in self.codemods:
            if codemod.id in names or any(
                pat.fullmatch(codemod.id) for pat in patterns
            ):
                continue

            if bool(sast_only) != bool(codemod.origin == "pixee"):
                base_codemods[codemod.id] = codemod

        return list(base_codemods.values())

    matched_codemods = []
    for name in codemod_include:
        if "*" in name:
            pat = _wildcard_pattern(name)
            pattern_matches = [code for code in self.codemods if pat.fullmatch(code.id)]
            matched_codemods.extend(pattern_matches)
            if not pattern_matches:
                logger.warning(
                    "Given codemod pattern '%s' does not match any codemods.", name
                )
            continue

        try:
            matched_codemods.append(self._codemods_by_id[name])
        except KeyError:
            logger.warning(f"Requested codemod to include '{name}' does not exist.")
    return matched_codemods
