from __future__ import annotations

import os
from typing import TYPE_CHECKING

try:
    from openai import AzureOpenAI, OpenAI
except ImportError:
    OpenAI = None
    AzureOpenAI = None

try:
    from azure.ai.inference import ChatCompletionsClient
    from azure.core.credentials import AzureKeyCredential
except ImportError:
    ChatCompletionsClient = None
    AzureKeyCredential = None

if TYPE_CHECKING:
    from openai import OpenAI
    from azure.ai.inference import ChatCompletionsClient
    from azure.core.credentials import AzureKeyCredential

from codemodder.logging import logger

__all__ = [
    "MODELS",
    "setup_openai_llm_client",
    "setup_azure_llama_llm_client",
    "MisconfiguredAIClient",
]

models = ["gpt-4-turbo-2024-04-09", "gpt-4o-2024-05-13", "gpt-35-turbo-0125"]
DEFAULT_AZURE_OPENAI_API_VERSION = "2024-02-01"


class ModelRegistry(dict):
    def __init__(self, models):
        super().__init__()
        self.models = models
        for model in models:
            attribute_name = model.replace("-", "_")
            self[attribute_name] = model

    def __getattr__(self, name):
        if name in self:
            return os.getenv(
                f"CODEMODDER_AZURE_OPENAI_{name.upper()}_DEPLOYMENT", self[name]
            )
        raise AttributeError(
            f"'{self.__class__.__name__}' object has no attribute '{name}'"
        )


MODELS = ModelRegistry(models)


def setup_openai_llm_client() -> OpenAI | None:
    """Configure either the Azure OpenAI LLM client or the OpenAI client, in that order."""
    if not AzureOpenAI:
        logger.info("Azure OpenAI API client not available")
        return None

    azure_openapi_key = os.getenv("CODEMODDER_AZURE_OPENAI_API_KEY")
    azure_openapi_endpoint = os.getenv("CODEMODDER_AZURE_OPENAI_ENDPOINT")
    if bool(azure_openapi_key) ^ bool(azure_openapi_endpoint):
        raise MisconfiguredAIClient(
            "Azure OpenAI API key and endpoint must both be set or unset"
        )

    if azure_openapi_key and azure_openapi_endpoint:
        logger.info("Using Azure OpenAI API client")
        return AzureOpenAI(
            api_key=azure_openapi_key,
            api_version=os.getenv(
                "CODEMODDER_AZURE_OPENAI_API_VERSION",
                DEFAULT_AZURE_OPENAI_API_VERSION,
            ),
            azure_endpoint=azure_openapi_endpoint,
        )

    if not OpenAI:
        logger.info("OpenAI API client not available")
        return None

    if not (api_key := os.getenv("CODEMODDER_OPENAI_API_KEY")):
        logger.info("OpenAI API key not found")
        return None

    logger.info("Using OpenAI API client")
    return OpenAI(api_key=api_key)


def setup_azure_llama_llm_client() -> ChatCompletionsClient | None:
    """Configure the Azure Llama LLM client."""
    if not ChatCompletionsClient:
        logger.info("Azure API client not available")
        return None

    azure_llama_key = os.getenv("CODEMODDER_AZURE_LLAMA_API_KEY")
    azure_llama_endpoint = os.getenv("CODEMODDER_AZURE_LLAMA_ENDPOINT")
    if bool(azure_llama_key) ^ bool(azure_llama_endpoint):
        raise MisconfiguredAIClient(
            "Azure Llama API key and endpoint must both be set or unset"
        )

    if azure_llama_key and azure_llama_endpoint:
        logger.info("Using Azure Llama API client")
        return ChatCompletionsClient(
            credential=AzureKeyCredential(azure_llama_key),
            endpoint=azure_llama_endpoint,
        )
    return None


class MisconfiguredAIClient(ValueError):
    pass
