(** Lemmas about the argument-list algebra (Model/Args.v) against its reference description (Spec/ArgsSpec.v). *)
From CM Require Import Model.Args Spec.ArgsSpec.
From Coq Require Import Permutation Lia.
From Coq Require Strings.String.
Import String.StringSyntax.

(** * Induction over expressions (the generated principle is too weak for the nested list) *)
Section ExprInd.
  Variable P : expr -> Prop.
  Hypothesis HName : forall s, P (EName s).
  Hypothesis HAttr : forall e a, P e -> P (EAttr e a).
  Hypothesis HConst : forall s, P (EConst s).
  Hypothesis HCall : forall m f args, P f -> Forall (fun a => P (value a)) args -> P (ECall m f args).
  Fixpoint expr_ind' (e : expr) : P e :=
    match e with
    | EName s => HName s
    | EAttr v a => HAttr v a (expr_ind' v)
    | EConst s => HConst s
    | ECall m f args =>
        HCall m f args (expr_ind' f)
          ((fix go (l : list arg) : Forall (fun a => P (value a)) l :=
              match l with
              | [] => Forall_nil _
              | a :: r => Forall_cons a (expr_ind' (value a)) (go r)
              end) args)
    end.
End ExprInd.

(** * Small list facts *)
Lemma filter_filter' {A} (f g : A -> bool) l : filter f (filter g l) = filter (fun x => g x && f x) l.
Proof.
  induction l as [|x l IH]; simpl; [reflexivity|].
  destruct (g x); simpl; [destruct (f x)|]; rewrite IH; reflexivity.
Qed.

Lemma filter_all {A} (f : A -> bool) l : (forall y, In y l -> f y = true) -> filter f l = l.
Proof.
  induction l as [|x l IH]; simpl; intros H; [reflexivity|].
  rewrite (H x (or_introl eq_refl)). f_equal. apply IH. intros y Hy. apply H. right. exact Hy.
Qed.

Lemma kw_is_some a k name : kw a = Some k -> kw_is name a = str_eqb k name.
Proof. unfold kw_is. intros ->. reflexivity. Qed.
Lemma kw_is_none a name : kw a = None -> kw_is name a = false.
Proof. unfold kw_is. intros ->. reflexivity. Qed.

(** * _match_with_existing_arg is "find the first entry named like the keyword" *)
Lemma match_is_find a info :
  option_map snd (match_with_existing_arg a info) = touched [] a info.
Proof.
  unfold touched. simpl.
  induction info as [|n r IH]; simpl.
  - destruct (kw a); reflexivity.
  - destruct (kw a) as [k|] eqn:Ek.
    + rewrite (kw_is_some a k _ Ek). unfold find_info in *. simpl.
      destruct (str_eqb k (na_name n)); simpl; [reflexivity|].
      destruct (match_with_existing_arg a r) as [[i x]|]; simpl in *; exact IH.
    + rewrite (kw_is_none a _ Ek).
      destruct (match_with_existing_arg a r) as [[i x]|]; simpl in *; [discriminate IH|reflexivity].
Qed.

Lemma match_some_kw a info i n :
  match_with_existing_arg a info = Some (i, n) ->
  exists k, kw a = Some k /\ find_info k info = Some n /\ na_name n = k.
Proof.
  intros H. pose proof (match_is_find a info) as M. rewrite H in M. simpl in M.
  unfold touched in M. simpl in M. destruct (kw a) as [k|]; [|discriminate].
  exists k. split; [reflexivity|]. split; [symmetry; exact M|].
  unfold find_info in M. symmetry in M. apply find_some in M. destruct M as [_ M].
  apply str_eqb_eq in M. symmetry. exact M.
Qed.

Lemma match_none_find a info k :
  match_with_existing_arg a info = None -> kw a = Some k -> find_info k info = None.
Proof.
  intros H Ek. pose proof (match_is_find a info) as M. rewrite H in M. simpl in M.
  unfold touched in M. rewrite Ek in M. simpl in M. symmetry. exact M.
Qed.

Lemma find_info_none_notin k info : find_info k info = None <-> ~ In k (names info).
Proof.
  unfold find_info, names. induction info as [|n r IH]; simpl.
  - split; [intros _ []|reflexivity].
  - destruct (str_eqb_spec k (na_name n)) as [->|Hne].
    + split; [discriminate|]. intros H. exfalso. apply H. left. reflexivity.
    + rewrite IH. split.
      * intros H [E|Hin]; [apply Hne; symmetry; exact E|apply H; exact Hin].
      * intros H Hin. apply H. right. exact Hin.
Qed.

(** deleting the matched entry, when names are distinct, removes that name and nothing else *)
Lemma find_del a info i n k0 k :
  NoDup (names info) -> match_with_existing_arg a info = Some (i, n) -> kw a = Some k0 ->
  find_info k (del_nth i info) = if str_eqb k k0 then None else find_info k info.
Proof.
  intros ND. revert i. induction info as [|x r IH]; intros i H Ek; simpl in H; [discriminate|].
  rewrite (kw_is_some a k0 _ Ek) in H. inversion ND as [|? ? Hnotin ND']; subst.
  destruct (str_eqb_spec k0 (na_name x)) as [E0|N0].
  - inversion H; subst i n. simpl.
    destruct (str_eqb_spec k k0) as [->|Hne].
    + apply find_info_none_notin. rewrite E0. exact Hnotin.
    + unfold find_info. simpl. destruct (str_eqb_spec k (na_name x)) as [E|_]; [|reflexivity].
      exfalso. apply Hne. rewrite E. symmetry. exact E0.
  - destruct (match_with_existing_arg a r) as [[j y]|] eqn:Er; [|discriminate].
    inversion H; subst i n. simpl. specialize (IH ND' j eq_refl Ek).
    unfold find_info in *. simpl.
    destruct (str_eqb_spec k (na_name x)) as [E|Hne].
    + destruct (str_eqb_spec k k0) as [E'|_]; [|reflexivity].
      exfalso. apply N0. rewrite <- E', E. reflexivity.
    + exact IH.
Qed.

Lemma del_filter a info i n k0 :
  NoDup (names info) -> match_with_existing_arg a info = Some (i, n) -> kw a = Some k0 ->
  del_nth i info = filter (fun x => negb (str_eqb k0 (na_name x))) info.
Proof.
  intros ND. revert i. induction info as [|x r IH]; intros i H Ek; simpl in H; [discriminate|].
  rewrite (kw_is_some a k0 _ Ek) in H. inversion ND as [|? ? Hnotin ND']; subst.
  simpl. destruct (str_eqb_spec k0 (na_name x)) as [E0|N0]; simpl.
  - inversion H; subst i n. simpl.
    symmetry. apply filter_all. intros y Hy.
    destruct (str_eqb_spec k0 (na_name y)) as [E|_]; [|reflexivity].
    exfalso. apply Hnotin. rewrite <- E0, E. apply in_map. exact Hy.
  - destruct (match_with_existing_arg a r) as [[j y]|] eqn:Er; [|discriminate].
    inversion H; subst i n. simpl. f_equal. apply (IH ND' j eq_refl Ek).
Qed.

(** * The loop of replace_args *)
Lemma NoDup_del {A} i (l : list A) : NoDup l -> NoDup (del_nth i l).
Proof.
  revert i. induction l as [|x l IH]; intros i ND; simpl; [destruct i; exact ND|].
  inversion ND as [|? ? Hn ND']; subst. destruct i as [|j]; [exact ND'|].
  constructor; [|apply IH; exact ND'].
  intros Hin. apply Hn. clear -Hin. revert j Hin. induction l as [|y l IH]; intros j Hin; simpl in *.
  - destruct j; exact Hin.
  - destruct j as [|j]; [right; exact Hin|]. destruct Hin as [E|Hin]; [left; exact E|right; exact (IH j Hin)].
Qed.
Lemma names_del i info : names (del_nth i info) = del_nth i (names info).
Proof. revert i. induction info as [|x r IH]; intros [|j]; simpl; try reflexivity. f_equal. apply IH. Qed.
Lemma NoDup_names_del i info : NoDup (names info) -> NoDup (names (del_nth i info)).
Proof. rewrite names_del. apply NoDup_del. Qed.

Lemma loop_length args info : length (fst (replace_loop args info)) = length args.
Proof.
  revert info. induction args as [|a r IH]; intros info; simpl; [reflexivity|].
  destruct (match_with_existing_arg a info) as [[i n]|].
  - specialize (IH (del_nth i info)). destruct (replace_loop r (del_nth i info)). simpl in *. f_equal. exact IH.
  - specialize (IH info). destruct (replace_loop r info). simpl in *. f_equal. exact IH.
Qed.

Lemma has_kw_cons k a l : has_kw k (a :: l) = kw_is k a || has_kw k l.
Proof. reflexivity. Qed.

(** position by position: the loop computes [spec_at] *)
Lemma loop_nth args : forall info, NoDup (names info) -> forall i a,
  nth_error args i = Some a ->
  nth_error (fst (replace_loop args info)) i = Some (spec_at (firstn i args) a info).
Proof.
  induction args as [|a0 r IH]; intros info ND i a Hi; [destruct i; discriminate|].
  simpl replace_loop.
  destruct i as [|j].
  - simpl in Hi. inversion Hi; subst a0. simpl firstn. unfold spec_at.
    pose proof (match_is_find a info) as M.
    destruct (match_with_existing_arg a info) as [[i n]|] eqn:Em; simpl in M; rewrite <- M.
    + destruct (match_some_kw _ _ _ _ Em) as [k [Ek [_ En]]].
      destruct (replace_loop r (del_nth i info)). simpl. unfold repl, make_new_arg. reflexivity.
    + destruct (replace_loop r info). reflexivity.
  - simpl in Hi. simpl firstn.
    destruct (match_with_existing_arg a0 info) as [[i0 n0]|] eqn:Em.
    + destruct (match_some_kw _ _ _ _ Em) as [k0 [Ek0 [Ef0 En0]]].
      specialize (IH (del_nth i0 info) (NoDup_names_del _ _ ND) j a Hi).
      destruct (replace_loop r (del_nth i0 info)) as [o rest]. simpl in *. rewrite IH. f_equal.
      unfold spec_at, touched. destruct (kw a) as [k|] eqn:Ek; [|reflexivity].
      rewrite has_kw_cons, (kw_is_some a0 k0 _ Ek0), (find_del a0 info i0 n0 k0 k ND Em Ek0).
      destruct (str_eqb_spec k k0) as [->|Hne].
      * rewrite str_eqb_refl. simpl. destruct (has_kw k0 (firstn j r)); reflexivity.
      * destruct (str_eqb_spec k0 k) as [E|_]; [exfalso; apply Hne; symmetry; exact E|]. reflexivity.
    + specialize (IH info ND j a Hi).
      destruct (replace_loop r info) as [o rest]. simpl in *. rewrite IH. f_equal.
      unfold spec_at, touched. destruct (kw a) as [k|] eqn:Ek; [|reflexivity].
      rewrite has_kw_cons. destruct (kw a0) as [k0|] eqn:Ek0.
      * rewrite (kw_is_some a0 k0 _ Ek0). destruct (str_eqb_spec k0 k) as [->|_]; [|reflexivity].
        simpl. rewrite (match_none_find a0 info k Em Ek0). destruct (has_kw k (firstn j r)); reflexivity.
      * rewrite (kw_is_none a0 _ Ek0). reflexivity.
Qed.

(** what is left of the NewArg list after the loop: the entries whose name is no keyword of the call *)
Lemma loop_rest args : forall info, NoDup (names info) ->
  snd (replace_loop args info) = filter (fun n => negb (has_kw (na_name n) args)) info.
Proof.
  induction args as [|a0 r IH]; intros info ND; simpl replace_loop.
  - simpl. symmetry. apply filter_all. reflexivity.
  - destruct (match_with_existing_arg a0 info) as [[i0 n0]|] eqn:Em.
    + destruct (match_some_kw _ _ _ _ Em) as [k0 [Ek0 _]].
      specialize (IH (del_nth i0 info) (NoDup_names_del _ _ ND)).
      destruct (replace_loop r (del_nth i0 info)) as [o rest]. cbn [fst snd] in *. rewrite IH.
      rewrite (del_filter a0 info i0 n0 k0 ND Em Ek0), filter_filter'.
      apply filter_ext. intros n. rewrite has_kw_cons, (kw_is_some a0 k0 _ Ek0), negb_orb. reflexivity.
    + specialize (IH info ND). destruct (replace_loop r info) as [o rest]. cbn [fst snd] in *. rewrite IH.
      apply filter_ext_in. intros n Hn. rewrite has_kw_cons.
      destruct (kw a0) as [k0|] eqn:Ek0.
      * rewrite (kw_is_some a0 k0 _ Ek0).
        destruct (str_eqb_spec k0 (na_name n)) as [E|_]; [|reflexivity].
        exfalso. pose proof (match_none_find a0 info k0 Em Ek0) as F.
        apply find_info_none_notin in F. apply F. rewrite E. apply in_map. exact Hn.
      * rewrite (kw_is_none a0 _ Ek0). reflexivity.
Qed.

Lemma appended_missing args info :
  appended (filter (fun n => negb (has_kw (na_name n) args)) info) = map fresh (missing args info).
Proof.
  unfold appended, missing. rewrite filter_filter'.
  rewrite (filter_ext (fun x => negb (has_kw (na_name x) args) && na_add x)
                      (fun n => na_add n && negb (has_kw (na_name n) args))) by (intros; apply andb_comm).
  apply map_ext. intros n. reflexivity.
Qed.

Lemma replace_args_eq args info : NoDup (names info) ->
  replace_args args info = fst (replace_loop args info) ++ map fresh (missing args info).
Proof.
  intros ND. unfold replace_args. pose proof (loop_rest args info ND) as R.
  destruct (replace_loop args info) as [o rest]. simpl in *. rewrite R, appended_missing. reflexivity.
Qed.

(** ** the frame of replace_args *)
Lemma replace_args_frame args info : NoDup (names info) ->
  let r := replace_args args info in
  length r = length args + length (missing args info) /\
  (forall i a, nth_error args i = Some a -> nth_error r i = Some (spec_at (firstn i args) a info)) /\
  skipn (length args) r = map fresh (missing args info).
Proof.
  intros ND r. subst r. rewrite (replace_args_eq args info ND).
  split; [|split].
  - rewrite app_length, map_length, loop_length. reflexivity.
  - intros i a Hi. rewrite nth_error_app1.
    + apply loop_nth; assumption.
    + rewrite loop_length. apply nth_error_Some. rewrite Hi. discriminate.
  - rewrite <- (loop_length args info) at 1. rewrite skipn_app, skipn_all, Nat.sub_diag. reflexivity.
Qed.

(** ** without any assumption on the NewArg list: unlisted arguments keep their place and content *)
Lemma find_del_none k i info : find_info k info = None -> find_info k (del_nth i info) = None.
Proof.
  rewrite !find_info_none_notin, names_del. intros H Hin. apply H. clear H.
  revert i Hin. induction (names info) as [|y l IH]; intros i Hin; simpl in *.
  - destruct i; exact Hin.
  - destruct i as [|j]; [right; exact Hin|]. destruct Hin as [E|Hin]; [left; exact E|right; exact (IH j Hin)].
Qed.
Lemma unlisted_del a i info : unlisted a info = true -> unlisted a (del_nth i info) = true.
Proof.
  unfold unlisted. destruct (kw a) as [k|]; [|reflexivity].
  destruct (find_info k info) eqn:E; [discriminate|]. rewrite (find_del_none k i info E). reflexivity.
Qed.
Lemma loop_nth_unlisted args : forall info i a,
  nth_error args i = Some a -> unlisted a info = true -> nth_error (fst (replace_loop args info)) i = Some a.
Proof.
  induction args as [|a0 r IH]; intros info i a Hi U; [destruct i; discriminate|].
  simpl replace_loop. destruct i as [|j]; simpl in Hi.
  - inversion Hi; subst a0.
    destruct (match_with_existing_arg a info) as [[i n]|] eqn:Em.
    + exfalso. destruct (match_some_kw _ _ _ _ Em) as [k [Ek [Ef _]]]. unfold unlisted in U. rewrite Ek, Ef in U. discriminate.
    + destruct (replace_loop r info). reflexivity.
  - destruct (match_with_existing_arg a0 info) as [[i0 n0]|].
    + specialize (IH (del_nth i0 info) j a Hi (unlisted_del a i0 info U)).
      destruct (replace_loop r (del_nth i0 info)). exact IH.
    + specialize (IH info j a Hi U). destruct (replace_loop r info). exact IH.
Qed.
Lemma replace_args_unlisted args info i a :
  nth_error args i = Some a -> unlisted a info = true -> nth_error (replace_args args info) i = Some a.
Proof.
  intros Hi U. unfold replace_args. pose proof (loop_nth_unlisted args info i a Hi U) as H.
  pose proof (loop_length args info) as L.
  destruct (replace_loop args info) as [o rest]. simpl in *. rewrite nth_error_app1; [exact H|].
  rewrite L. apply nth_error_Some. rewrite Hi. discriminate.
Qed.
Lemma replace_args_length_ge args info : length args <= length (replace_args args info).
Proof.
  unfold replace_args. pose proof (loop_length args info) as L.
  destruct (replace_loop args info) as [o rest]. simpl in *. rewrite app_length. lia.
Qed.

(** * Idempotence of replace_args on one call (C07 kernel) *)
Lemma match_same_kw a b info : kw a = kw b -> match_with_existing_arg a info = match_with_existing_arg b info.
Proof.
  intros E. induction info as [|n r IH]; simpl; [reflexivity|].
  unfold kw_is. rewrite E, IH. reflexivity.
Qed.

Lemma loop_idem args : forall info, NoDup (names info) ->
  replace_loop (fst (replace_loop args info)) info = replace_loop args info.
Proof.
  induction args as [|a0 r IH]; intros info ND; simpl replace_loop; [reflexivity|].
  destruct (match_with_existing_arg a0 info) as [[i0 n0]|] eqn:Em.
  - destruct (match_some_kw _ _ _ _ Em) as [k0 [Ek0 [_ En0]]].
    specialize (IH (del_nth i0 info) (NoDup_names_del _ _ ND)).
    destruct (replace_loop r (del_nth i0 info)) as [o rest]. cbn [fst snd] in *.
    simpl replace_loop.
    rewrite (match_same_kw _ a0 info) by (simpl; rewrite Ek0, En0; reflexivity).
    rewrite Em, IH. reflexivity.
  - specialize (IH info ND). destruct (replace_loop r info) as [o rest]. cbn [fst snd] in *.
    simpl replace_loop. rewrite Em, IH. reflexivity.
Qed.

Lemma loop_app l1 : forall l2 info,
  replace_loop (l1 ++ l2) info =
  let '(o1, r1) := replace_loop l1 info in let '(o2, r2) := replace_loop l2 r1 in (o1 ++ o2, r2).
Proof.
  induction l1 as [|a r IH]; intros l2 info; simpl.
  - destruct (replace_loop l2 info). reflexivity.
  - destruct (match_with_existing_arg a info) as [[i n]|].
    + rewrite IH. destruct (replace_loop r (del_nth i info)) as [o1 r1]. destruct (replace_loop l2 r1). reflexivity.
    + rewrite IH. destruct (replace_loop r info) as [o1 r1]. destruct (replace_loop l2 r1). reflexivity.
Qed.

(** an entry whose name is no keyword of the list is carried through untouched *)
Lemma loop_skip_head n L : forall R,
  (forall a, In a L -> kw_is (na_name n) a = false) ->
  replace_loop L (n :: R) = let '(o, r) := replace_loop L R in (o, n :: r).
Proof.
  induction L as [|a L IH]; intros R H; simpl; [reflexivity|].
  rewrite (H a (or_introl eq_refl)).
  assert (H' : forall b, In b L -> kw_is (na_name n) b = false) by (intros b Hb; apply H; right; exact Hb).
  destruct (match_with_existing_arg a R) as [[i x]|].
  - simpl del_nth. rewrite (IH (del_nth i R) H'). destruct (replace_loop L (del_nth i R)). reflexivity.
  - rewrite (IH R H'). destruct (replace_loop L R). reflexivity.
Qed.

Lemma appended_kw R a : In a (appended R) -> exists m, In m R /\ kw a = Some (na_name m).
Proof.
  unfold appended. rewrite in_map_iff. intros [m [E Hm]]. apply filter_In in Hm. destruct Hm as [Hm _].
  exists m. split; [exact Hm|]. subst a. reflexivity.
Qed.

Lemma appended_cons n R :
  appended (n :: R) = if na_add n then make_new_arg (na_value n) (Some (na_name n)) None :: appended R else appended R.
Proof. unfold appended. simpl. destruct (na_add n); reflexivity. Qed.
Lemma loop_cons_match a r info i n : match_with_existing_arg a info = Some (i, n) ->
  replace_loop (a :: r) info =
  let '(o, rest) := replace_loop r (del_nth i info) in (make_new_arg (na_value n) (Some (na_name n)) (Some a) :: o, rest).
Proof. intros H. simpl. rewrite H. reflexivity. Qed.

Lemma loop_fresh R : NoDup (names R) ->
  replace_loop (appended R) R = (appended R, filter (fun n => negb (na_add n)) R).
Proof.
  induction R as [|n R IH]; intros ND; [reflexivity|].
  inversion ND as [|? ? Hn ND']; subst. rewrite appended_cons. simpl filter.
  destruct (na_add n) eqn:Ea.
  - rewrite (loop_cons_match _ _ _ O n).
    + cbn [del_nth negb]. rewrite (IH ND'). reflexivity.
    + cbn [match_with_existing_arg]. unfold kw_is. cbn [kw make_new_arg]. rewrite str_eqb_refl. reflexivity.
  - cbn [negb]. rewrite loop_skip_head.
    + rewrite (IH ND'). reflexivity.
    + intros a Ha. destruct (appended_kw R a Ha) as [m [Hm Ek]].
      rewrite (kw_is_some a _ _ Ek). apply str_eqb_neq. intros E. apply Hn. rewrite <- E. apply in_map. exact Hm.
Qed.

Lemma NoDup_names_filter f info : NoDup (names info) -> NoDup (names (filter f info)).
Proof.
  induction info as [|n r IH]; intros ND; simpl; [constructor|].
  inversion ND as [|? ? Hn ND']; subst. destruct (f n); simpl; [|apply IH; exact ND'].
  constructor; [|apply IH; exact ND']. intros Hin. apply Hn. unfold names in *.
  apply in_map_iff in Hin. destruct Hin as [m [E Hm]]. apply filter_In in Hm. rewrite <- E. apply in_map. apply Hm.
Qed.

Lemma appended_of_not_add rest : appended (filter (fun n => negb (na_add n)) rest) = [].
Proof.
  unfold appended. rewrite filter_filter'.
  replace (filter (fun x => negb (na_add x) && na_add x) rest) with (@nil newarg); [reflexivity|].
  induction rest as [|n r IH]; simpl; [reflexivity|]. destruct (na_add n); simpl; exact IH.
Qed.

Lemma replace_args_idempotent args info : NoDup (names info) ->
  replace_args (replace_args args info) info = replace_args args info.
Proof.
  intros ND.
  pose proof (loop_idem args info ND) as I. pose proof (loop_rest args info ND) as R.
  destruct (replace_loop args info) as [o rest] eqn:E. cbn [fst snd] in *.
  assert (H1 : replace_args args info = o ++ appended rest) by (unfold replace_args; rewrite E; reflexivity).
  rewrite H1. unfold replace_args. rewrite loop_app, I.
  assert (NDr : NoDup (names rest)) by (rewrite R; apply NoDup_names_filter; exact ND).
  rewrite (loop_fresh rest NDr), appended_of_not_add, app_nil_r. reflexivity.
Qed.

(** SecureCookieMixin: the NewArg list depends on the call, yet the rewrite is still a fixed point *)
Lemma cookie_names_nodup args : NoDup (names (choose_new_args args)).
Proof.
  unfold choose_new_args. destruct (existsb is_samesite_strict args); simpl.
  - repeat constructor; simpl; intuition discriminate.
  - repeat constructor; simpl; intuition discriminate.
Qed.

(** * Token multisets *)
Lemma cnt_app a b t : cnt (a ++ b) t = cnt a t + cnt b t.
Proof. apply count_occ_app. Qed.
Lemma toks_args_cons a l : toks_args (a :: l) = toks_arg a ++ toks_args l.
Proof. reflexivity. Qed.
Lemma toks_args_app l1 l2 : toks_args (l1 ++ l2) = toks_args l1 ++ toks_args l2.
Proof. unfold toks_args. apply flat_map_app. Qed.
Lemma delta_cons n r : delta_info (n :: r) = (TKw (na_name n) :: toks (na_value n)) ++ delta_info r.
Proof. reflexivity. Qed.
Lemma toks_make_kw v k ex : toks_arg (make_new_arg v (Some k) ex) = TKw k :: toks v.
Proof. reflexivity. Qed.

Lemma match_nth a info i n : match_with_existing_arg a info = Some (i, n) -> nth_error info i = Some n.
Proof.
  revert i. induction info as [|x r IH]; intros i H; simpl in H; [discriminate|].
  destruct (kw_is (na_name x) a).
  - inversion H; subst. reflexivity.
  - destruct (match_with_existing_arg a r) as [[j y]|]; [|discriminate]. inversion H; subst. simpl. apply IH. reflexivity.
Qed.
Lemma delta_del info : forall i n t, nth_error info i = Some n ->
  cnt (delta_info info) t = cnt (TKw (na_name n) :: toks (na_value n)) t + cnt (delta_info (del_nth i info)) t.
Proof.
  induction info as [|x r IH]; intros i n t H; [destruct i; discriminate|].
  destruct i as [|j]; simpl in H.
  - inversion H; subst. rewrite delta_cons, cnt_app. reflexivity.
  - simpl del_nth. rewrite !delta_cons, !cnt_app, (IH j n t H). lia.
Qed.

(** nothing is added beyond the NewArg list, and each entry is used at most once *)
Lemma loop_count_le args : forall info t,
  cnt (toks_args (fst (replace_loop args info))) t + cnt (delta_info (snd (replace_loop args info))) t
  <= cnt (toks_args args) t + cnt (delta_info info) t.
Proof.
  induction args as [|a r IH]; intros info t; simpl replace_loop; [simpl; lia|].
  destruct (match_with_existing_arg a info) as [[i n]|] eqn:Em.
  - specialize (IH (del_nth i info) t). rewrite (delta_del info i n t (match_nth _ _ _ _ Em)).
    destruct (replace_loop r (del_nth i info)) as [o rest]. cbn [fst snd] in *.
    rewrite !toks_args_cons, !cnt_app. unfold toks_arg at 1. cbn [kw value app]. lia.
  - specialize (IH info t). destruct (replace_loop r info) as [o rest]. cbn [fst snd] in *.
    rewrite !toks_args_cons, !cnt_app. lia.
Qed.
Lemma appended_count_le rest t : cnt (toks_args (appended rest)) t <= cnt (delta_info rest) t.
Proof.
  induction rest as [|n r IH]; [simpl; lia|].
  rewrite appended_cons, delta_cons, cnt_app. destruct (na_add n).
  - rewrite toks_args_cons, cnt_app, toks_make_kw. lia.
  - lia.
Qed.
Lemma replace_args_count_le args info t :
  cnt (toks_args (replace_args args info)) t <= cnt (toks_args args) t + cnt (delta_info info) t.
Proof.
  unfold replace_args. pose proof (loop_count_le args info t) as H.
  destruct (replace_loop args info) as [o rest]. cbn [fst snd] in *.
  rewrite toks_args_app, cnt_app. pose proof (appended_count_le rest t). lia.
Qed.

(** nothing is lost except old values of listed keywords *)
Lemma listed_values_cons a r info :
  listed_values (a :: r) info = (if unlisted a info then [] else toks_arg a) ++ listed_values r info.
Proof. unfold listed_values. simpl. destruct (unlisted a info); reflexivity. Qed.
Lemma listed_values_mono r info info' t :
  (forall a, unlisted a info = true -> unlisted a info' = true) ->
  cnt (listed_values r info') t <= cnt (listed_values r info) t.
Proof.
  intros H. induction r as [|a r IH]; [simpl; lia|].
  rewrite !listed_values_cons, !cnt_app.
  destruct (unlisted a info) eqn:U; [rewrite (H a U); simpl; lia|].
  destruct (unlisted a info'); simpl; lia.
Qed.
Lemma loop_count_ge args : forall info t,
  cnt (toks_args args) t <= cnt (toks_args (fst (replace_loop args info))) t + cnt (listed_values args info) t.
Proof.
  induction args as [|a r IH]; intros info t; simpl replace_loop; [simpl; lia|].
  rewrite listed_values_cons, cnt_app.
  destruct (match_with_existing_arg a info) as [[i n]|] eqn:Em.
  - destruct (match_some_kw _ _ _ _ Em) as [k [Ek [Ef _]]].
    assert (U : unlisted a info = false) by (unfold unlisted; rewrite Ek, Ef; reflexivity). rewrite U.
    specialize (IH (del_nth i info) t).
    pose proof (listed_values_mono r info (del_nth i info) t (fun b => unlisted_del b i info)) as M.
    destruct (replace_loop r (del_nth i info)) as [o rest]. cbn [fst snd] in *.
    rewrite !toks_args_cons, !cnt_app. lia.
  - specialize (IH info t). destruct (replace_loop r info) as [o rest]. cbn [fst snd] in *.
    rewrite !toks_args_cons, !cnt_app. lia.
Qed.
Lemma replace_args_count_ge args info t :
  cnt (toks_args args) t <= cnt (toks_args (replace_args args info)) t + cnt (listed_values args info) t.
Proof.
  unfold replace_args. pose proof (loop_count_ge args info t) as H.
  destruct (replace_loop args info) as [o rest]. cbn [fst snd] in *.
  rewrite toks_args_app, cnt_app. lia.
Qed.

Lemma sub_multiset_spec a b : sub_multiset a b = true <-> forall t, cnt a t <= cnt b t.
Proof.
  unfold sub_multiset. rewrite forallb_forall. split.
  - intros H t. destruct (in_dec tok_eq_dec t a) as [Hin|Hn].
    + apply Nat.leb_le. apply H. exact Hin.
    + unfold cnt. rewrite (proj1 (count_occ_not_In tok_eq_dec a t) Hn). lia.
  - intros H t _. apply Nat.leb_le. apply H.
Qed.

(** * The traversal: original_node vs updated_node *)
Lemma set_value_id (a : arg) : set_value a (value a) = a.
Proof. destruct a. reflexivity. Qed.
Lemma map_id_Forall {A} (g : A -> A) l : Forall (fun a => g a = a) l -> map g l = l.
Proof. induction 1 as [|a l Ha _ IH]; simpl; [reflexivity|]. rewrite Ha, IH. reflexivity. Qed.

Lemma rw_unmarked k e : has_marked e = false -> rw k e = e.
Proof.
  induction e as [s|e a IH|s|m f args IHf IHa] using expr_ind'; simpl; intros H; try reflexivity.
  - rewrite (IH H). reflexivity.
  - apply orb_false_iff in H. destruct H as [H Ha]. apply orb_false_iff in H. destruct H as [Hm Hf].
    subst m. rewrite (IHf Hf). f_equal. apply map_id_Forall.
    rewrite Forall_forall in *. intros a Hin. rewrite (IHa a Hin); [apply set_value_id|].
    destruct (has_marked (value a)) eqn:Ea; [|reflexivity].
    assert (X : existsb (fun a => has_marked (value a)) args = true) by (apply existsb_exists; exists a; split; assumption).
    rewrite X in Ha. discriminate.
Qed.
Lemma rw_upd_unmarked k e : has_marked e = false -> rw_upd k e = e.
Proof.
  induction e as [s|e a IH|s|m f args IHf IHa] using expr_ind'; simpl; intros H; try reflexivity.
  - rewrite (IH H). reflexivity.
  - apply orb_false_iff in H. destruct H as [H Ha]. apply orb_false_iff in H. destruct H as [Hm Hf].
    subst m. rewrite (IHf Hf). f_equal. apply map_id_Forall.
    rewrite Forall_forall in *. intros a Hin. rewrite (IHa a Hin); [apply set_value_id|].
    destruct (has_marked (value a)) eqn:Ea; [|reflexivity].
    assert (X : existsb (fun a => has_marked (value a)) args = true) by (apply existsb_exists; exists a; split; assumption).
    rewrite X in Ha. discriminate.
Qed.

(** when no selected call sits below a selected call, rebuilding from original_node is rebuilding from updated_node *)
Lemma rw_nonnested k e : nonnested e = true -> rw k e = rw_upd k e.
Proof.
  induction e as [s|e a IH|s|m f args IHf IHa] using expr_ind'; simpl; intros H; try reflexivity.
  - rewrite (IH H). reflexivity.
  - apply andb_true_iff in H. destruct H as [H Hargs]. apply andb_true_iff in H. destruct H as [Hm Hf].
    destruct m.
    + apply negb_true_iff in Hm. apply orb_false_iff in Hm. destruct Hm as [Mf Ma].
      assert (E1 : map (fun a => set_value a (rw k (value a))) args = args).
      { apply map_id_Forall. apply Forall_forall. intros a Hin. rewrite rw_unmarked; [apply set_value_id|].
        destruct (has_marked (value a)) eqn:Ea; [|reflexivity].
        assert (X : existsb (fun a => has_marked (value a)) args = true) by (apply existsb_exists; exists a; split; assumption).
        rewrite X in Ma. discriminate. }
      assert (E2 : map (fun a => set_value a (rw_upd k (value a))) args = args).
      { apply map_id_Forall. apply Forall_forall. intros a Hin. rewrite rw_upd_unmarked; [apply set_value_id|].
        destruct (has_marked (value a)) eqn:Ea; [|reflexivity].
        assert (X : existsb (fun a => has_marked (value a)) args = true) by (apply existsb_exists; exists a; split; assumption).
        rewrite X in Ma. discriminate. }
      rewrite E1, E2, (rw_unmarked k f Mf), (rw_upd_unmarked k f Mf). reflexivity.
    + rewrite (IHf Hf). f_equal. apply map_ext_in. intros a Hin.
      rewrite Forall_forall in IHa. rewrite (IHa a Hin); [reflexivity|].
      rewrite forallb_forall in Hargs. apply Hargs. exact Hin.
Qed.

Lemma nodupb_NoDup l : nodupb l = true -> NoDup l.
Proof.
  induction l as [|x r IH]; simpl; intros H; [constructor|].
  apply andb_true_iff in H. destruct H as [H1 H2]. constructor; [|apply IH; exact H2].
  intros Hin. apply mem_str_In in Hin. rewrite Hin in H1. discriminate.
Qed.

(** * Where the elements of the result come from *)
Lemma in_del {A} (x : A) i l : In x (del_nth i l) -> In x l.
Proof.
  revert i. induction l as [|y l IH]; intros i H; simpl in *; [destruct i; exact H|].
  destruct i as [|j]; [right; exact H|]. destruct H as [E|H]; [left; exact E|right; exact (IH j H)].
Qed.
Lemma match_in a info i n : match_with_existing_arg a info = Some (i, n) -> In n info.
Proof. intros H. apply match_nth in H. apply nth_error_In in H. exact H. Qed.
Definition made_from (info : list newarg) (x : arg) : Prop :=
  exists n ex, In n info /\ x = make_new_arg (na_value n) (Some (na_name n)) ex.
Lemma loop_elems args : forall info,
  (forall x, In x (fst (replace_loop args info)) -> In x args \/ made_from info x) /\
  (forall n, In n (snd (replace_loop args info)) -> In n info).
Proof.
  induction args as [|a r IH]; intros info; simpl replace_loop.
  - split; [intros x []|intros n H; exact H].
  - destruct (match_with_existing_arg a info) as [[i n0]|] eqn:Em.
    + destruct (IH (del_nth i info)) as [IH1 IH2]. destruct (replace_loop r (del_nth i info)) as [o rest]. cbn [fst snd] in *.
      split.
      * intros x [E|Hx].
        -- right. exists n0, (Some a). split; [exact (match_in _ _ _ _ Em)|symmetry; exact E].
        -- destruct (IH1 x Hx) as [H|[n [ex [Hn E]]]]; [left; right; exact H|].
           right. exists n, ex. split; [exact (in_del _ _ _ Hn)|exact E].
      * intros n Hn. exact (in_del _ _ _ (IH2 n Hn)).
    + destruct (IH info) as [IH1 IH2]. destruct (replace_loop r info) as [o rest]. cbn [fst snd] in *.
      split; [|exact IH2].
      intros x [E|Hx]; [left; left; exact E|]. destruct (IH1 x Hx) as [H|H]; [left; right; exact H|right; exact H].
Qed.
Lemma replace_args_elems args info x :
  In x (replace_args args info) -> In x args \/ made_from info x.
Proof.
  unfold replace_args. destruct (loop_elems args info) as [H1 H2].
  destruct (replace_loop args info) as [o rest]. cbn [fst snd] in *.
  rewrite in_app_iff. intros [H|H]; [exact (H1 x H)|].
  right. unfold appended in H. apply in_map_iff in H. destruct H as [n [E Hn]]. apply filter_In in Hn.
  exists n, None. split; [apply H2; apply Hn|symmetry; exact E].
Qed.

(** * secure-flask-cookie is a fixed point although its NewArg list depends on the call *)
Lemma cookie_strict_stable args :
  existsb is_samesite_strict (replace_args args (choose_new_args args)) = existsb is_samesite_strict args.
Proof.
  destruct (existsb is_samesite_strict args) eqn:E.
  - apply existsb_exists in E. destruct E as [a [Hin Ha]].
    apply In_nth_error in Hin. destruct Hin as [i Hi].
    apply existsb_exists. exists a. split; [|exact Ha].
    apply (nth_error_In _ i). apply replace_args_unlisted; [exact Hi|].
    unfold choose_new_args.
    assert (X : existsb is_samesite_strict args = true).
    { apply existsb_exists. exists a. split; [exact (nth_error_In _ _ Hi)|exact Ha]. }
    rewrite X. unfold is_samesite_strict in Ha. apply andb_true_iff in Ha. destruct Ha as [Hk _].
    unfold kw_is in Hk. unfold unlisted. destruct (kw a) as [k|]; [|discriminate].
    apply str_eqb_eq in Hk. subst k. vm_compute. reflexivity.
  - destruct (existsb is_samesite_strict (replace_args args (choose_new_args args))) eqn:E'; [|reflexivity].
    exfalso. apply existsb_exists in E'. destruct E' as [x [Hx Sx]].
    destruct (replace_args_elems _ _ _ Hx) as [Hin|[n [ex [Hn Ex]]]].
    + assert (X : existsb is_samesite_strict args = true) by (apply existsb_exists; exists x; split; assumption).
      rewrite X in E. discriminate.
    + unfold choose_new_args in Hn. rewrite E in Hn. subst x.
      simpl in Hn. destruct Hn as [<-|[<-|[<-|[]]]]; vm_compute in Sx; discriminate Sx.
Qed.
Lemma choose_stable args : choose_new_args (replace_args args (choose_new_args args)) = choose_new_args args.
Proof.
  pose proof (cookie_strict_stable args) as E. revert E.
  generalize (replace_args args (choose_new_args args)). intros r E.
  unfold choose_new_args. rewrite E. reflexivity.
Qed.
Lemma cookie_step m f args :
  on_result_found_upd HCookie (ECall m f args) = ECall m f (replace_args args (choose_new_args args)).
Proof. reflexivity. Qed.
Lemma cookie_idempotent m f args :
  let once := on_result_found_upd HCookie (ECall m f args) in
  on_result_found_upd HCookie once = once.
Proof.
  cbv zeta. rewrite !cookie_step. f_equal. rewrite choose_stable.
  apply replace_args_idempotent. apply cookie_names_nodup.
Qed.

(** * https-connection: only the keyword of the tenth argument may change *)
Lemma set_nth_kw_length j k l : length (set_nth_kw j k l) = length l.
Proof. revert j. induction l as [|a r IH]; intros [|j]; simpl; try reflexivity. f_equal. apply IH. Qed.
Lemma set_nth_kw_other j k l : forall i a, i <> j -> nth_error l i = Some a -> nth_error (set_nth_kw j k l) i = Some a.
Proof.
  revert j. induction l as [|x r IH]; intros j i a Hne H; [destruct i; discriminate|].
  destruct j as [|j], i as [|i]; simpl in *; try congruence.
  apply IH; [intros E; apply Hne; f_equal; exact E|exact H].
Qed.
Lemma set_nth_kw_at j k l : forall a, nth_error l j = Some a -> nth_error (set_nth_kw j k l) j = Some (set_kw a k).
Proof.
  revert j. induction l as [|x r IH]; intros j a H; [destruct j; discriminate|].
  destruct j as [|j]; simpl in *; [inversion H; reflexivity|apply IH; exact H].
Qed.
Lemma https_frame args :
  length (https_updated_args args) = length args /\
  (forall i a, i <> 9 -> nth_error args i = Some a -> nth_error (https_updated_args args) i = Some a) /\
  (forall a, nth_error args 9 = Some a ->
     nth_error (https_updated_args args) 9 = Some a \/
     nth_error (https_updated_args args) 9 = Some (set_kw a (S_ "_proxy_config"))).
Proof.
  unfold https_updated_args. destruct (Nat.eqb (count_positional args) 10).
  - split; [apply set_nth_kw_length|]. split.
    + intros i a Hne H. apply set_nth_kw_other; assumption.
    + intros a H. right. apply set_nth_kw_at. exact H.
  - split; [reflexivity|]. split; [intros; assumption|]. intros a H. left. exact H.
Qed.

(** * Token delta of one selected call, and of whole trees *)
Lemma cnt_cons_le x l t : cnt l t <= cnt (x :: l) t.
Proof. unfold cnt. simpl. destruct (tok_eq_dec x t); lia. Qed.
Lemma toks_call m f args : toks (ECall m f args) = toks f ++ toks_args args.
Proof. reflexivity. Qed.
Lemma toks_arg_set_value a v t : cnt (toks_arg (set_value a v)) t + cnt (toks (value a)) t = cnt (toks_arg a) t + cnt (toks v) t.
Proof. unfold toks_arg, set_value. simpl. rewrite !cnt_app. lia. Qed.

Lemma cookie_delta_le args t : cnt (delta_info (choose_new_args args)) t <= cnt (delta_info cookie_full) t.
Proof.
  unfold cookie_full, choose_new_args. change (existsb is_samesite_strict []) with false. cbv iota.
  destruct (existsb is_samesite_strict args); [|apply le_n].
  unfold delta_info. rewrite !flat_map_app, !cnt_app. simpl flat_map at 2. rewrite Nat.add_0_r. apply Nat.le_add_r.
Qed.

(** * set_param: the argument binding a parameter gets the value, everything else is kept *)
Lemma set_first_kw_some name v args : forall r, set_first_kw name v args = Some r ->
  exists i a, nth_error args i = Some a /\ kw_is name a = true /\ r = firstn i args ++ set_value a v :: skipn (S i) args.
Proof.
  induction args as [|a0 l IH]; intros r H; simpl in H; [discriminate|].
  destruct (kw_is name a0) eqn:E.
  - inversion H; subst. exists O, a0. repeat split; assumption.
  - destruct (set_first_kw name v l) as [r'|]; [|discriminate]. inversion H; subst.
    destruct (IH r' eq_refl) as [i [a [Hi [Hk Hr]]]]. exists (S i), a. repeat split; try assumption.
    simpl. rewrite Hr. reflexivity.
Qed.
Lemma set_first_kw_none name v args : set_first_kw name v args = None -> has_kw name args = false.
Proof.
  induction args as [|a0 l IH]; simpl; intros H; [reflexivity|].
  destruct (kw_is name a0); [discriminate|]. destruct (set_first_kw name v l); [discriminate|]. simpl. apply IH. reflexivity.
Qed.
Lemma replace_at_count args : forall i a v t, nth_error args i = Some a ->
  cnt (toks_args (firstn i args ++ set_value a v :: skipn (S i) args)) t + cnt (toks (value a)) t
  = cnt (toks_args args) t + cnt (toks v) t.
Proof.
  induction args as [|a0 l IH]; intros i a v t H; [destruct i; discriminate|].
  destruct i as [|j]; simpl in H.
  - inversion H; subst. simpl firstn. simpl skipn. simpl app. rewrite !toks_args_cons, !cnt_app.
    pose proof (toks_arg_set_value a v t). lia.
  - simpl firstn. simpl skipn. rewrite <- app_comm_cons, !toks_args_cons, !cnt_app.
    pose proof (IH j a v t H). simpl skipn in *. lia.
Qed.
Lemma set_param_cases name pos v args :
  (exists i a, nth_error args i = Some a /\
               set_param name pos v args = firstn i args ++ set_value a v :: skipn (S i) args /\
               (kw_is name a = true \/ (i = pos /\ is_plain_positional a = true /\ has_kw name args = false))) \/
  (set_param name pos v args = args ++ [mkArg (Some name) 0 0 0 v] /\ has_kw name args = false).
Proof.
  unfold set_param. destruct (set_first_kw name v args) as [r|] eqn:E.
  - left. destruct (set_first_kw_some _ _ _ _ E) as [i [a [Hi [Hk Hr]]]]. exists i, a. repeat split; try assumption. left. exact Hk.
  - pose proof (set_first_kw_none _ _ _ E) as Hn.
    destruct (nth_error args pos) as [a|] eqn:Hp; [|right; split; [reflexivity|exact Hn]].
    destruct (is_plain_positional a && forallb is_plain_positional (firstn pos args)) eqn:C; [|right; split; [reflexivity|exact Hn]].
    left. exists pos, a. repeat split; try assumption. right. apply andb_true_iff in C. repeat split; [apply C|exact Hn].
Qed.
Lemma set_param_count_le name pos v args t :
  cnt (toks_args (set_param name pos v args)) t <= cnt (toks_args args) t + cnt (TKw name :: toks v) t.
Proof.
  pose proof (cnt_cons_le (TKw name) (toks v) t) as C.
  destruct (set_param_cases name pos v args) as [[i [a [Hi [Hr _]]]]|[Hr _]]; rewrite Hr.
  - pose proof (replace_at_count args i a v t Hi). lia.
  - rewrite toks_args_app, cnt_app.
    change (toks_args [mkArg (Some name) 0 0 0 v]) with ((TKw name :: toks v) ++ []). rewrite app_nil_r. lia.
Qed.

Lemma arg_kind_noncall k u : arg_kind k = true -> (forall m f a, u <> ECall m f a) -> on_result_found_upd k u = u.
Proof.
  intros Hk Hu. destruct u; [| | |exfalso; eapply Hu; reflexivity]; destruct k; try discriminate Hk; reflexivity.
Qed.

Lemma single_call_count_le k : arg_kind k = true -> forall u t,
  cnt (toks (on_result_found_upd k u)) t <= cnt (toks u) t + cnt (delta_kind k) t.
Proof.
  intros Hk u t. destruct u as [s|e a|s|m f args].
  1-3: rewrite arg_kind_noncall by (assumption || (intros; discriminate)); lia.
  unfold on_result_found_upd.
  destruct k as [info| |name v|safe|v safe|lim| | | | | | | |]; try discriminate Hk; cbn [on_result_found update_arg_target with_args args_of add_arg_to_call delta_kind].
  - rewrite !toks_call, !cnt_app. pose proof (replace_args_count_le args info t). lia.
  - rewrite !toks_call, !cnt_app. pose proof (replace_args_count_le args (choose_new_args args) t).
    pose proof (cookie_delta_le args t). lia.
  - rewrite !toks_call, !cnt_app. unfold add_arg. rewrite toks_args_app, cnt_app.
    change (toks_args [mkArg (Some name) 0 0 0 v]) with ((TKw name :: toks v) ++ []). rewrite app_nil_r. lia.
  - assert (G : cnt (toks (ECall m f (replace_args args (ssl_protocol safe)))) t
                <= cnt (toks (ECall m f args)) t + cnt (delta_info (ssl_protocol safe)) t).
    { rewrite !toks_call, !cnt_app. pose proof (replace_args_count_le args (ssl_protocol safe) t). lia. }
    destruct args as [|a [|b r]]; try exact G.
    destruct (kw a); [exact G|].
    rewrite !toks_call, !cnt_app. unfold ssl_protocol. rewrite delta_cons, cnt_app.
    change (toks_args [make_new_arg safe None None]) with (toks safe ++ []). rewrite app_nil_r. cbn [na_name na_value].
    pose proof (cnt_cons_le (TKw (S_ "protocol")) (toks safe) t). lia.
  - rewrite !toks_call, !cnt_app.
    pose proof (cnt_cons_le (TKw (S_ "Loader")) (toks safe) t) as C.
    destruct v; [|pose proof (set_param_count_le (S_ "Loader") 1 safe args t); unfold pyyaml_args; lia].
    destruct args as [|a0 [|a1 r]]; unfold pyyaml_args; cbn [firstn app].
    + change (toks_args [mkArg (Some (S_ "Loader")) 0 0 0 safe]) with ((TKw (S_ "Loader") :: toks safe) ++ []).
      rewrite app_nil_r. change (toks_args []) with (@nil tok); change (cnt [] t) with O; lia.
    + rewrite !toks_args_cons, !cnt_app.
      change (toks_arg (mkArg (Some (S_ "Loader")) 0 0 0 safe)) with (TKw (S_ "Loader") :: toks safe). change (toks_args []) with (@nil tok); change (cnt [] t) with O; lia.
    + rewrite !toks_args_cons, !cnt_app. pose proof (toks_arg_set_value a1 safe t). change (toks_args []) with (@nil tok); change (cnt [] t) with O; lia.
  - rewrite !toks_call, !cnt_app.
    change (toks_args [mkArg None 0 0 0 lim]) with (toks lim ++ []). rewrite app_nil_r. lia.
Qed.

Lemma rw_upd_args_count_le k args t d :
  Forall (fun a => cnt (toks (rw_upd k (value a))) t <= cnt (toks (value a)) t + nmarked (value a) * d) args ->
  cnt (toks_args (map (fun a => set_value a (rw_upd k (value a))) args)) t
  <= cnt (toks_args args) t + list_sum (map (fun a => nmarked (value a)) args) * d.
Proof.
  induction 1 as [|a r Ha _ IH]; [simpl; lia|].
  simpl map. rewrite !toks_args_cons, !cnt_app. simpl list_sum.
  pose proof (toks_arg_set_value a (rw_upd k (value a)) t). lia.
Qed.

Lemma rw_upd_count_le k e t : arg_kind k = true ->
  cnt (toks (rw_upd k e)) t <= cnt (toks e) t + nmarked e * cnt (delta_kind k) t.
Proof.
  intros Hk. induction e as [s|e a IH|s|m f args IHf IHa] using expr_ind'.
  - simpl. lia.
  - simpl. rewrite !cnt_app. lia.
  - simpl. lia.
  - cbn [rw_upd].
    set (u := ECall m (rw_upd k f) (map (fun a => set_value a (rw_upd k (value a))) args)).
    assert (Hu : cnt (toks u) t <= cnt (toks (ECall m f args)) t
                 + (nmarked f + list_sum (map (fun a => nmarked (value a)) args)) * cnt (delta_kind k) t).
    { subst u. rewrite !toks_call, !cnt_app.
      pose proof (rw_upd_args_count_le k args t (cnt (delta_kind k) t) IHa). lia. }
    cbn [nmarked]. destruct m.
    + pose proof (single_call_count_le k Hk u t). lia.
    + lia.
Qed.

(** * the harness's executable form of the frame is the model, when names are distinct *)
Lemma spec_map_length pre args info : length (spec_map pre args info) = length args.
Proof. revert pre. induction args as [|a r IH]; intros pre; simpl; [reflexivity|]. f_equal. apply IH. Qed.
Lemma spec_map_nth args : forall pre info i a, nth_error args i = Some a ->
  nth_error (spec_map pre args info) i = Some (spec_at (pre ++ firstn i args) a info).
Proof.
  induction args as [|a0 r IH]; intros pre info i a H; [destruct i; discriminate|].
  destruct i as [|j]; simpl in *.
  - inversion H; subst. rewrite app_nil_r. reflexivity.
  - rewrite (IH (pre ++ [a0]) info j a H), <- app_assoc. reflexivity.
Qed.
Lemma nth_error_ext {A} (l1 l2 : list A) : (forall i, nth_error l1 i = nth_error l2 i) -> l1 = l2.
Proof.
  revert l2. induction l1 as [|x l1 IH]; intros [|y l2] H; try reflexivity.
  - specialize (H O). discriminate.
  - specialize (H O). discriminate.
  - pose proof (H O) as H0. simpl in H0. inversion H0; subst. f_equal. apply IH. intros i. exact (H (S i)).
Qed.
Lemma nth_error_firstn_lt' {A} (l : list A) : forall n i, i < n -> nth_error (firstn n l) i = nth_error l i.
Proof.
  induction l as [|x l IH]; intros [|n] [|i] H; simpl; try reflexivity; try lia. apply IH. lia.
Qed.
Lemma replace_args_is_spec args info : NoDup (names info) -> replace_args args info = spec_replace args info.
Proof.
  intros ND. destruct (replace_args_frame args info ND) as [HL [HN HS]].
  rewrite <- (firstn_skipn (length args) (replace_args args info)), HS. unfold spec_replace. f_equal.
  apply nth_error_ext. intros i.
  destruct (nth_error args i) as [a|] eqn:Hi.
  - rewrite (spec_map_nth args [] info i a Hi). simpl app.
    rewrite nth_error_firstn_lt' by (apply nth_error_Some; rewrite Hi; discriminate). apply HN. exact Hi.
  - apply nth_error_None in Hi.
    rewrite (proj2 (nth_error_None _ _)) by (rewrite firstn_length; lia).
    symmetry. apply nth_error_None. rewrite spec_map_length. exact Hi.
Qed.

(** * "Nothing disappears": lower bounds *)
Lemma set_first_kw_count name v args t : forall r, set_first_kw name v args = Some r ->
  exists old, first_kw_value name args = Some old /\
              cnt (toks_args r) t + cnt (toks old) t = cnt (toks_args args) t + cnt (toks v) t.
Proof.
  induction args as [|a0 l IH]; intros r H; simpl in H; [discriminate|]. simpl first_kw_value.
  destruct (kw_is name a0).
  - inversion H; subst. exists (value a0). split; [reflexivity|].
    rewrite !toks_args_cons, !cnt_app. pose proof (toks_arg_set_value a0 v t). lia.
  - destruct (set_first_kw name v l) as [r'|]; [|discriminate]. inversion H; subst.
    destruct (IH r' eq_refl) as [old [Ho Hc]]. exists old. split; [exact Ho|].
    rewrite !toks_args_cons, !cnt_app. lia.
Qed.
Lemma set_first_kw_none_value name v args : set_first_kw name v args = None -> first_kw_value name args = None.
Proof.
  induction args as [|a0 l IH]; simpl; intros H; [reflexivity|].
  destruct (kw_is name a0); [discriminate|]. destruct (set_first_kw name v l); [discriminate|]. apply IH. reflexivity.
Qed.
Lemma set_param_count_ge name pos v args t :
  cnt (toks_args args) t <= cnt (toks_args (set_param name pos v args)) t + cnt (set_param_lost name pos args) t.
Proof.
  unfold set_param, set_param_lost. destruct (set_first_kw name v args) as [r|] eqn:E.
  - destruct (set_first_kw_count name v args t r E) as [old [Ho Hc]]. rewrite Ho. lia.
  - rewrite (set_first_kw_none_value name v args E).
    destruct (nth_error args pos) as [a|] eqn:Hp.
    + destruct (is_plain_positional a && forallb is_plain_positional (firstn pos args)).
      * pose proof (replace_at_count args pos a v t Hp). lia.
      * rewrite toks_args_app, cnt_app. lia.
    + rewrite toks_args_app, cnt_app. lia.
Qed.

Lemma cookie_unlisted_mono args a : unlisted a cookie_full = true -> unlisted a (choose_new_args args) = true.
Proof.
  unfold cookie_full, choose_new_args. change (existsb is_samesite_strict []) with false. cbv iota.
  destruct (existsb is_samesite_strict args); [|intros H; exact H].
  unfold unlisted. destruct (kw a) as [k|]; [|reflexivity]. unfold find_info. cbn [app find na_name].
  destruct (str_eqb k (S_ "secure")); [intros H; exact H|].
  destruct (str_eqb k (S_ "httponly")); [intros H; exact H|]. reflexivity.
Qed.

Lemma single_call_count_ge k : lower_kind k = true -> forall u t,
  cnt (toks u) t <= cnt (toks (on_result_found_upd k u)) t + cnt (lost_kind k (args_of u)) t.
Proof.
  intros Hk u t. destruct u as [s|e a|s|m f args].
  1-3: rewrite arg_kind_noncall by ((destruct k as [| | | |[]| | | | | | | | |]; try discriminate Hk; reflexivity) || (intros; discriminate)); lia.
  unfold on_result_found_upd.
  destruct k as [info| |name v|safe|[] safe|lim| | | | | | | |]; try discriminate Hk;
    cbn [on_result_found update_arg_target with_args args_of add_arg_to_call lost_kind].
  - rewrite !toks_call, !cnt_app. pose proof (replace_args_count_ge args info t). lia.
  - rewrite !toks_call, !cnt_app. pose proof (replace_args_count_ge args (choose_new_args args) t).
    pose proof (listed_values_mono args cookie_full (choose_new_args args) t (cookie_unlisted_mono args)). lia.
  - rewrite !toks_call, !cnt_app. unfold add_arg. rewrite toks_args_app, cnt_app. lia.
  - assert (G : cnt (toks (ECall m f args)) t
                <= cnt (toks (ECall m f (replace_args args (ssl_protocol safe)))) t + cnt (listed_values args (ssl_protocol safe)) t).
    { rewrite !toks_call, !cnt_app. pose proof (replace_args_count_ge args (ssl_protocol safe) t). lia. }
    destruct args as [|a [|b r]]; try (rewrite cnt_app; lia).
    destruct (kw a) eqn:Ek; [rewrite cnt_app; lia|].
    rewrite !toks_call, !cnt_app, toks_args_cons. unfold toks_arg. rewrite Ek. cbn [app].
    change (toks_args []) with (@nil tok). rewrite app_nil_r. lia.
  - rewrite !toks_call, !cnt_app. unfold pyyaml_args. pose proof (set_param_count_ge (S_ "Loader") 1 safe args t). lia.
Qed.

Lemma rw_upd_args_count_ge k args t :
  Forall (fun a => cnt (toks (value a)) t <= cnt (toks (rw_upd k (value a))) t + cnt (lost_tree k (value a)) t) args ->
  cnt (toks_args args) t
  <= cnt (toks_args (map (fun a => set_value a (rw_upd k (value a))) args)) t
     + cnt (flat_map (fun a => lost_tree k (value a)) args) t.
Proof.
  induction 1 as [|a r Ha _ IH]; [simpl; lia|].
  simpl map. simpl flat_map. rewrite !toks_args_cons, !cnt_app.
  pose proof (toks_arg_set_value a (rw_upd k (value a)) t). lia.
Qed.

(** whole trees: what disappears is contained in the old values the documented edits may overwrite *)
Lemma rw_upd_count_ge k e t : lower_kind k = true ->
  cnt (toks e) t <= cnt (toks (rw_upd k e)) t + cnt (lost_tree k e) t.
Proof.
  intros Hk. induction e as [s|e a IH|s|m f args IHf IHa] using expr_ind'.
  - simpl. lia.
  - simpl. rewrite !cnt_app. lia.
  - simpl. lia.
  - cbn [rw_upd lost_tree].
    set (args' := map (fun a => set_value a (rw_upd k (value a))) args).
    set (u := ECall m (rw_upd k f) args').
    assert (Hu : cnt (toks (ECall m f args)) t
                 <= cnt (toks u) t + cnt (lost_tree k f) t + cnt (flat_map (fun a => lost_tree k (value a)) args) t).
    { subst u args'. rewrite !toks_call, !cnt_app. pose proof (rw_upd_args_count_ge k args t IHa). lia. }
    rewrite !cnt_app. destruct m.
    + pose proof (single_call_count_ge k Hk u t) as S. change (args_of u) with args' in S. lia.
    + change (cnt [] t) with O. lia.
Qed.

(** * The model of the documented kinds IS the documented edit *)
Lemma call_edit_documented k : documented_kind k = true -> forall u, on_result_found_upd k u = spec_call k u.
Proof.
  intros Hk u. unfold on_result_found_upd.
  destruct k as [info| |name v|safe|[] safe|lim| | | | | | | |]; try discriminate Hk;
    cbn [on_result_found spec_call update_arg_target add_arg_to_call].
  - rewrite (replace_args_is_spec _ info (nodupb_NoDup _ Hk)). reflexivity.
  - rewrite (replace_args_is_spec _ _ (cookie_names_nodup (args_of u))). reflexivity.
  - reflexivity.
  - reflexivity.
Qed.
Lemma rw_upd_is_spec k e : documented_kind k = true -> rw_upd k e = rw_spec k e.
Proof.
  intros Hk. induction e as [s|e a IH|s|m f args IHf IHa] using expr_ind'; simpl; try reflexivity.
  - rewrite IH. reflexivity.
  - rewrite IHf.
    assert (E : map (fun a => set_value a (rw_upd k (value a))) args = map (fun a => set_value a (rw_spec k (value a))) args).
    { apply map_ext_in. intros a Hin. rewrite Forall_forall in IHa. rewrite (IHa a Hin). reflexivity. }
    rewrite E. destruct m; [apply call_edit_documented; exact Hk|reflexivity].
Qed.

(** * positional_to_keyword *)
Lemma p2k_carries_total m : forall args seen, exists r, positional_to_keyword P2kCarriesOver seen args m = Some r.
Proof.
  intros args. revert m. induction args as [|a l IH]; intros m seen; [exists []; reflexivity|].
  simpl. destruct (IH (tl m) (seen || negb (N.eqb (star a) 0))) as [r' Hr]. rewrite Hr.
  destruct (kw a); [eexists; reflexivity|]. destruct m as [|[k|] m']; try (eexists; reflexivity).
  destruct (seen || negb (N.eqb (star a) 0)); eexists; reflexivity.
Qed.
(** only keywords change: stars, layout tags, values and the order of all arguments are kept *)
Definition strip_kw (a : arg) : N * N * N * expr := (star a, sp a, lay a, value a).
Lemma p2k_only_keywords v : forall args m seen r, positional_to_keyword v seen args m = Some r ->
  map strip_kw r = map strip_kw args.
Proof.
  induction args as [|a l IH]; intros m seen r H; [inversion H; reflexivity|].
  simpl in H. destruct (positional_to_keyword v (seen || negb (N.eqb (star a) 0)) l (tl m)) as [r'|] eqn:Er.
  - pose proof (IH _ _ _ Er) as E.
    destruct (kw a); [inversion H; subst; simpl; rewrite E; reflexivity|].
    destruct v; destruct m as [|[k|] m']; try discriminate H;
      try (inversion H; subst; simpl; rewrite E; reflexivity).
    + destruct (negb (N.eqb (star a) 0)); [discriminate H|]. inversion H; subst. simpl. rewrite E. reflexivity.
    + destruct (seen || negb (N.eqb (star a) 0)); inversion H; subst; simpl; rewrite E; reflexivity.
  - destruct (kw a); [discriminate H|]. destruct v; destruct m as [|[k|] m']; try discriminate H.
    + destruct (negb (N.eqb (star a) 0)); discriminate H.
    + destruct (seen || negb (N.eqb (star a) 0)); discriminate H.
Qed.
(** carries-over: once a starred argument has been seen, everything is returned as it was *)
Lemma p2k_carries_after_star : forall args m, positional_to_keyword P2kCarriesOver true args m = Some args.
Proof.
  induction args as [|a l IH]; intros m; [reflexivity|].
  simpl. rewrite IH. destruct (kw a); [reflexivity|]. destruct m as [|[k|] m']; reflexivity.
Qed.
(** keyword arguments are never touched, whatever the variant *)
Lemma p2k_keeps_keyword_args v : forall args m seen r, positional_to_keyword v seen args m = Some r ->
  forall i a, nth_error args i = Some a -> kw a <> None -> nth_error r i = Some a.
Proof.
  induction args as [|a l IH]; intros m seen r H i b Hb Hk; [destruct i; discriminate|].
  simpl in H. destruct (positional_to_keyword v (seen || negb (N.eqb (star a) 0)) l (tl m)) as [r'|] eqn:Er.
  - destruct i as [|i]; simpl in Hb.
    + inversion Hb; subst. destruct (kw b); [inversion H; reflexivity|contradiction].
    + assert (T : exists x, r = x :: r').
      { destruct (kw a); [inversion H; eexists; reflexivity|].
        destruct v; destruct m as [|[k|] m']; try discriminate H; try (inversion H; eexists; reflexivity).
        - destruct (negb (N.eqb (star a) 0)); [discriminate H|inversion H; eexists; reflexivity].
        - destruct (seen || negb (N.eqb (star a) 0)); inversion H; eexists; reflexivity. }
      destruct T as [x ->]. simpl. exact (IH _ _ _ Er i b Hb Hk).
  - destruct (kw a); [discriminate H|]. destruct v; destruct m as [|[k|] m']; try discriminate H.
    + destruct (negb (N.eqb (star a) 0)); discriminate H.
    + destruct (seen || negb (N.eqb (star a) 0)); discriminate H.
Qed.
(** as written: whenever it does not raise, it is the documented (carries-over) result *)
Lemma p2k_raises_agrees : forall args m seen r, positional_to_keyword P2kRaisesOnStar seen args m = Some r ->
  seen = false -> forallb (fun a => N.eqb (star a) 0) args = true -> positional_to_keyword P2kCarriesOver seen args m = Some r.
Proof.
  induction args as [|a l IH]; intros m seen r H Hs Hall; [exact H|].
  simpl in Hall. apply andb_true_iff in Hall. destruct Hall as [Ha Hl]. subst seen. simpl in *. rewrite Ha in *. simpl in *.
  destruct (positional_to_keyword P2kRaisesOnStar false l (tl m)) as [r'|] eqn:Er.
  - rewrite (IH (tl m) false r' Er eq_refl Hl). destruct (kw a); [exact H|]. destruct m as [|[k|] m']; try discriminate; exact H.
  - destruct (kw a); [discriminate|]. destruct m as [|[k|] m']; discriminate.
Qed.
