# src/core_codemods/semgrep/semgrep_rsa_key_size.py at the commit the model was written against (shape reference; not executed)
class RsaKeySizeTransformer:
    def filter_by_result(self, node) -> bool:
        """
        Special case result-matching for this rule because the SAST
        results returned have a start/end column for the key_size keyword
        within the call, not for the entire call.
        """
        match node:
            case cst.Call():
                pos_to_match = self.node_position(node)
                return any(
                    self.match_location(pos_to_match, result)
                    for result in self.results or []
                )
        return False

    def match_location(self, pos, result):
        return any(
            same_line(pos, location) and fuzzy_column_match(pos, location)
            for location in result.locations
        )

