"""Shared end-to-end engine for the whole-program properties (C01, C02, C07, and feeding C15):
programs on which a codemod makes a change, in structural variants, pushed through the real codemod
(`codemod.apply(context)` on a scratch project, the same public route the CLI takes) twice in a row.

Seeds are the INPUT programs of the repository's own codemod tests, harvested once at build time by
tools/harvest_seeds.py into corpus/seeds/seeds.json (never the expected outputs; checks never read /repo/tests)."""
from __future__ import annotations

import builtins
import json
import os
import subprocess
import symtable
import sys
import warnings
from concurrent.futures import ThreadPoolExecutor
from pathlib import Path

from harness import core

SEEDS = core.VERIF / "corpus" / "seeds" / "seeds.json"


def load_seeds():
    return json.loads(SEEDS.read_text())


# ------------------------------------------------------------------------------------------------
# oracles
# ------------------------------------------------------------------------------------------------
def parses(text: str) -> bool:
    try:
        with warnings.catch_warnings():
            warnings.simplefilter("ignore")
            compile(text, "<p>", "exec", dont_inherit=True)
        return True
    except (SyntaxError, ValueError, RecursionError):
        return False


_BUILTINS = set(dir(builtins)) | {"__file__", "__name__", "__doc__", "__builtins__", "__spec__", "__package__", "__loader__",
                                  "__path__", "__class__", "__debug__", "__annotations__", "__dict__", "__qualname__", "__module__"}


def unresolved(text: str):
    """Scope-aware set of names that are read but bound neither in an enclosing scope, at module level, nor as builtins.
    Returns None when the question cannot be decided syntactically (star imports)."""
    try:
        with warnings.catch_warnings():
            warnings.simplefilter("ignore")
            top = symtable.symtable(text, "<p>", "exec")
    except (SyntaxError, ValueError, RecursionError):
        return None
    if "import *" in text:
        import ast
        for n in ast.walk(ast.parse(text)):
            if isinstance(n, ast.ImportFrom) and any(a.name == "*" for a in n.names):
                return None
    module_bound = set()
    for s in top.get_symbols():
        if s.is_assigned() or s.is_imported() or s.is_namespace() or s.is_parameter():
            module_bound.add(s.get_name())
    # names declared `global x` and assigned inside functions are module-level bindings too
    def walk(t):
        yield t
        for c in t.get_children():
            yield from walk(c)
    for t in walk(top):
        if t is top:
            continue
        for s in t.get_symbols():
            if s.is_declared_global() and s.is_assigned():
                module_bound.add(s.get_name())
    out = set()
    for t in walk(top):
        for s in t.get_symbols():
            n = s.get_name()
            if not s.is_referenced():
                continue
            if t is top:
                bound_here = s.is_assigned() or s.is_imported() or s.is_namespace()
                if not bound_here and n not in _BUILTINS:
                    out.add(n)
            else:
                if s.is_global() and n not in module_bound and n not in _BUILTINS:
                    # implicit or declared global, never bound at module level
                    out.add(n)
                elif t.get_type() == "class" and not s.is_global() and not s.is_free() and not s.is_local():
                    pass
    return out


# ------------------------------------------------------------------------------------------------
# structural variants (each preserves the trigger; inputs that do not compile are discarded by the caller)
# ------------------------------------------------------------------------------------------------
def _indent(code: str, prefix: str) -> str:
    return "".join((prefix + l if l.strip() else l) for l in code.splitlines(keepends=True))


def _split_future(code: str):
    """`from __future__` imports (and a module docstring) must stay first."""
    lines = code.splitlines(keepends=True)
    head = []
    i = 0
    while i < len(lines) and (lines[i].strip() == "" or lines[i].lstrip().startswith("#") or lines[i].startswith("from __future__")):
        head.append(lines[i])
        i += 1
    return "".join(head), "".join(lines[i:])


def variants(code: str, shift_ok: bool):
    """(name, text) pairs.  shift_ok=False keeps every token on its line and column (SAST seeds with result files)."""
    if not code.endswith("\n"):
        code_nl = code + "\n"
    else:
        code_nl = code
    out = [("identity", code)]
    out.append(("crlf", code_nl.replace("\r\n", "\n").replace("\n", "\r\n")))
    out.append(("no_final_newline", code_nl.rstrip("\n")))
    out.append(("trailing_stmt", code_nl + "\n\nclass _Tail:\n    attr = 1\n\n    def method(self):\n        return self.attr\n"))
    if shift_ok:
        head, body = _split_future(code_nl)
        if body.strip():
            out.append(("header_shift", head + "# header comment\n\nimport os as _os_unused_check\n\n" + body))
            out.append(("in_def", head + "def wrapper_function():\n" + _indent(body, "    ") + "\n\nwrapper_function()\n"))
            out.append(("in_if", head + "if True:\n" + _indent(body, "    ")))
            out.append(("in_try", head + "try:\n" + _indent(body, "    ") + "except ImportError:\n    raise\n"))
            out.append(("in_class_method", head + "class Wrapper:\n    def method(self):\n" + _indent(body, "        ") + "\n"))
            out.append(("in_def_tabs", head + "def wrapper_function():\n" + _indent(body, "\t") + "\n"))
            out.append(("in_with", head + "import contextlib\nwith contextlib.suppress(KeyError):\n" + _indent(body, "    ")))
            out.append(("in_for", head + "for _i in range(1):\n" + _indent(body, "    ")))
    return out


# ------------------------------------------------------------------------------------------------
# jobs
# ------------------------------------------------------------------------------------------------
def build_jobs(rng, per_codemod: int, variants_per_seed: int, only=None, include_corpus=True, priority=()):
    """One job per codemod.  A job is a list of subprojects; a subproject = files + optional result file.
    Find-and-fix seeds named code.py are batched into one subproject (one detector call per pass)."""
    seeds = [s for s in load_seeds() if s["expect_change"] and not s.get("lines_to_exclude")]
    by = {}
    for s in seeds:
        by.setdefault(s["codemod"], []).append(s)
    jobs = []
    for cm, lst in sorted(by.items()):
        if only and cm not in only:
            continue
        lst = sorted(lst, key=lambda s: s["code"])
        rng.shuffle(lst)
        chosen = lst[:per_codemod]
        subs = []
        batch_files, batch_meta = {}, {}
        k = 0
        for s in chosen:
            shift_ok = s["tool"] is None and s["filename"] == "code.py"
            vs = variants(s["code"], shift_ok, rng)
            if s["tool"] == "defectdojo":
                # DefectDojo findings carry a line only: spellings that keep every statement on its line are fair game
                vs = vs + [v for v in binding_variants(s["code"]) if v[0] == "aliased_import_renamed"] + module_alias_variants(s["code"])
            ident = vs[0]
            rest = vs[1:]
            rng.shuffle(rest)
            # variants whose name starts with a `priority` prefix are always taken (one of each name), then random ones
            prio, seen_names = [], set()
            for v in rest:
                if any(v[0].startswith(p) for p in priority) and v[0] not in seen_names:
                    prio.append(v)
                    seen_names.add(v[0])
            others = [v for v in rest if v not in prio]
            for vname, text in [ident] + prio + others[:max(0, variants_per_seed - 1)]:
                if not parses(text):
                    continue
                if s["tool"] is None and s["filename"] == "code.py":
                    name = f"m{k}.py"
                    k += 1
                    batch_files[name] = text
                    batch_meta[name] = {"variant": vname, "seed_filename": s["filename"]}
                else:
                    subs.append({"files": {s["filename"]: text}, "meta": {s["filename"]: {"variant": vname, "seed_filename": s["filename"]}},
                                 "tool": s["tool"], "results": s["results"]})
        if batch_files:
            # legacy-encoded twins of a few batch files: a non-ASCII comment, a PEP 263 cookie, bytes in that codec
            encodings = {}
            for name in list(batch_files)[:2]:
                codec, cookie, sample = rng.choice([("euc_jp", "euc-jp", "\u65e5\u672c\u8a9e"), ("shift_jis", "shift_jis", "\u30c6\u30b9\u30c8"),
                                                    ("cp1252", "cp1252", "caf\u00e9 \u20ac"), ("latin-1", "latin-1", "na\u00efve"), ("gbk", "gbk", "\u4e2d\u6587")])
                head, body = _split_future(batch_files[name] if batch_files[name].endswith("\n") else batch_files[name] + "\n")
                text = f"# -*- coding: {cookie} -*-\n# {sample}\n" + head + body
                if parses(text):
                    en = f"enc_{name}"
                    batch_files[en] = text
                    batch_meta[en] = {"variant": f"encoded_cookie:{cookie}", "seed_filename": "code.py"}
                    encodings[en] = codec
            subs.append({"files": batch_files, "meta": batch_meta, "tool": None, "results": None, "encodings": encodings,
                         "manifest": rng.choice(["requirements.txt", "setup.py"])})
        if subs:
            jobs.append({"codemod": cm, "subprojects": subs})
    return jobs


def run_jobs(ctx, jobs, workers=12, timeout=900):
    """Run every job in a worker subprocess (harness/e2e_worker.py) importing the implementation from core.REPO."""
    ctx._e2e_calls = getattr(ctx, "_e2e_calls", 0) + 1
    d = ctx.scratch / f"e2e{ctx._e2e_calls}"      # one directory per call: job/out files are never reused
    d.mkdir()

    def one(i_job):
        i, job = i_job
        jf = d / f"job{i}.json"
        of = d / f"out{i}.json"
        wd = d / f"w{i}"
        wd.mkdir(exist_ok=True)
        jf.write_text(json.dumps(job))
        env = core.cli_env()
        env["PYTHONPATH"] = f"{core.REPO / 'src'}:{core.VERIF}"
        env[core.GUARD] = "1"
        try:
            p = subprocess.run([core.PY, "-m", "harness.e2e_worker", str(jf), str(of), str(wd)], env=env, cwd=str(core.VERIF),
                               stdout=subprocess.PIPE, stderr=subprocess.PIPE, timeout=timeout)
            if p.returncode == 0 and of.exists():
                return json.loads(of.read_text())
            return {"codemod": job["codemod"], "worker_error": p.stderr.decode(errors="replace")[-2000:], "subprojects": []}
        except subprocess.TimeoutExpired:
            return {"codemod": job["codemod"], "worker_error": "timeout", "subprojects": []}

    with ThreadPoolExecutor(max_workers=workers) as ex:
        return list(ex.map(one, enumerate(jobs)))


# ------------------------------------------------------------------------------------------------
# token-level layout variants (same AST, different layout) — appended to `variants` when shift_ok
# ------------------------------------------------------------------------------------------------
def _same_ast(a: str, b: str) -> bool:
    import ast
    try:
        return ast.dump(ast.parse(a)) == ast.dump(ast.parse(b))
    except (SyntaxError, ValueError, RecursionError):
        return False


def layout_variants(code: str):
    """(name, text): exploded brackets (newline after every opening bracket and comma inside brackets), trailing
    comments on every logical line, swapped quote style of simple string literals.  Each keeps the AST."""
    import io
    import tokenize
    out = []
    try:
        toks = list(tokenize.generate_tokens(io.StringIO(code).readline))
    except (tokenize.TokenError, IndentationError, SyntaxError):
        return out
    lines = code.splitlines(keepends=True)

    def offset(pos):
        return sum(len(l) for l in lines[:pos[0] - 1]) + pos[1]

    # 1. exploded brackets
    ins, depth = [], 0
    in_fstring = 0
    for t in toks:
        if t.type == getattr(tokenize, "FSTRING_START", -1):
            in_fstring += 1
        elif t.type == getattr(tokenize, "FSTRING_END", -1):
            in_fstring -= 1
        if t.type == tokenize.OP and not in_fstring:
            if t.string in "([{":
                depth += 1
                ins.append(offset(t.end))
            elif t.string in ")]}":
                depth -= 1
            elif t.string == "," and depth > 0:
                ins.append(offset(t.end))
    if ins:
        s = code
        for o in sorted(ins, reverse=True):
            s = s[:o] + "\n        " + s[o:]
        if _same_ast(code, s):
            out.append(("exploded_brackets", s))
    # 2. trailing comments on logical lines
    ins = [offset(t.start) for t in toks if t.type == tokenize.NEWLINE and t.string.startswith(("\n", "\r"))]
    if ins:
        s = code
        for o in sorted(set(ins), reverse=True):
            s = s[:o] + "  # note: keep" + s[o:]
        if _same_ast(code, s):
            out.append(("trailing_comments", s))
    # 3. swapped quotes
    rep = []
    for t in toks:
        if t.type == tokenize.STRING:
            body = t.string
            i = 0
            while i < len(body) and body[i] in "rRbBuU":
                i += 1
            q = body[i:i + 3] if body[i:i + 3] in ('"""', "'''") else body[i:i + 1]
            if len(q) == 1 and body.endswith(q) and len(body) >= i + 2:
                inner = body[i + 1:-1]
                other = "'" if q == '"' else '"'
                if other not in inner and "\\" not in inner:
                    rep.append((offset(t.start), offset(t.end), body[:i] + other + inner + other))
    if rep:
        s = code
        for a, b, r in sorted(rep, reverse=True):
            s = s[:a] + r + s[b:]
        if _same_ast(code, s):
            out.append(("swapped_quotes", s))
    return out


def second_use_variants(code: str):
    """Every name the module imports is used once more (at module level / inside a function): an import that the rewrite
    no longer needs for the rewritten site must survive because remaining code still uses it."""
    import ast
    try:
        tree = ast.parse(code)
    except (SyntaxError, ValueError, RecursionError):
        return []
    names = []
    for n in tree.body:
        if isinstance(n, ast.Import):
            names += [(a.asname or a.name.split(".")[0]) for a in n.names]
        elif isinstance(n, ast.ImportFrom) and n.module != "__future__":
            names += [(a.asname or a.name) for a in n.names if a.name != "*"]
    names = sorted(set(names))
    if not names:
        return []
    code_nl = code if code.endswith("\n") else code + "\n"
    tup = ", ".join(names) + ("," if len(names) == 1 else "")
    return [("second_use_module", code_nl + f"\n_second_use = ({tup})\n"),
            ("second_use_function", code_nl + f"\n\ndef _second_use_fn():\n    return ({tup})\n")]


def expr_context_variants(code: str, rng=None, limit=6):
    """Embed sub-expressions of the seed in other syntactic contexts: extra parentheses, operand of an arithmetic /
    boolean / comparison operator, call argument, subscript, tuple right-hand side, conditional expression, await-less
    lambda body...  Each variant replaces ONE expression node E (call, comparison, boolean operation, unary not, binary
    operation, comprehension, attribute call) by a wrapper around its source text.  The result must still compile."""
    import ast
    import random as _random
    rng = rng or _random.Random(0)
    try:
        tree = ast.parse(code)
    except (SyntaxError, ValueError, RecursionError):
        return []
    lines = code.splitlines(keepends=True)
    # ast columns are UTF-8 byte offsets
    blines = [l.encode("utf-8") for l in lines]

    def off(lineno, col):
        return sum(len(b) for b in blines[:lineno - 1]) + col

    data = code.encode("utf-8")
    nodes = []
    for n in ast.walk(tree):
        if isinstance(n, (ast.Call, ast.Compare, ast.BoolOp, ast.UnaryOp, ast.BinOp, ast.ListComp, ast.IfExp)) and hasattr(n, "end_col_offset"):
            nodes.append(n)
    # statement-level: assignments whose value can become a tuple
    assigns = [n for n in ast.walk(tree) if isinstance(n, ast.Assign) and len(n.targets) == 1 and isinstance(n.targets[0], ast.Name)]
    rng.shuffle(nodes)
    wrappers = [("parens", "({})"), ("arith_operand", "0 + ({})"), ("not_operand", "not ({})"), ("compare_operand", "({}) == 1"),
                ("or_operand", "({}) or None"), ("call_arg", "print({})"), ("subscript", "[{}][0]"), ("ifexp", "({}) if True else None"),
                ("tuple_elem", "({}, 2)[0]"), ("fstring", "f'{{{}!r}}'"), ("bare_arith", "1 + {}"), ("bare_not", "not {}"),
                ("bare_compare", "{} == 1"), ("bare_or", "None or {}"), ("bare_and", "{} and 1")]
    out = []
    for n in nodes[:limit * 2]:
        a, b = off(n.lineno, n.col_offset), off(n.end_lineno, n.end_col_offset)
        seg = data[a:b].decode("utf-8")
        if "\n" in seg and len(seg) > 400:
            continue
        name, w = rng.choice(wrappers)
        new = (data[:a] + w.format(seg).encode("utf-8") + data[b:]).decode("utf-8")
        if new != code and parses(new):
            out.append((f"ctx_{name}", new))
        if len(out) >= limit:
            break
    for n in assigns[:2]:
        v = n.value
        a, b = off(v.lineno, v.col_offset), off(v.end_lineno, v.end_col_offset)
        seg = data[a:b].decode("utf-8")
        new = (data[:a] + (seg + ", 2").encode("utf-8") + data[b:]).decode("utf-8")
        if parses(new):
            out.append(("ctx_tuple_rhs", new))
    return out


def nested_call_variants(code: str, rng=None, limit=2):
    """A call nested in its own first positional argument: `f(a, k=v)` -> `f(f(a, k=v), k=v)`.  Syntactically valid; a
    detector that flags `f(...)` flags both, so rewrites of the inner site must survive the rewrite of the outer one."""
    import ast
    import random as _random
    rng = rng or _random.Random(0)
    try:
        tree = ast.parse(code)
    except (SyntaxError, ValueError, RecursionError):
        return []
    blines = [l.encode("utf-8") for l in code.splitlines(keepends=True)]

    def off(lineno, col):
        return sum(len(b) for b in blines[:lineno - 1]) + col

    data = code.encode("utf-8")
    calls = [n for n in ast.walk(tree) if isinstance(n, ast.Call) and n.args and not isinstance(n.args[0], ast.Starred)
             and isinstance(n.func, (ast.Name, ast.Attribute))]
    rng.shuffle(calls)
    out = []
    for n in calls[:limit]:
        a, b = off(n.lineno, n.col_offset), off(n.end_lineno, n.end_col_offset)
        a0, b0 = off(n.args[0].lineno, n.args[0].col_offset), off(n.args[0].end_lineno, n.args[0].end_col_offset)
        seg = data[a:b]
        new = (data[:a0] + seg + data[b0:]).decode("utf-8")
        if parses(new):
            out.append(("nested_call", new))
    return out


def twin_import_variants(code: str):
    """Imports that look alike in different places: (1) every module-level import repeated inside a function that uses
    the name (a used twin of a possibly unused import, and vice versa); (2) every `from m import a` doubled as
    `from m import a as a_alias` with both names used."""
    import ast
    try:
        tree = ast.parse(code)
    except (SyntaxError, ValueError, RecursionError):
        return []
    imports = [n for n in tree.body if isinstance(n, (ast.Import, ast.ImportFrom)) and getattr(n, "module", "") != "__future__"
               and not any(a.name == "*" for a in n.names)]
    if not imports:
        return []
    code_nl = code if code.endswith("\n") else code + "\n"
    out = []
    body = []
    for n in imports:
        seg = ast.get_source_segment(code, n)
        if seg is None or "\n" in seg:
            continue
        names = [(a.asname or a.name.split(".")[0]) for a in n.names]
        body.append(f"    {seg}\n    _twin_use = ({', '.join(names)},)\n")
    if body:
        out.append(("twin_import_in_function", code_nl + "\n\ndef _twin_import_user():\n" + "".join(body) + "    return _twin_use\n"))
    alias_lines, uses = [], []
    for n in imports:
        if isinstance(n, ast.ImportFrom) and n.module and n.level == 0:
            for a in n.names:
                if a.asname is None:
                    alias_lines.append(f"from {n.module} import {a.name} as {a.name}_alias\n")
                    uses += [a.name, f"{a.name}_alias"]
    if alias_lines:
        head, rest = _split_future(code_nl)
        out.append(("aliased_twin_import", head + "".join(alias_lines) + rest + f"\n_alias_use = ({', '.join(uses)},)\n"))
    return out


def comment_variants(code: str):
    """An own-line comment above every statement (same indentation) — with or without a trailing comment on it."""
    import ast
    try:
        tree = ast.parse(code)
    except (SyntaxError, ValueError, RecursionError):
        return []
    lines = code.splitlines(keepends=True)
    starts = sorted({n.lineno for n in ast.walk(tree) if isinstance(n, ast.stmt)}
                    - {n.lineno for n in ast.walk(tree) if isinstance(n, ast.ImportFrom) and n.module == "__future__"})
    out_lines = []
    for i, l in enumerate(lines, 1):
        if i in starts and l.strip():
            indent = l[:len(l) - len(l.lstrip())]
            out_lines.append(f"{indent}# about the next statement\n")
        out_lines.append(l)
    new = "".join(out_lines)
    return [("comment_above", new)] if new != code and _same_ast(code, new) else []


def own_block_variants(code: str, rng=None, limit=3):
    """One simple single-line statement moved into a block of its own (`if True:` / `try:` / `with`), with an explanatory
    comment above it or trailing on it, or bare: the statement becomes the ONLY statement of its block."""
    import ast
    import random as _random
    rng = rng or _random.Random(0)
    try:
        tree = ast.parse(code)
    except (SyntaxError, ValueError, RecursionError):
        return []
    lines = code.splitlines(keepends=True)
    per_line = {}
    for n in ast.walk(tree):
        if isinstance(n, ast.stmt):
            per_line.setdefault(n.lineno, []).append(n)
    cands = [n for n in ast.walk(tree) if isinstance(n, (ast.Expr, ast.Assign, ast.AugAssign, ast.Return, ast.Raise, ast.Import))
             and n.lineno == n.end_lineno and len(per_line.get(n.lineno, [])) == 1
             and not (isinstance(n, ast.Expr) and isinstance(n.value, ast.Constant))]
    rng.shuffle(cands)
    # statements that are a bare call first: they are what removal/replacement codemods act on
    cands.sort(key=lambda n: 0 if isinstance(n, ast.Expr) and isinstance(n.value, ast.Call) else 1)
    out = []
    plan = []
    for k, n in enumerate(cands[:limit]):
        plan.append((k, n, "comment_above"))
        if k < 2:
            plan.append((k, n, "trailing_comment"))
        if k == 0:
            plan.append((k, n, "bare"))
    for k, n, style in plan:
        l = lines[n.lineno - 1]
        indent = l[:len(l) - len(l.lstrip())]
        body = l.strip()
        opener, closer = rng.choice([("if True:", ""), ("try:", "{i}except Exception:\n{i}    raise\n"),
                                     ("for _once in (0,):", ""), ("while True:", "{i}    break\n")])
        if opener == "while True:" and isinstance(n, (ast.Return, ast.Raise)):
            closer = ""
        inner = f"{indent}    {body}" + ("  # FIXME: look at this" if style == "trailing_comment" else "") + "\n"
        if style == "comment_above":
            inner = f"{indent}    # why does this happen here?\n" + inner
        block = f"{indent}{opener}\n" + inner + closer.replace("{i}", indent)
        new = "".join(lines[:n.lineno - 1]) + block + "".join(lines[n.lineno:])
        if parses(new):
            out.append((f"own_block_{style}_{k}", new))
    return out


def binding_variants(code: str):
    """Bindings that stay in use in less obvious ways:
    * every name assigned at module level is also read from inside a function (a nested reader);
    * the whole module body inside a function whose assigned names are read by a nested function that is returned;
    * a simple assignment `a = V` chained as `a = a_twin = V` with `a_twin` used afterwards;
    * `from m import n` spelled `from m import n as n_al` with every use of `n` renamed."""
    import ast
    import io
    import tokenize
    try:
        tree = ast.parse(code)
    except (SyntaxError, ValueError, RecursionError):
        return []
    code_nl = code if code.endswith("\n") else code + "\n"
    out = []
    assigned = []
    for n in tree.body:
        if isinstance(n, ast.Assign):
            for t in n.targets:
                if isinstance(t, ast.Name) and t.id not in assigned:
                    assigned.append(t.id)
    if assigned:
        tup = ", ".join(assigned) + ("," if len(assigned) == 1 else "")
        out.append(("nested_reader_module", code_nl + f"\n\ndef _reads_module_names():\n    return ({tup})\n"))
        head, body = _split_future(code_nl)
        if body.strip():
            out.append(("nested_reader_function", head + "def wrapper_function():\n" + _indent(body, "    ")
                        + f"\n    def _reader():\n        return ({tup})\n    return _reader\n\n\nwrapper_function()\n"))
    # chained assignment
    lines = code_nl.splitlines(keepends=True)
    for n in ast.walk(tree):
        if isinstance(n, ast.Assign) and len(n.targets) == 1 and isinstance(n.targets[0], ast.Name) and n.lineno == n.end_lineno:
            l = lines[n.lineno - 1]
            name = n.targets[0].id
            indent = l[:len(l) - len(l.lstrip())]
            prefix = l[:n.col_offset] if False else indent
            stmt = l.strip()
            if stmt.startswith(name + " =") and not stmt.startswith(name + " =="):
                newl = f"{indent}{name} = {name}_twin ={stmt[len(name) + 2:]}\n"
                # the use of the twin goes right after the construct the assignment belongs to (same indentation)
                new = "".join(lines[:n.lineno - 1]) + newl + "".join(lines[n.lineno:]) + ""
                use = f"\n_twin_use = {name}_twin\n" if indent == "" else ""
                if use and parses(new + use):
                    out.append(("chained_assign", new + use))
                    break
    # aliased from-import with renamed uses
    for n in tree.body:
        if isinstance(n, ast.ImportFrom) and n.module and n.level == 0 and n.module != "__future__" and n.lineno == n.end_lineno:
            cand = [a for a in n.names if a.asname is None and a.name != "*"]
            if not cand:
                continue
            a = cand[0]
            alias = a.name + "_al"
            try:
                toks = list(tokenize.generate_tokens(io.StringIO(code_nl).readline))
            except (tokenize.TokenError, IndentationError, SyntaxError):
                break
            res_lines = code_nl.splitlines(keepends=True)
            edits = []
            prev = None
            for t in toks:
                if t.type == tokenize.NAME and t.string == a.name and t.start[0] != n.lineno and not (prev and prev.type == tokenize.OP and prev.string == "."):
                    edits.append(t)
                if t.type not in (tokenize.NL, tokenize.COMMENT):
                    prev = t
            for t in sorted(edits, key=lambda t: t.start, reverse=True):
                r, c0, c1 = t.start[0] - 1, t.start[1], t.end[1]
                res_lines[r] = res_lines[r][:c0] + alias + res_lines[r][c1:]
            il = res_lines[n.lineno - 1]
            import re as _re
            m_imp = _re.search(r"\bimport\s", il)
            if m_imp:
                headp, tailp = il[:m_imp.end()], il[m_imp.end():]
                res_lines[n.lineno - 1] = headp + _re.sub(r"\b" + _re.escape(a.name) + r"\b(?!\s+as\b)", f"{a.name} as {alias}", tailp, count=1)
            # only the imported-names part may be touched: re-check by parsing
            new = "".join(res_lines)
            if new != code_nl and parses(new):
                out.append(("aliased_import_renamed", new))
            break
    return out


def module_alias_variants(code: str):
    """`import m` spelled `import m as m_al` with every use of `m` renamed (line numbers unchanged)."""
    import ast
    import io
    import tokenize
    try:
        tree = ast.parse(code)
    except (SyntaxError, ValueError, RecursionError):
        return []
    code_nl = code if code.endswith("\n") else code + "\n"
    for n in tree.body:
        if isinstance(n, ast.Import) and len(n.names) == 1 and n.names[0].asname is None and "." not in n.names[0].name and n.lineno == n.end_lineno:
            name = n.names[0].name
            alias = name + "_al"
            try:
                toks = list(tokenize.generate_tokens(io.StringIO(code_nl).readline))
            except (tokenize.TokenError, IndentationError, SyntaxError):
                return []
            lines = code_nl.splitlines(keepends=True)
            edits, prev = [], None
            for t in toks:
                if t.type == tokenize.NAME and t.string == name and t.start[0] != n.lineno and not (prev and prev.type == tokenize.OP and prev.string == "."):
                    edits.append(t)
                if t.type not in (tokenize.NL, tokenize.COMMENT):
                    prev = t
            for t in sorted(edits, key=lambda t: t.start, reverse=True):
                r, c0, c1 = t.start[0] - 1, t.start[1], t.end[1]
                lines[r] = lines[r][:c0] + alias + lines[r][c1:]
            il = lines[n.lineno - 1]
            lines[n.lineno - 1] = il.rstrip("\r\n").rstrip() + f" as {alias}" + il[len(il.rstrip("\r\n")):]
            new = "".join(lines)
            if new != code_nl and parses(new):
                return [("module_alias_renamed", new)]
    return []


def class_base_variants(code: str):
    """A class of the seed additionally inherits from a small mixin defined in the same module, listed first or last among
    its bases: codemods that look at the bases / the methods of a class (and of its bases) see a same-module base that
    has none of the methods they look for."""
    import ast
    try:
        tree = ast.parse(code)
    except (SyntaxError, ValueError, RecursionError):
        return []
    code_nl = code if code.endswith("\n") else code + "\n"
    out = []
    for n in tree.body:
        if isinstance(n, ast.ClassDef) and n.bases and not n.decorator_list and n.bases[0].lineno == n.lineno and not n.keywords:
            lines = code_nl.splitlines(keepends=True)
            first, last = n.bases[0], n.bases[-1]
            if last.end_lineno != n.lineno:
                continue
            mixin = "class _AuditMixin:\n    created_by = None\n\n\n"
            for label, col, text in (("mixin_base_first", first.col_offset, "_AuditMixin, "), ("mixin_base_last", last.end_col_offset, ", _AuditMixin")):
                ls = list(lines)
                hdr = ls[n.lineno - 1]
                # columns are utf-8 byte offsets
                hb = hdr.encode("utf-8")
                ls[n.lineno - 1] = (hb[:col] + text.encode() + hb[col:]).decode("utf-8")
                new = "".join(ls[:n.lineno - 1]) + mixin + "".join(ls[n.lineno - 1:])
                pre, body = _split_future(new) if False else ("", new)
                if parses(new):
                    out.append((label, new))
            break
    return out


def composed_variants(code: str, rng, k=4):
    """A structural wrapper with a layout / comment / context variant applied on top of it."""
    base = [v for v in _variants_basic(code, True) if v[0].startswith("in_")]
    if not base:
        return []
    out = []
    for _ in range(k):
        bname, btext = rng.choice(base)
        over = comment_variants(btext) + layout_variants(btext) + expr_context_variants(btext, rng, limit=2) + nested_call_variants(btext, rng, limit=1)
        if over:
            oname, otext = rng.choice(over)
            out.append((f"{oname}+{bname}", otext))
    return out


_variants_basic = variants


def variants(code: str, shift_ok: bool, rng=None):  # noqa: F811
    out = _variants_basic(code, shift_ok)
    if shift_ok:
        out.extend(expr_context_variants(code if code.endswith("\n") else code + "\n", rng))
        out.extend(layout_variants(code if code.endswith("\n") else code + "\n"))
        out.extend(second_use_variants(code))
        out.extend(nested_call_variants(code if code.endswith("\n") else code + "\n", rng))
        out.extend(twin_import_variants(code))
        out.extend(comment_variants(code if code.endswith("\n") else code + "\n"))
        out.extend(own_block_variants(code if code.endswith("\n") else code + "\n", rng))
        out.extend(binding_variants(code))
        out.extend(module_alias_variants(code))
        out.extend(class_base_variants(code))
        out.extend(composed_variants(code if code.endswith("\n") else code + "\n", rng or __import__("random").Random(0)))
    return out
