class LibcstResultTransformer:
    def _new_or_updated_node(self, original_node, updated_node):
        if self.node_is_selected(original_node):
            if (attr := getattr(self, "on_result_found", None)) is not None:
                new_node = attr(original_node, updated_node)
                self.report_change(original_node)
                return new_node
        return updated_node

    def leave_Call(self, original_node: cst.Call, updated_node: cst.Call):
        return self._new_or_updated_node(original_node, updated_node)

