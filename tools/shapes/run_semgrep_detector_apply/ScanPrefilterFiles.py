# src/codemodder/codemods/semgrep.py @ HEAD
class SemgrepRuleDetector:
    def apply(
        self,
        codemod_id: str,
        context: CodemodExecutionContext,
    ) -> ResultSet:
        yaml_files = self.get_yaml_files(codemod_id)
        with context.timer.measure("semgrep"):
            files_to_analyze = context.semgrep_results_for_rule(codemod_id)
            return semgrep_run(context, yaml_files, files_to_analyze)
