# src/codemodder/context.py @ HEAD
class CodemodExecutionContext:
    def process_dependencies(
        self, codemod_id: str
    ) -> dict[Dependency, PackageStore | None]:
        """Write the dependencies a codemod added to the appropriate dependency
        file in the project. Returns a dict listing the locations the dependencies were added.
        """
        if not (dependencies := self.dependencies.get(codemod_id)):
            return {}

        # populate everything with None and then change the ones added
        record: dict[Dependency, PackageStore | None] = {}
        for dep in dependencies:
            record[dep] = None

        if not (store_list := self.repo_manager.package_stores):
            logger.info(
                "unable to write dependencies for %s: no dependency file found",
                codemod_id,
            )
            self._dependency_update_by_codemod[codemod_id] = None
            return record

        from codemodder.dependency_management import DependencyManager

        for package_store in store_list:
            dm = DependencyManager(package_store, self.directory)
            if (changeset := dm.write(list(dependencies), self.dry_run)) is not None:
                self.add_changesets(codemod_id, [changeset])
                self._dependency_update_by_codemod[codemod_id] = package_store
                for dep in dependencies:
                    record[dep] = package_store
                break

        return record
