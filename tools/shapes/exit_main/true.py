def main():
    sys_argv = sys.argv[1:]
    sys.exit(run(sys_argv))
