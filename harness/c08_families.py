"""C08 search over the refactoring codemods that have NO Coq model: closed, deterministic program families per codemod.
Every program is run through the real CLI with only that codemod enabled; if the file changed, original and rewritten
program are executed (`python -I`, own temp cwd, timeout) and (stdout, exception type, exit status) compared.
No theorem covers these codemods: a difference is a VIOLATION with the program as replay (class `kf_unmodelled_<codemod>`);
nothing is proved when there is none.
Second stage (all codemods, modelled ones included): the same programs, and concatenations with several rewrite sites, are
re-run under random `--path-exclude file:line` / `--path-include file:line` configurations around the lines the full rewrite
touches; original and rewritten behaviour are compared again (class `kf_line_filter_<codemod>`)."""
from __future__ import annotations

import ast
import concurrent.futures
import itertools
import subprocess

from harness import c08_classes, core

WRAP = r'''
import sys, runpy, traceback
try:
    runpy.run_path(sys.argv[1], run_name="__main__")
except SystemExit as ex:
    print("EXIT", ex.code)
except BaseException as ex:
    print("RAISED", type(ex).__name__)
'''

LOG_PRELUDE = "import logging, sys\nlogging.basicConfig(stream=sys.stdout, format='%(levelname)s:%(message)s', level=logging.DEBUG)\n"


def families(rng, quick):
    out = []

    def add(codemod, name, src):
        out.append({"codemod": codemod, "name": name, "source": src})

    # ---- use-walrus-if
    vals = ["0", "5", "''", "'a'", "None", "[]", "[0]"]
    conds = ["x", "x is None", "x is not None", "x == 5", "not x", "x != 'a'"]
    for v, c in itertools.product(vals, conds):
        add("use-walrus-if", f"module:{v}:{c}",
            f"def f():\n    print('called')\n    return {v}\nx = f()\nif {c}:\n    print('then', x)\nelse:\n    print('else', x)\nprint('after', x)\n")
    for v in vals[:4]:
        add("use-walrus-if", f"function:{v}",
            f"def f():\n    return {v}\ndef g():\n    y = f()\n    if y:\n        return ('t', y)\n    return ('f', y)\nprint(g())\n")
        add("use-walrus-if", f"while-after:{v}",
            f"def f():\n    return {v}\nx = f()\nif x:\n    print('t')\nx = 1\nprint(x)\n")
    # ---- remove-unnecessary-f-str
    for body in ["abc", "a{{b}}c", "{{}}", "{{", "}}", "100%", "a\\nb", "it's", 'say \\"hi\\"', "{{{{x}}}}", ""]:
        add("remove-unnecessary-f-str", f"dq:{body}", f'x = 1\nprint(f"{body}")\nprint(len(f"{body}"))\n')
    for body in ["abc", "a{{b}}c", "{{}}", 'q"q']:
        add("remove-unnecessary-f-str", f"sq:{body}", f"print(f'{body}')\nprint(rf'{body}\\d')\n")
    add("remove-unnecessary-f-str", "concat", 'x = 2\nprint(f"a{{" f"{x}" f"}}b")\n')
    # ---- lazy-logging
    msgs = ['"a %s" % x', '"a %s b %s" % (x, y)', '"a %d%%" % y', '"a " + x', '"a " + x + " b " + z', "'q\"q ' + x", '"%s" % (x,)',
            '"a %(k)s" % {"k": x}', 'f"a {x}"', '"a {}".format(x)', '"a %s" % x + " tail"', '"pct % " + x', '"a %s" + x']
    for m in msgs:
        for level in (["info", "error"] if quick else ["debug", "info", "warning", "error", "critical"]):
            add("lazy-logging", f"{level}:{m}", LOG_PRELUDE + f"x, y, z = 'X', 7, 'Z'\nlogging.{level}({m})\nlog = logging.getLogger('n')\nlog.{level}({m})\n")
    # ---- fix-deprecated-logging-warn
    for m in ['"m"', '"m %s", 1', '"m %s" % 1']:
        add("fix-deprecated-logging-warn", m, "import warnings\nwarnings.simplefilter('ignore')\n" + LOG_PRELUDE +
            f"logging.warn({m})\nlogging.getLogger('a').warn({m})\nfrom logging import warn\nwarn({m})\n")
    # ---- remove-future-imports
    for names in ["print_function", "division, print_function", "annotations", "unicode_literals, absolute_import", "generators, nested_scopes"]:
        add("remove-future-imports", names, f"from __future__ import {names}\nprint(7 / 2, 'x'.__class__.__name__)\ndef f(a: 'int') -> 'str':\n    return a\nprint(f.__annotations__)\n")
    # ---- fix-deprecated-abstractproperty
    for imp, dec in [("import abc", "abc.abstractproperty"), ("from abc import abstractproperty", "abstractproperty"), ("import abc as a", "a.abstractproperty")]:
        meta = {"import abc": "abc.ABC", "import abc as a": "a.ABC"}.get(imp, "__import__('abc').ABC")
        add("fix-deprecated-abstractproperty", dec,
            f"{imp}\nclass B({meta}):\n    @{dec}\n    def p(self):\n        return 1\nclass C(B):\n    @property\n    def p(self):\n        return 2\n"
            "print(C().p)\ntry:\n    B()\nexcept TypeError:\n    print('abstract')\nprint(type(B.__dict__['p']).__name__ in ('property', 'abstractproperty'))\n")
    # ---- fix-file-resource-leak
    for mode in ["read", "readline", "loop", "two", "return"]:
        body = {
            "read": "f = open(p)\ndata = f.read()\nprint(data)\n",
            "readline": "f = open(p)\nprint(f.readline())\nprint(f.readline())\n",
            "loop": "f = open(p)\nfor line in f:\n    print(line.strip())\nprint('done')\n",
            "two": "f = open(p)\ng = open(p)\nprint(f.read() == g.read())\n",
            "return": "def h():\n    f = open(p)\n    x = f.read()\n    return x.upper()\nprint(h())\n",
        }[mode]
        add("fix-file-resource-leak", mode, "p = 'data.txt'\nopen(p, 'w').write('l1\\nl2\\n')\n" + body)
    # ---- bad-lock-with-statement
    for cls in ["Lock", "RLock", "Condition", "Semaphore"]:
        add("bad-lock-with-statement", cls, f"import threading\nwith threading.{cls}():\n    print('in')\nprint('out')\n")
        add("bad-lock-with-statement", cls + ":from", f"from threading import {cls}\nwith {cls}():\n    print('in')\nprint('out')\n")
        add("bad-lock-with-statement", cls + ":as", f"import threading\nwith threading.{cls}() as l:\n    print('in', l is not None)\nprint('out')\n")
    # ---- remove-module-global
    add("remove-module-global", "simple", "global x\nx = 1\nx = x + 1\nprint(x)\n")
    add("remove-module-global", "two", "global a, b\na = 1\nb = 2\nprint(a + b)\ndef f():\n    global a\n    a = 5\nf()\nprint(a)\n")
    add("remove-module-global", "in-if", "import sys\nif len(sys.argv) >= 0:\n    global c\n    c = 3\nprint(c)\n")
    # ---- mechanisms reported by an independent review of the unchanged tree (corpus/C08/programs.json), as families
    for fn in ("any", "all"):
        for thr in (0, 1, 2, 5):
            add("use-generator", f"effect:{fn}:{thr}",
                f"seen = []\ndef check(v):\n    seen.append(v)\n    return v > {thr}\nprint({fn}([check(v) for v in [1, 2, 3]]), seen)\n")
    for fn in ("sum", "min", "max"):
        add("use-generator", f"effect:{fn}", f"seen = []\ndef check(v):\n    seen.append(v)\n    return v * 2\nprint({fn}([check(v) for v in [1, 2, 3]]), seen)\n")
    for fn, data in [("any", "[[0, 0, 0]]"), ("all", "[[1, 0]]"), ("max", "[[1, 5], [2, 3]]"), ("sum", "[[1, 2]]"), ("any", "[[]]")]:
        add("use-generator", f"starred:{fn}:{data}", f"data = {data}\ntry:\n    print({fn}(*[row for row in data]))\nexcept TypeError:\n    print('TypeError')\n")
    add("use-generator", "await", "import asyncio\nasync def val(v):\n    return v\nasync def main():\n    print(any([await val(v) for v in [0, 1]]))\nasyncio.run(main())\n")
    add("use-generator", "nested", "def wrap(x):\n    return x\nr = wrap(\n    any([i for i in range(3)]),\n)\nprint(r, any([any([y for y in x]) for x in [[0], [1]]]))\n")
    for arg in ["*[[1, 2]]", "*[[]]", "[1, *[2, 3]]", "*[(1, 2)]", "[*'ab']"]:
        add("use-set-literal", f"starred:{arg}", f"try:\n    print(sorted(set({arg})))\nexcept TypeError:\n    print('TypeError')\n")
    for pair in ['("a", 0)', '("b",)', '("z", 0, 2)']:
        add("combine-startswith-endswith", f"starred:{pair}",
            f"s = 'abc'\npair = {pair}\nprint(s.startswith(*pair) or s.startswith('zz'))\nprint(s.endswith('q') or s.endswith(*pair))\n")
    for value in ["a or b", "a and b", "1, 2", "not a", "a if b else None", "a == b", "lambda: 0", "a + b", "[a, b]", "(a, b)", "a or None"]:
        for c in ["x is None", "x", "x == 5", "not x"]:
            add("use-walrus-if", f"value:{value}:{c}", f"a, b = 5, 0\nx = {value}\nif {c}:\n    print('then')\nelse:\n    print('else')\n")
            add("use-walrus-if", f"value-used:{value}:{c}", f"a, b = 5, 0\nx = {value}\nif {c}:\n    print('then', x is None)\nelse:\n    print('else', x is None)\n")
    for c in ["x is None", "x", "x > 3"]:
        add("use-walrus-if", f"nested-read:{c}",
            f"def f():\n    x = 41 + 1\n    if {c}:\n        return None\n    def g():\n        return x\n    return g()\nprint(f())\n")
        add("use-walrus-if", f"lambda-read:{c}", f"def f():\n    x = 41 + 1\n    if {c}:\n        return 'early'\n    return (lambda: x)()\nprint(f())\n")
        add("use-walrus-if", f"generator-fn:{c}", f"def f():\n    x = yield 1\n    if {c}:\n        yield 'none'\n    else:\n        yield 'some'\nprint(list(f()))\n")
    for m in ['"total: " + n + "!"', '"n=" + n', '"%s and %s" % args', '"%s" % args', '"progress " + pct + "% done"', '"100% " + pct',
              '"line\\n" + r"\\d " + pct', 'r"\\d " + pct + "\\n"', '"a %d" % n', '"a %s" % (n,)']:
        add("lazy-logging", f"operand:{m}", LOG_PRELUDE + "logging.raiseExceptions = False\nn = 5\nargs = (1, 2)\npct = '50'\n"
            f"logging.info({m})\nprint('end')\n")
    leak_pre = "import os, tempfile\np = os.path.join(tempfile.mkdtemp(), 't.txt')\nopen(p, 'w').write('hello')\n"
    add("fix-file-resource-leak", "nested-read", leak_pre + "f = open(p)\ndef show():\n    print(f.read())\nshow()\n")
    add("fix-file-resource-leak", "unused-handle", "import os, tempfile\np = os.path.join(tempfile.mkdtemp(), 't.txt')\ndef touch():\n    f = open(p, 'w')\ntouch()\nprint(os.path.exists(p))\n")
    for ret in ["(f, 1)", "[f]", "{'h': f}", "f"]:
        add("fix-file-resource-leak", f"escape:{ret}", leak_pre + f"def get():\n    f = open(p)\n    box = {ret}\n    return box\nr = get()\n"
            "h = r if hasattr(r, 'read') else (r['h'] if isinstance(r, dict) else r[0])\nprint(h.read())\n")
    for imp in ["from abc import ABC, abstractproperty", "import abc\nfrom abc import ABC, abstractproperty"]:
        for shadow in ["abc = 'alphabet'", "def abc():\n    return 1", "x = 1"]:
            add("fix-deprecated-abstractproperty", f"shadow:{shadow[:6]}:{imp[:8]}",
                f"{imp}\n{shadow}\nclass A(ABC):\n    @abstractproperty\n    def p(self):\n        return 1\nprint(type(A.__dict__['p']).__name__ != '')\n")
    for imps in [["import sys", "import os", "import json"], ["from os.path import join", "import abc", "from json import dumps"],
                 ["from string import capwords as f", "from os.path import basename as f"], ["from os.path import basename as split", "from os.path import *"],
                 ["import os.path", "import os"], ["from os.path import *", "from posixpath import join as split"]]:
        add("order-imports", " ; ".join(imps), "\n".join(imps) + "\nimport os.path\nf = globals().get('f', len)\nsplit = globals().get('split', len)\n"
            "print(f('a/b c'), split('a/b'), sorted(k for k in ('os', 'sys', 'json', 'abc', 'join', 'dumps') if k in globals()))\n")
    # a user class that defines only some of the comparison methods: `not a < b` needs `__lt__`, `a >= b` needs `__ge__`
    for methods in [["__lt__"], ["__lt__", "__gt__"], ["__lt__", "__le__", "__gt__", "__ge__"], ["__le__"], ["__gt__", "__ge__"]]:
        body = "".join(f"    def {m}(self, other):\n        return self.v {dict(__lt__='<', __le__='<=', __gt__='>', __ge__='>=')[m]} other.v\n" for m in methods)
        for op in ["<", "<=", ">", ">="]:
            add("invert-boolean-check", f"dunders:{'+'.join(methods)}:{op}",
                f"class K:\n    def __init__(self, v):\n        self.v = v\n{body}a, b = K(1), K(2)\n"
                f"try:\n    print(not a {op} b)\nexcept TypeError:\n    print('TypeError')\n")
    for field in ["{set([x, y])}", "{set([x, y])!r:>10}", "{ set([x, y])}", "{len(set([x, y]))}", "{set([x])}{set([y])}"]:
        add("use-set-literal", f"fstring:{field}", f'x, y = 1, 2\nprint(f"{field}")\n')
    # dropping `not ` in front of a display that is the leftmost operand: the display's `{` next to the field's `{`
    for field in ["{not {x, y} == s}", "{not {x, y} != s!r:>10}", "{not {x: y} == s}", "{not {c for c in s} < s}", "{ not {x, y} == s}",
                  "{not ({x, y} == s)}", "{not s == {x, y}}", "{not {x, y} is False}", "{not {x} == s}{not {y} in [s]}"]:
        add("invert-boolean-check", f"fstring:{field}", f'x, y, s = 1, 2, {{1, 2}}\nprint(f"{field}")\n')
    for name, src in sql_extra_programs():
        add("sql-parameterization", name, src)
    for name, src in sql_printf_programs(rng, 16 if quick else 200):
        add("sql-parameterization", name, src)
    for name, src in import_alias_programs(rng, 10 if quick else 120):
        add("order-imports", name, src)
    for name, src, extra in package_import_programs(rng, 14 if quick else 150):
        out.append({"codemod": "order-imports", "name": name, "source": src, "extra_files": extra})
    # ---- sql-parameterization (benign parameter values): see sql_programs()
    for name, src in sql_programs(rng, 40 if quick else 400):
        add("sql-parameterization", name, src)
    no_concat = {"remove-future-imports", "remove-module-global"}
    for p in out:
        # (a module of a package cannot be concatenated with another program: its relative imports depend on where it is)
        p["concat_ok"] = p["codemod"] not in no_concat and PLACE not in (p.get("extra_files") or {})
    if quick:
        keep = {}
        rng.shuffle(out)
        for p in out:
            keep.setdefault(p["codemod"], [])
            if len(keep[p["codemod"]]) < {"sql-parameterization": 24, "use-walrus-if": 20, "lazy-logging": 16, "order-imports": 30}.get(p["codemod"], 12):
                keep[p["codemod"]].append(p)
        out = [p for ps in keep.values() for p in ps]
    return out


SQL_PRE = ("import sqlite3\nconn = sqlite3.connect(':memory:')\ncursor = conn.cursor()\n"
           "cursor.execute('CREATE TABLE users (name TEXT, role TEXT, phone TEXT, note TEXT)')\n"
           "cursor.executemany('INSERT INTO users VALUES (?, ?, ?, ?)', [('ann', 'admin', '1', 'a b'), ('bob', 'admin', '2', \"it's\"), "
           "('cy', 'user', '3', 'x%y'), ('di', 'user', '1', ''), (\"o'neil\", 'admin', '5', 'a b')])\n")
SQL_VALUES = {"name": ["ann", "bob", "nobody", "cy", ""], "role": ["admin", "user", "none"], "phone": ["1", "2", "9"], "note": ["a b", "zz"]}
SQL_LITERALS = {"role": ["'admin'", "'user'"], "phone": ["'1'", "'3'"], "note": ["'a b'", "'it''s'", "'x%y'", "''"], "name": ["'ann'", "'o''neil'"]}


def py_literal(text, q, prefix=""):
    """Python string literal of `text` with quote character q (the SQL text only has single quotes, % and printable ASCII)"""
    body = text.replace("\\", "\\\\")
    if q == "'":
        body = body.replace("'", "\\'")
    return prefix + q + body + q


IMPORTABLE = {"os.path": ["join", "basename", "splitext", "dirname"], "json": ["dumps", "loads"], "math": ["floor", "ceil", "sqrt"],
              "string": ["capwords"], "posixpath": ["normpath", "isabs"], "itertools": ["chain", "count"]}


def import_alias_programs(rng, n):
    """import blocks in which a name is imported from its module under one to three spellings (plain, `as a`, `as b`), possibly in
    separate statements, next to plain imports; every binding is used afterwards (bound names are all distinct, so the order of
    the statements does not matter for the original program)"""
    out = []
    for k in range(n):
        mods = rng.sample(sorted(IMPORTABLE), rng.randint(1, 3))
        stmts, bound = [], []
        for m in mods:
            names = rng.sample(IMPORTABLE[m], rng.randint(1, min(3, len(IMPORTABLE[m]))))
            items = []
            for nm in names:
                spellings = rng.sample(["plain", "a", "b"], rng.choice([1, 1, 2, 2, 3]))
                for sp in spellings:
                    if sp == "plain":
                        items.append(nm)
                        bound.append(nm)
                    else:
                        alias = f"{nm}_{sp}{len(bound)}"
                        items.append(f"{nm} as {alias}")
                        bound.append(alias)
            rng.shuffle(items)
            while items:       # one statement for all of them, or several
                take = rng.randint(1, len(items))
                stmts.append(f"from {m} import " + ", ".join(items[:take]))
                items = items[take:]
        for plain in rng.sample(["sys", "re", "abc", "collections"], rng.randint(0, 2)):
            stmts.append(f"import {plain}")
            bound.append(plain)
        rng.shuffle(stmts)
        uses = "".join(f"print({b!r}, {b}.__name__)\n" for b in bound)
        out.append((f"aliases:{k}", "\n".join(stmts) + "\n\n" + uses + "print('done')\n"))
    return out


# ---- programs that are PACKAGES: the file under test is a module inside a package tree and is run through a driver, so that
# relative imports resolve.  extra_files[PLACE] is where the source goes; extra_files["prog.py"] is the driver.
PLACE = "@place"
PKG_TREE = {"pkg": ["ROOT"], "pkg.alpha": ["fa", "A"], "pkg.beta": ["fb", "B"],
            "pkg.util": ["U"], "pkg.util.text": ["shout", "whisper"], "pkg.util.more": ["banner", "M"],
            "pkg.util.deep": ["D"], "pkg.util.deep.core": ["kernel", "K"],
            "pkg.util.deep.inner": ["I"], "pkg.util.deep.inner.leaf": ["leaf", "L"],
            "pkg.other": ["O"], "pkg.other.side": ["side", "S"], "pkg.other.far": ["F"], "pkg.other.far.away": ["away", "W"]}
PKG_PLACES = ["pkg", "pkg.util", "pkg.other", "pkg.util.deep", "pkg.other.far", "pkg.util.deep.inner"]
PKG_ABSOLUTE = [("from os.path import join", "join"), ("import xml.etree.ElementTree as ET", "ET"), ("import os", "os"), ("import json as js", "js"),
                ("from collections import OrderedDict as OD", "OD"), ("from xml.etree import ElementTree", "ElementTree"),
                ("import os.path as osp", "osp"), ("from pkg.alpha import fa as abs_fa", "abs_fa"), ("import pkg.other.side as abs_side", "abs_side"),
                ("from email.mime.text import MIMEText", "MIMEText"), ("import sys", "sys")]


def package_files():
    """the package tree: every module defines functions (lower case) and constants whose values name the module they live in"""
    files = {}
    is_pkg = lambda m: any(o.startswith(m + ".") for o in PKG_TREE)
    for m, attrs in PKG_TREE.items():
        path = m.replace(".", "/") + ("/__init__.py" if is_pkg(m) else ".py")
        body = ""
        for a in attrs:
            body += f"def {a}():\n    return {m + ':' + a!r}\n" if a.islower() else f"{a} = {m + ':' + a!r}\n"
        files[path] = body
    return files


def package_import_candidates(package):
    """every from-import a module of `package` can write: (level, text after the dots, imported name); level 1..3 as far as
    the package is deep; the target a sub-module path below the base (dotted or not) or the base itself (bare `from .. import x`)"""
    parts = package.split(".")
    is_pkg = lambda m: any(o.startswith(m + ".") for o in PKG_TREE)
    out = []
    for level in range(1, min(3, len(parts)) + 1):
        base = ".".join(parts[:len(parts) - (level - 1)])
        for m, attrs in PKG_TREE.items():
            if m != base and not m.startswith(base + "."):
                continue
            rel = m[len(base) + 1:]
            names = list(attrs)
            if is_pkg(m):     # sub-modules and sub-packages can be imported from their package as names
                names += sorted({o[len(m) + 1:].split(".")[0] for o in PKG_TREE if o.startswith(m + ".")})
            out += [(level, rel, nm) for nm in names]
    return out


def package_import_programs(rng, n):
    """a module somewhere in the package with an UNSORTED import block: relative from-imports of level 1/2/3 with and without a
    dotted sub-module path after the dots, bare `from . import a` / `from .. import b`, absolute dotted imports, aliases, several
    names per statement (also parenthesised over several lines); every bound name is printed with the module it came from.  The
    first programs are fixed, so that every run has each level with a dotted path."""
    files = package_files()
    out = []
    fixed = [("pkg", [(1, "util.text", "shout"), (1, "", "alpha"), (1, "util", "more"), (1, "util.deep.inner.leaf", "L")]),
             ("pkg.other", [(2, "util.deep.core", "kernel"), (1, "far.away", "away"), (2, "", "beta"), (1, "side", "S")]),
             ("pkg.util.deep.inner", [(3, "deep.core", "K"), (3, "deep.inner.leaf", "leaf"), (2, "inner.leaf", "L"), (3, "", "text"), (1, "leaf", "L"),
                                      (2, "core", "kernel")])]
    assert all(c in package_import_candidates(pk) for pk, cs in fixed for c in cs)
    for k in range(n):
        if k < len(fixed):
            package, picks = fixed[k]
        else:
            package = rng.choice(PKG_PLACES)
            cands = package_import_candidates(package)
            dotted = [c for c in cands if "." in c[1]]
            picks = rng.sample(cands, min(len(cands), rng.randint(2, 5))) + rng.sample(dotted, min(len(dotted), rng.randint(0, 3)))
        groups, bound, uses = {}, set(), []
        for level, rel, nm in picks:
            alias = None
            if nm in bound or rng.random() < 0.35:
                alias = f"{nm}_{'abc'[rng.randrange(3)]}{len(uses)}"
            b = alias or nm
            if b in bound:
                continue
            bound.add(b)
            uses.append(b)
            groups.setdefault((level, rel, rng.randrange(2)), []).append(nm + (f" as {alias}" if alias else ""))
        stmts = []
        for (level, rel, _), items in groups.items():
            head = f"from {'.' * level}{rel} import "
            stmts.append(head + "(\n    " + ",\n    ".join(items) + ",\n)" if len(items) > 1 and rng.random() < 0.4 else head + ", ".join(items))
        for text, b in rng.sample(PKG_ABSOLUTE, rng.randint(1, 4)):
            stmts.append(text)
            uses.append(b)
        rng.shuffle(stmts)
        src = "\n".join(stmts) + "\n\n" + "".join(
            f"print({b!r}, getattr({b}, '__module__', None), getattr({b}, '__name__', None) or {b})\n" for b in uses) + "print('done')\n"
        mod = package + ".mod_t"
        # (the sandbox runs isolated: the project directory is put on the path by the driver, as `python -m` would do)
        driver = ("import os, sys\nsys.path.insert(0, os.path.dirname(os.path.abspath(__file__)))\n"
                  + (f"import {mod}\n" if rng.random() < 0.5 else f"import runpy\nrunpy.run_module({mod!r}, run_name='__main__')\n"))
        extra = dict(files)
        extra[PLACE] = mod.replace(".", "/") + ".py"
        extra["prog.py"] = driver
        out.append((f"package:{package}:{k}", src, extra))
    return out


def import_set(source):
    """the set of (level, module, name, asname) of every import statement of the file, wherever it stands"""
    out = set()
    for n in ast.walk(ast.parse(source)):
        if isinstance(n, ast.Import):
            out |= {(0, a.name, None, a.asname) for a in n.names}
        elif isinstance(n, ast.ImportFrom):
            out |= {(n.level, n.module, a.name, a.asname) for a in n.names}
    return out


SQL_ROWS = [("ann", "admin", "1", "a b"), ("bob", "admin", "2", "zz"), ("cy", "user", "3", "x"), ("di", "user", "1", "q"), ("ann", "user", "5", "a b")]
SQL_COLS = ["name", "role", "phone", "note"]


def sql_printf_programs(rng, n):
    """printf-style queries: the left side of % is one to four string literals (implicit concatenation, `+`, a parenthesised
    multi-line group, or a variable holding the first part) with zero to two quoted %s / %(key)s tokens each; the right side a
    tuple, a single value or a dict display; called with the column values of an existing row, with a permutation of them, and
    with values that match nothing"""
    out = []
    pre = ("import sqlite3\nconn = sqlite3.connect(':memory:')\ncursor = conn.cursor()\n"
           "cursor.execute('CREATE TABLE users (name TEXT, role TEXT, phone TEXT, note TEXT)')\n"
           f"cursor.executemany('INSERT INTO users VALUES (?, ?, ?, ?)', {SQL_ROWS!r})\n")
    for k in range(n):
        nlit = rng.randint(1, 4)
        counts = [rng.randint(0, 2) for _ in range(nlit)]
        if sum(counts) == 0:
            counts[rng.randrange(nlit)] = 1
        while sum(counts) > 4:
            counts[counts.index(max(counts))] -= 1
        total = sum(counts)
        cols = rng.sample(SQL_COLS, total)
        use_dict = rng.random() < 0.3
        conds, ci = [], 0
        pieces = []
        first = True
        for c in counts:
            text = ""
            n_items = c + (1 if rng.random() < 0.3 else 0)        # parameter conditions plus perhaps a literal one
            slots = ["par"] * c + ["lit"] * (n_items - c)
            rng.shuffle(slots)
            for sl in slots:
                text += "" if first else " AND "
                if first:
                    text = "SELECT name, phone FROM users WHERE " + text
                    first = False
                if sl == "par":
                    col = cols[ci]
                    ci += 1
                    text += f"{col} = '%({col})s'" if use_dict else f"{col} = '%s'"
                else:
                    text += rng.choice(["1 = 1", "role != 'none'", "note != 'it''s'"])
            if not slots:
                text = " " if not first else "SELECT name, phone FROM users WHERE 1 = 1"
                first = False
            pieces.append(text)
        pieces[-1] += rng.choice([" ORDER BY phone, name", " ORDER BY name, phone"])
        q = rng.choice(['"', '"', "'"])
        lits = [py_literal(t, q) for t in pieces]
        style = rng.choice(["implicit", "plus", "multiline", "variable"]) if nlit > 1 else "single"
        prefix_stmt = ""
        if style in ("implicit", "single"):
            left = " ".join(lits)
        elif style == "plus":
            left = "(" + " + ".join(lits) + ")"
        elif style == "multiline":
            left = "(\n        " + "\n        ".join(lits) + "\n    )"
        else:
            prefix_stmt = f"    head = {lits[0]}\n"
            left = "(head + " + " + ".join(lits[1:]) + ")"
        if use_dict:
            right = "{" + ", ".join(f"{c!r}: {c}" for c in cols) + "}"
        elif total == 1 and rng.random() < 0.5:
            right = cols[0]
        else:
            right = "(" + ", ".join(cols) + ("," if total == 1 else "") + ")"
        shape = rng.choice(["direct", "direct", "var"])
        if shape == "direct":
            body = f"def look({', '.join(cols)}):\n{prefix_stmt}    cursor.execute({left} % {right})\n    return cursor.fetchall()\n"
        else:
            body = f"def look({', '.join(cols)}):\n{prefix_stmt}    query = {left} % {right}\n    cursor.execute(query)\n    return cursor.fetchall()\n"
        row = rng.choice(SQL_ROWS)
        vals = [row[SQL_COLS.index(c)] for c in cols]
        calls = f"print(look({', '.join(repr(v) for v in vals)}))\n"
        if total > 1:
            calls += f"print(look({', '.join(repr(v) for v in vals[1:] + vals[:1])}))\n"
        calls += f"print(look({', '.join(repr('none') for _ in vals)}))\n"
        out.append((f"printf:{style}:{'dict' if use_dict else 'tuple'}:{'-'.join(map(str, counts))}:{k}", pre + body + calls))
    return out


def sql_extra_programs():
    """format specifications and braces around a parameter, a side-effecting statement next to the query"""
    out = []
    pre = ("import sqlite3\nc = sqlite3.connect(':memory:').cursor()\nc.execute('CREATE TABLE items (code TEXT, name TEXT)')\n"
           "c.executemany('INSERT INTO items VALUES (?, ?)', [('00007', '  bob'), ('7', 'bob'), ('{7}', '{bob}'), (\"'7'\", \"'bob'\")])\n")
    queries = [('percent-width', '"SELECT code FROM items WHERE code = \'%05d\'" % n'), ('percent-s-width', '"SELECT name FROM items WHERE name = \'%5s\'" % name'),
               ('percent-r', '"SELECT name FROM items WHERE name = %r" % name'), ('percent-d', '"SELECT code FROM items WHERE code = \'%d\'" % n'),
               ('fstring-spec', 'f"SELECT name FROM items WHERE name = \'{name:>5}\'"'), ('fstring-conv', 'f"SELECT name FROM items WHERE name = {name!r}"'),
               ('fstring-int', 'f"SELECT code FROM items WHERE code = \'{n:05d}\'"'), ('braces', '"SELECT name FROM items WHERE name = \'{" + name + "}\'"'),
               ('fstring-braces', 'f"SELECT name FROM items WHERE name = \'{{{name}}}\'"'), ('plain', '"SELECT name FROM items WHERE name = \'" + name + "\'"')]
    for tag, q in queries:
        out.append((f"spec:{tag}", pre + f"def find(cursor, name, n):\n    cursor.execute({q})\n    return cursor.fetchall()\nprint(find(c, 'bob', 7))\nprint(find(c, 'x', 1))\n"))
        out.append((f"audit:{tag}", pre + f"def find(cursor, name, n):\n    audit = print('lookup', name)\n    cursor.execute({q})\n    return cursor.fetchall()\nprint(find(c, 'bob', 7))\n"))
    return out


def sql_programs(rng, n):
    """queries whose text pieces hold zero, one or several complete quoted SQL literals (also with escaped quotes '') around one to
    three quoted parameters; rendered as concatenation, f-string, % and .format, with either Python quote; executed against an
    in-memory table for parameter values that select existing rows or none"""
    out = []
    for k in range(n):
        cols = ["name", "role", "phone", "note"]
        rng.shuffle(cols)
        nconds = rng.randint(1, 4)
        npar = rng.randint(1, min(3, nconds))
        par_pos = set(rng.sample(range(nconds), npar))
        segs, params = ["SELECT name, phone FROM users WHERE "], []       # segs alternates text, ("par", var) ...
        for ci in range(nconds):
            col = cols[ci % 4]
            if ci:
                segs[-1] += rng.choice([" AND ", " AND ", " OR "])
            if ci in par_pos:
                var = f"p{len(params)}"
                params.append((var, rng.choice(SQL_VALUES[col])))
                like = rng.random() < 0.15
                segs[-1] += f"{col} LIKE '" if like else f"{col} = '"
                segs.append(("par", var))
                segs.append("%'" if like else "'")
            else:
                segs[-1] += f"{col} = {rng.choice(SQL_LITERALS[col])}"
        segs[-1] += rng.choice([" ORDER BY phone, name", " ORDER BY name", ""])
        form = rng.choice(["concat"] * 6 + ["fstring"] * 3 + ["percent"] * 3 + ["format", "format_named"])
        q = rng.choice(['"', '"', "'"])
        texts = [x for x in segs if isinstance(x, str)]
        pars = [x[1] for x in segs if not isinstance(x, str)]
        if form == "concat":
            parts = []
            for x in segs:
                parts.append(py_literal(x, q) if isinstance(x, str) else x[1])
            if rng.random() < 0.3 and len(parts) >= 3:      # a piece split in two adjacent literals
                i0 = rng.randrange(len(segs))
                if isinstance(segs[i0], str) and len(segs[i0]) > 4:
                    cut = rng.randrange(1, len(segs[i0]))
                    parts[i0] = py_literal(segs[i0][:cut], q) + " + " + py_literal(segs[i0][cut:], rng.choice(['"', "'"]))
            expr = " + ".join(parts)
        elif form == "fstring":
            expr = "f" + q + "".join((x.replace("\\", "\\\\").replace(q, "\\" + q) if q == "'" else x) if isinstance(x, str) else "{" + x[1] + "}"
                                     for x in segs) + q
        elif form == "percent":
            body = "".join(x.replace("%", "%%") if isinstance(x, str) else "%s" for x in segs)
            expr = py_literal(body, q) + " % " + ("(" + ", ".join(pars) + ("," if len(pars) == 1 else "") + ")")
        elif form == "format":
            body = "".join(x if isinstance(x, str) else "{}" for x in segs)
            expr = py_literal(body, q) + ".format(" + ", ".join(pars) + ")"
        else:
            body = "".join(x if isinstance(x, str) else "{" + x[1] + "}" for x in segs)
            expr = py_literal(body, q) + ".format(" + ", ".join(f"{v}={v}" for v in pars) + ")"
        # the codemod parameterizes expressions it cannot resolve to literals: function parameters, results of calls
        shape = rng.choice(["function", "function", "function", "function_var", "function_cursor", "module_call"])
        args = ", ".join(v for v, _ in params)
        calls = ("".join(f"print(look({', '.join(repr(rng.choice(SQL_VALUES[c])) for _ in params)}))\n" for c in ["name", "role"])
                 + f"print(look({', '.join(repr(val) for _, val in params)}))\n")
        if shape == "function":
            body = f"def look({args}):\n    cursor.execute({expr})\n    return cursor.fetchall()\n" + calls
        elif shape == "function_var":
            body = f"def look({args}):\n    query = {expr}\n    cursor.execute(query)\n    return cursor.fetchall()\n" + calls
        elif shape == "function_cursor":
            body = f"def look({args}):\n    cur = conn.cursor()\n    cur.execute({expr})\n    rows = cur.fetchall()\n    return rows\n" + calls
        else:
            body = ("def ident(x):\n    return x\n" + "".join(f"{v} = ident({val!r})\n" for v, val in params)
                    + f"cursor.execute({expr})\nprint(cursor.fetchall())\n")
        out.append((f"{form}:{q}:{shape}:{nconds}c{npar}p:{k}", SQL_PRE + body))
    return out


def corpus_programs():
    """programs on which the unchanged tree is known to change behaviour (each with the finding class it belongs to); run first"""
    import json
    f = core.VERIF / "corpus" / "C08" / "programs.json"
    if not f.exists():
        return []
    return [{"codemod": p["codemod"], "name": f"corpus:{i}", "source": p["code"], "expect_class": p.get("expect_class"), "concat_ok": False}
            for i, p in enumerate(json.loads(f.read_text()))]


def execute(ctx, key, source, extra_files=None):
    d = ctx.scratch / "fam-exec" / key
    d.mkdir(parents=True, exist_ok=True)
    extra_files = dict(extra_files or {})
    place = extra_files.pop(PLACE, None)     # a module of a package: the source goes there, prog.py is the driver
    for name, text in ([("prog.py", source)] if place is None else []) + list(extra_files.items()) + ([(place, source)] if place else []):
        (d / name).parent.mkdir(parents=True, exist_ok=True)
        (d / name).write_text(text)
    try:
        p = subprocess.run([core.PY, "-I", "-c", WRAP, "prog.py"], cwd=d, stdout=subprocess.PIPE, stderr=subprocess.DEVNULL, timeout=30,
                           env={"PATH": "/usr/bin:/bin"})
        return (p.stdout.decode(errors="replace"), p.returncode)
    except subprocess.TimeoutExpired:
        return ("TIMEOUT", -9)


def rewrite(ctx, jobs, tag, per_run=40):
    """jobs: dicts with codemod, source and optionally exclude / include (lists of line numbers).  Each job becomes its own file;
    one CLI run per (codemod, kind of configuration, batch): the line patterns of all its files are passed together as
    `--path-exclude f1.py:3,f2.py:7,...` (resp. `--path-include`).  Sets job["after"]."""
    groups = {}
    for n, j in enumerate(jobs):
        place = (j.get("extra_files") or {}).get(PLACE)
        j["file"] = f"m{n:05d}.py" if place is None else f"p{n:05d}/{place}"     # inside its package, in a project of its own
        mode = "exclude" if j.get("exclude") else "include" if j.get("include") else "plain"
        groups.setdefault((j["codemod"], mode), []).append(j)
    # sql-parameterization needs ~0.6 s per file, the others a few ms: small batches spread it over the worker pool
    size = lambda cm: {"sql-parameterization": 6, "lazy-logging": 12, "bad-lock-with-statement": 12}.get(cm, per_run)
    batches = [(cm, mode, items[o:o + size(cm)]) for (cm, mode), items in groups.items() for o in range(0, len(items), size(cm))]
    batches.sort(key=lambda b: -len(b[2]) * (20 if b[0] == "sql-parameterization" else 1))

    def one(nb):
        n, (cm, mode, items) = nb
        root = ctx.scratch / f"{tag}-{n}"
        root.mkdir(parents=True)
        for j in items:
            if PLACE in (j.get("extra_files") or {}):
                for name, text in j["extra_files"].items():
                    if name != PLACE:
                        (root / j["file"].split("/")[0] / name).parent.mkdir(parents=True, exist_ok=True)
                        (root / j["file"].split("/")[0] / name).write_text(text)
            (root / j["file"]).parent.mkdir(parents=True, exist_ok=True)
            (root / j["file"]).write_text(j["source"])
        args = [str(root), "--output", str(ctx.scratch / f"{tag}-{n}.json"), "--codemod-include", f"pixee:python/{cm}"]
        if mode != "plain":
            pats = [f"{j['file']}:{ln}" for j in items for ln in j[mode]]
            args += [f"--path-{mode}", ",".join(pats)]
        r = core.run_cli(args, cwd=ctx.scratch, timeout=900)
        for j in items:
            j["after"] = (root / j["file"]).read_text() if r["rc"] == 0 else None
        return cm, mode, r
    with concurrent.futures.ThreadPoolExecutor(max_workers=min(14, core.NCPU)) as ex:
        for cm, mode, r in ex.map(one, enumerate(batches)):
            ctx.cli_runs += 1
            if r["rc"] != 0:
                ctx.mismatch(f"real CLI run of {cm} ({mode})", "the codemodder CLI failed on a generated project: " + r["stderr"][-400:], {"codemod": cm})


def compare(ctx, jobs, tag, cls_prefix, classify=False):
    """execute original and rewritten program of every job whose file changed; any difference is a violation"""
    changed = [j for j in jobs if j.get("after") is not None and j["after"] != j["source"]]
    # every distinct (program, auxiliary files) is executed once, in its own directory
    keys, order = {}, []
    for j in changed:
        for src in (j["source"], j["after"]):
            k = (src, tuple(sorted((j.get("extra_files") or {}).items())))
            if k not in keys:
                keys[k] = len(order)
                order.append(k)
    with concurrent.futures.ThreadPoolExecutor(max_workers=12) as ex:
        results = list(ex.map(lambda nk: execute(ctx, f"{tag}-{nk[0]}", nk[1][0], dict(nk[1][1])), enumerate(order)))

    def obs(j, src):
        return results[keys[(src, tuple(sorted((j.get("extra_files") or {}).items())))]]
    before = [obs(j, j["source"]) for j in changed]
    after = [obs(j, j["after"]) for j in changed]
    for j, b, a in zip(changed, before, after):
        cfg = ("--path-exclude " + ",".join(f"prog.py:{n}" for n in j["exclude"]) if j.get("exclude") else
               "--path-include " + ",".join(f"prog.py:{n}" for n in j["include"]) if j.get("include") else "")
        ctx.case({"codemod": j["codemod"], "family": j["name"], "configuration": cfg, "source": j["source"], "rewritten": j["after"], "observed": b},
                 nontrivial_key=("family", j["codemod"], j["source"], cfg), sample=False)
        j["obs"], j["obs_after"] = b, a
        exp = j.get("expect_class")
        known = c08_classes.classify(j["codemod"], j["source"], b, a, j.get("after")) if classify else None
        if known:
            ctx.count("class:" + known)
        if exp and (b == a or known != exp):
            ctx.notes.append(f"corpus program ({exp}) not reproduced as such: differs={b != a} class={known}: {j['name']}")
        if j["codemod"] == "order-imports":
            # structural: sorting the import block neither adds, drops nor alters an imported (level, module, name, alias)
            try:
                s0, s1 = import_set(j["source"]), import_set(j["after"])
            except SyntaxError:
                s0 = s1 = None
            if s0 != s1:
                ctx.violation("order_imports_import_set_changed",
                              f"order-imports {cfg} changes WHAT is imported in program family {j['name']}: "
                              f"dropped {sorted(map(str, s0 - s1))} added {sorted(map(str, s1 - s0))}",
                              {"codemod": j["codemod"], "family": j["name"], "program": j["source"], "rewritten": j["after"],
                               "exclude": j.get("exclude"), "include": j.get("include"), "extra_files": j.get("extra_files"),
                               "observed_original": b, "observed_rewritten": a})
        if b != a:
            ctx.violation(known or cls_prefix + j["codemod"].replace("-", "_"),
                          f"{j['codemod']} {cfg} changes the behaviour of program family {j['name']}: {b!r} -> {a!r}",
                          {"codemod": j["codemod"], "family": j["name"], "program": j["source"], "rewritten": j["after"],
                           "exclude": j.get("exclude"), "include": j.get("include"), "extra_files": j.get("extra_files"),
                           "observed_original": b, "observed_rewritten": a})
    return changed


def changed_lines(before: str, after: str):
    """1-based line numbers of the original that a rewrite touches (changed, deleted, or next to an insertion)"""
    import difflib
    a, b = before.splitlines(), after.splitlines()
    out = set()
    for op, i1, i2, j1, j2 in difflib.SequenceMatcher(a=a, b=b, autojunk=False).get_opcodes():
        if op == "equal":
            continue
        out.update(range(i1 + 1, max(i2, i1 + 1) + 1))
    return sorted(n for n in out if 1 <= n <= len(a))


def line_configs(rng, source, touched, k):
    """k line-level configurations around the lines a full rewrite touches: single lines, pairs, neighbours (the other lines of a
    multi-line statement / of the statement pair a rewrite spans)"""
    n = len(source.splitlines())
    near = sorted({m for t in touched for m in (t - 1, t, t + 1, t + 2) if 1 <= m <= n})
    if not near:
        return []
    cands = [("exclude", [t]) for t in near] + [("include", [t]) for t in near]
    cands += [("exclude", sorted(p)) for p in itertools.combinations(near, 2)][:40]
    cands += [("include", sorted(p)) for p in itertools.combinations(near, 2)][:40]
    rng.shuffle(cands)
    # always keep at least one single-line exclusion and one single-line inclusion of a touched line
    first = [("exclude", [rng.choice(touched)]), ("include", [rng.choice(touched)])]
    seen, out = set(), []
    for c in first + cands:
        key = (c[0], tuple(c[1]))
        if key not in seen:
            seen.add(key)
            out.append(c)
        if len(out) >= k:
            break
    return out


def line_stage(ctx, base_jobs):
    """C08 quantifies over every configuration under which K makes a change: re-run the programs under `path:line` excludes /
    includes (single lines, pairs, lines of multi-line statements) and compare behaviour again."""
    rng = ctx.rng
    progs = [j for j in base_jobs if j.get("after") is not None and j["after"] != j["source"] and j.get("obs") == j.get("obs_after")]
    # programs with several rewrite sites: concatenations of programs of one codemod (a line filter that suppresses one site must
    # leave the others, and the file, consistent)
    by = {}
    for j in progs:
        if j.get("concat_ok", True):
            by.setdefault(j["codemod"], []).append(j)
    multi = []
    for cm, items in by.items():
        for _ in range(min(len(items), 4 if ctx.quick() else 12)):
            parts = rng.sample(items, min(len(items), rng.choice([2, 2, 3])))
            src = "".join(p["source"] if p["source"].endswith("\n") else p["source"] + "\n" for p in parts)
            extra = {}
            for p in parts:
                extra.update(p.get("extra_files") or {})
            multi.append({"codemod": cm, "name": "concat(" + " | ".join(p["name"] for p in parts) + ")", "source": src, "extra_files": extra})
    rewrite(ctx, multi, "lines-multi")
    compare(ctx, multi, "lines-multi", "kf_unmodelled_")
    pool = progs + [m for m in multi if m.get("after") is not None and m["after"] != m["source"] and m.get("obs") == m.get("obs_after")]
    jobs = []
    per_prog = 3 if ctx.quick() else 8
    if ctx.quick():
        # bound the cost: a sample of single programs, every multi-site program
        singles = [p for p in pool if not p["name"].startswith("concat(")]
        rng.shuffle(singles)
        pool = singles[:120] + [p for p in pool if p["name"].startswith("concat(")]
    for p in pool:
        touched = changed_lines(p["source"], p["after"])
        for mode, lines in line_configs(rng, p["source"], touched, per_prog + (3 if p["name"].startswith("concat(") else 0)):
            jobs.append({"codemod": p["codemod"], "name": p["name"], "source": p["source"], mode: lines, "extra_files": p.get("extra_files")})
            ctx.count(f"line_config:{mode}:{len(lines)}")
    if ctx.quick():
        # bound the cost per codemod; configurations of multi-site programs first
        per = {}
        jobs.sort(key=lambda j: not j["name"].startswith("concat("))
        kept = []
        for j in jobs:
            per[j["codemod"]] = per.get(j["codemod"], 0) + 1
            if per[j["codemod"]] <= (10 if j["codemod"] == "sql-parameterization" else 20):
                kept.append(j)
        jobs = kept
    rewrite(ctx, jobs, "lines")
    changed = compare(ctx, jobs, "lines", "kf_line_filter_")
    ctx.count("line_config:file_changed", len(changed))
    ctx.count("line_config:file_unchanged", len(jobs) - len(changed))


def run(ctx, kernel_programs=()):
    progs = corpus_programs() + families(ctx.rng, ctx.quick()) + list(kernel_programs)
    rewrite(ctx, progs, "fam")
    for p in progs:
        if p.get("after") is not None:
            ctx.count(f"family:{p['codemod']}:" + ("changed" if p["after"] != p["source"] else "unchanged"))
    compare(ctx, progs, "fam", "kf_unmodelled_", classify=True)
    line_stage(ctx, progs)


def replay(ctx, body):
    j = {"codemod": body["codemod"], "name": body.get("family", "?"), "source": body["program"], "extra_files": body.get("extra_files")}
    for k in ("exclude", "include"):
        if body.get(k):
            j[k] = body[k]
    rewrite(ctx, [j], "replay")
    b = execute(ctx, "replay-a", j["source"], j.get("extra_files"))
    a = execute(ctx, "replay-b", j["after"] or j["source"], j.get("extra_files"))
    print("program   :\n" + j["source"])
    print("rewritten :\n" + (j["after"] or "(CLI failed)"))
    print("original  :", b, "  (recorded:", body.get("observed_original"), ")")
    print("rewritten :", a, "  (recorded:", body.get("observed_rewritten"), ")")
    print("expected  : equal observations (C08)")
    if j["codemod"] == "order-imports" and j["after"]:
        s0, s1 = import_set(j["source"]), import_set(j["after"])
        print("imports   : dropped", sorted(map(str, s0 - s1)), "added", sorted(map(str, s1 - s0)), " expected: none")
        if s0 != s1:
            return 1
    return 0 if a == b else 1
