from copy import deepcopy
from typing import Optional

import tomlkit

from codemodder.codetf import ChangeSet
from codemodder.dependency import Dependency
from codemodder.dependency_management.base_dependency_writer import DependencyWriter
from codemodder.diff import create_diff_and_linenums
from codemodder.logging import logger

TYPE_CHECKER_LIBRARIES = ["mypy", "pyright"]


def added_line_nums_strategy(lines, i):
    return lines[i]


class PyprojectWriter(DependencyWriter):
    def add_to_file(
        self, dependencies: list[Dependency], dry_run: bool = False
    ) -> Optional[ChangeSet]:
        pyproject = self._parse_file()
        original = deepcopy(pyproject)

        if pyproject.get("tool", {}).get("poetry", {}):
            # It's unlikely and bad practice to declare dependencies under [project].dependencies
            # and [tool.poetry.dependencies] but if it happens, we will give priority to poetry
            # and add dependencies under its system.
            self._update_poetry(pyproject, dependencies)
        else:
            try:
                pyproject["project"]["dependencies"].extend(
                    [f"{dep.requirement}" for dep in dependencies]
                )
            except tomlkit.exceptions.NonExistentKey:
                logger.debug("Unable to add dependencies to pyproject.toml file.")
                return None

        diff, added_line_nums = create_diff_and_linenums(
            tomlkit.dumps(original).split("\n"), tomlkit.dumps(pyproject).split("\n")
        )

        if not diff:
            # Nothing was added: every dependency is already present in the document,
            # e.g. a poetry entry whose version (`*`, a table) the store could not parse.
            logger.debug("No dependencies to add to pyproject.toml file.")
            return None

        if not dry_run:
            with open(self.path, "w", encoding="utf-8") as f:
                tomlkit.dump(pyproject, f)

        changes = self.build_changes(
            dependencies, added_line_nums_strategy, added_line_nums
        )
        return ChangeSet(
            path=str(self.path.relative_to(self.parent_directory)),
            diff=diff,
            changes=changes,
        )

    def _parse_file(self):
        with open(self.path, encoding="utf-8") as f:
            return tomlkit.load(f)

    def _update_poetry(
        self,
        pyproject: tomlkit.toml_document.TOMLDocument,
        dependencies: list[Dependency],
    ):
        add_newline = False

        if pyproject.get("tool", {}).get("poetry", {}).get("dependencies") is None:
            pyproject["tool"]["poetry"].update({"dependencies": {}})
            add_newline = True

        typing_location = find_typing_location(pyproject)

        for dep in dependencies:
            try:
                pyproject["tool"]["poetry"]["dependencies"].append(
                    dep.requirement.name, str(dep.requirement.specifier)
                )
            except tomlkit.exceptions.KeyAlreadyPresent:
                pass

            for type_stub_dependency in dep.type_stubs:
                if typing_location:
                    try:
                        keys = typing_location.split(".")
                        section = pyproject["tool"]["poetry"]
                        for key in keys:
                            section = section[key]
                        section.append(
                            type_stub_dependency.requirement.name,
                            str(type_stub_dependency.requirement.specifier),
                        )
                    except tomlkit.exceptions.KeyAlreadyPresent:
                        pass

        if add_newline:
            pyproject["tool"]["poetry"]["dependencies"].add(tomlkit.nl())


def find_typing_location(pyproject):
    """
    Look for a typing tool declared as a dependency in project.toml
    """
    locations = [
        "dependencies",
        "test.dependencies",
        "dev-dependencies",
        "dev.dependencies",
        "group.test.dependencies",
    ]
    poetry_section = pyproject.get("tool", {}).get("poetry", {})

    for location in locations:
        keys = location.split(".")
        section = poetry_section
        try:
            for key in keys:
                section = section[key]
            if any(checker in section for checker in TYPE_CHECKER_LIBRARIES):
                return location
        except KeyError:
            continue
    return None
