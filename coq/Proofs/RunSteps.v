(** Step lemmas of the orchestration model: one codemod application, process_dependencies, the fold over codemods. *)
From CM Require Import Base.Dict Model.Run Proofs.DictFacts Proofs.RunFacts.

Definition all_pipes : list pipe_kind := [PLibcst; PRegex; PXml].
Definition all_skinds : list skind := [SReqTxt; SToml; SSetupPy; SSetupCfg].
Definition pipes_dry_guarded (tb : run_tables) : bool :=
  forallb (fun k => has_guard IfNotDryWrite (guards_of tb k)) all_pipes.
Definition writers_dry_guarded (tb : run_tables) : bool := forallb (writer_guarded tb) all_skinds.
Definition dry_guarded (tb : run_tables) : bool := pipes_dry_guarded tb && writers_dry_guarded tb.
Definition tries_present (tb : run_tables) (k : pipe_kind) : bool :=
  has_guard TryParse (guards_of tb k) && has_guard TryTransform (guards_of tb k).

Lemma pipes_dry_guarded_k tb k : pipes_dry_guarded tb = true -> has_guard IfNotDryWrite (guards_of tb k) = true.
Proof.
  unfold pipes_dry_guarded, all_pipes. simpl. rewrite !andb_true_iff. intros [H1 [H2 [H3 _]]]. destruct k; assumption.
Qed.
Lemma writers_dry_guarded_k tb k : writers_dry_guarded tb = true -> writer_guarded tb k = true.
Proof.
  unfold writers_dry_guarded, all_skinds. simpl. rewrite !andb_true_iff. intros [H1 [H2 [H3 [H4 _]]]]. destruct k; assumption.
Qed.

(** "some change set recorded for codemod id [k] names path q" *)
Definition has_cs (s : state) (q : path) : Prop := exists k cs, In cs (dgetl k (s_cs s)) /\ cs_path cs = q.

Section RunSteps.
  Variable tb : run_tables.
  Variable tree : Type.
  Variable parse : pipe_kind -> bytes -> option tree.
  Variable code : pipe_kind -> tree -> bytes.
  Variable T : codemod -> tree -> option (list finding) -> outcome tree.
  Variable S : codemod -> path -> bytes -> list finding.
  Variable R : codemod -> list (path * list finding).
  Variable diff : bytes -> bytes -> str.
  Variable W : skind -> option bytes -> list dep -> option (bytes * str * list change).
  Variable fsel : codemod -> path -> bool.

  Local Notation mfiles := (map_files tb tree parse code T diff).
  Local Notation acodemod := (apply_codemod tb tree parse code T S R diff fsel).
  Local Notation tstores := (try_stores tb W).
  Local Notation pdeps := (process_dependencies tb W).
  Local Notation acodemods := (apply_codemods tb tree parse code T S R diff W fsel).
  Local Notation mrun := (run tb tree parse code T S R diff W fsel).

  (** The shape of one codemod application: either nothing happens, or the files are mapped and merged. *)
  Definition with_fs (s : state) (fs : fsys) : state :=
    {| s_fs := fs; s_cs := s_cs s; s_fail := s_fail s; s_deps := s_deps s; s_unf := s_unf s;
       s_upd := s_upd s; s_stores := s_stores s |}.

  Lemma acodemod_cases cfg pre K s :
    acodemod cfg pre K s = Ok s \/
    exists res files, files <> [] /\ res = detect S R cfg K pre (s_fs s) /\ files = files_to_analyze fsel cfg K res /\
      acodemod cfg pre K s =
      process_results (cid K) (fst (mfiles cfg K res (s_fs s) files)) (with_fs s (snd (mfiles cfg K res (s_fs s) files))).
  Proof.
    unfold apply_codemod. destruct (negb (cavail K)); [now left|].
    destruct (_ && _ && _); [now left|].
    destruct (detect S R cfg K pre (s_fs s)) as [[|x r]|] eqn:Ed; [now left| |];
      (destruct (files_to_analyze fsel cfg K _) as [|f fl] eqn:Ef; [now left|]);
      right; eexists; eexists; (split; [|split; [reflexivity|split; [symmetry; exact Ef|reflexivity]]]); discriminate.
  Qed.

  Lemma acodemod_frame cfg pre K s s' :
    acodemod cfg pre K s = Ok s' \/ acodemod cfg pre K s = Aborted s' ->
    s_stores s' = s_stores s /\ s_upd s' = s_upd s /\
    (forall k x, In x (dgetl k (s_cs s)) -> In x (dgetl k (s_cs s'))).
  Proof.
    intros H. destruct (acodemod_cases cfg pre K s) as [E|[res [files [_ [_ [_ E]]]]]]; rewrite E in H.
    - destruct H as [H|H]; inversion H; subst. auto.
    - pose proof (presults_fs _ _ _ _ H) as [_ [H2 H3]]. simpl in *. repeat split; auto.
      intros k x Hin. eapply presults_cs_mono; [exact H|exact Hin].
  Qed.

  (** dry run: one codemod application leaves the file system literally unchanged *)
  Lemma acodemod_dry cfg pre K s s' :
    has_guard IfNotDryWrite (guards_of tb (cpipe K)) = true -> dry_run cfg = true ->
    acodemod cfg pre K s = Ok s' \/ acodemod cfg pre K s = Aborted s' -> s_fs s' = s_fs s.
  Proof.
    intros Hg Hd H. destruct (acodemod_cases cfg pre K s) as [E|[res [files [_ [_ [_ E]]]]]]; rewrite E in H.
    - destruct H as [H|H]; inversion H; subst; auto.
    - apply presults_fs in H. destruct H as [H _]. rewrite H. simpl. now apply mfiles_dry.
  Qed.

  (** completed application: whatever differs on disk has a change set under this codemod's id *)
  Lemma acodemod_changed cfg pre K s s' q :
    acodemod cfg pre K s = Ok s' ->
    lookup (s_fs s') q = lookup (s_fs s) q \/ exists cs, In cs (dgetl (cid K) (s_cs s')) /\ cs_path cs = q.
  Proof.
    intros H. destruct (acodemod_cases cfg pre K s) as [E|[res [files [_ [_ [_ E]]]]]]; rewrite E in H.
    - inversion H; subst. now left.
    - pose proof (presults_fs _ _ _ _ (or_introl H)) as [Hfs _]. simpl in Hfs. rewrite Hfs.
      destruct (mfiles_changed tb tree parse code T diff cfg K res files (s_fs s) q) as [He|[cx [cs [H1 [H2 H3]]]]];
        [now left|right].
      exists cs. split; [|exact H3]. eapply presults_cs_in; eauto.
  Qed.

  Lemma acodemod_no_abort cfg pre K s :
    tries_present tb (cpipe K) = true -> exists s', acodemod cfg pre K s = Ok s'.
  Proof.
    unfold tries_present. rewrite andb_true_iff. intros [G1 G2].
    destruct (acodemod_cases cfg pre K s) as [E|[res [files [_ [_ [_ E]]]]]]; rewrite E; [eauto|].
    apply presults_ok. now apply mfiles_no_crash.
  Qed.

  (** ---- process_dependencies ---- *)
  Lemma tstores_dry cfg ds : forall stores fs,
    writers_dry_guarded tb = true -> dry_run cfg = true -> snd (fst (tstores cfg ds fs stores)) = fs.
  Proof.
    induction stores as [|st rest IH]; intros fs Hg Hd; simpl; [reflexivity|].
    destruct (attempt W ds fs st) as [[[b' d] chs]|]; simpl.
    - rewrite (writers_dry_guarded_k tb (st_kind st) Hg), Hd. reflexivity.
    - now apply IH.
  Qed.

  Lemma tstores_changed cfg ds : forall stores fs q,
    lookup (snd (fst (tstores cfg ds fs stores))) q = lookup fs q \/
    exists c, snd (tstores cfg ds fs stores) = Some c /\ cs_path c = q.
  Proof.
    induction stores as [|st rest IH]; intros fs q; simpl; [now left|].
    destruct (attempt W ds fs st) as [[[b' d] chs]|]; simpl.
    - destruct (writer_guarded tb (st_kind st) && dry_run cfg); [now left|].
      destruct (str_eqb_spec q (st_path st)) as [->|Hne]; [right; eauto | left; now apply lookup_fwrite_other].
    - apply IH.
  Qed.

  Lemma pdeps_dry cfg id s : writers_dry_guarded tb = true -> dry_run cfg = true -> s_fs (pdeps cfg id s) = s_fs s.
  Proof.
    intros Hg Hd. unfold process_dependencies. destruct (dgetl id (s_deps s)); [reflexivity|].
    destruct (s_stores s) eqn:Es; [reflexivity|]. rewrite <- Es.
    destruct (snd (tstores cfg _ (s_fs s) (s_stores s))); simpl; now apply tstores_dry.
  Qed.

  Lemma pdeps_cs_mono cfg id s k x : In x (dgetl k (s_cs s)) -> In x (dgetl k (s_cs (pdeps cfg id s))).
  Proof.
    intros Hin. unfold process_dependencies. destruct (dgetl id (s_deps s)); [exact Hin|].
    destruct (s_stores s) eqn:Es; [exact Hin|]. rewrite <- Es.
    destruct (snd (tstores cfg _ (s_fs s) (s_stores s))); simpl; [now apply In_dgetl_dext | exact Hin].
  Qed.

  Lemma pdeps_changed cfg id s q :
    lookup (s_fs (pdeps cfg id s)) q = lookup (s_fs s) q \/
    exists cs, In cs (dgetl id (s_cs (pdeps cfg id s))) /\ cs_path cs = q.
  Proof.
    unfold process_dependencies. destruct (dgetl id (s_deps s)) as [|d0 ds0]; [now left|].
    destruct (s_stores s) eqn:Es; [now left|]. rewrite <- Es.
    destruct (tstores_changed cfg (d0 :: ds0) (s_stores s) (s_fs s) q) as [He|[c [Hc Hq]]].
    - destruct (snd (tstores cfg _ (s_fs s) (s_stores s))); simpl; now left.
    - rewrite Hc. simpl. right. exists c. split; [|exact Hq]. rewrite dgetl_dext_same. apply in_or_app. right. now left.
  Qed.

  (** ---- the fold over codemods ---- *)
  Lemma acodemods_dry cfg pre Ks : forall s r,
    dry_guarded tb = true -> dry_run cfg = true -> acodemods cfg pre Ks s = r -> final_fs r = s_fs s.
  Proof.
    unfold dry_guarded. induction Ks as [|K rest IH]; intros s r Hg Hd Hr; simpl in Hr.
    - subst. reflexivity.
    - apply andb_true_iff in Hg as Hg'. destruct Hg' as [Hp Hw].
      destruct (acodemod cfg pre K s) as [s1|s1] eqn:E.
      + rewrite (IH _ _ Hg Hd Hr). rewrite pdeps_dry by assumption.
        eapply acodemod_dry; eauto. now apply pipes_dry_guarded_k.
      + subst. simpl. eapply acodemod_dry; eauto. now apply pipes_dry_guarded_k.
  Qed.

  Lemma acodemods_changed cfg pre Ks : forall s s' q,
    acodemods cfg pre Ks s = Ok s' ->
    (lookup (s_fs s') q = lookup (s_fs s) q \/ has_cs s' q) /\
    (forall k x, In x (dgetl k (s_cs s)) -> In x (dgetl k (s_cs s'))).
  Proof.
    induction Ks as [|K rest IH]; intros s s' q H; simpl in H.
    - inversion H; subst. split; [now left | auto].
    - destruct (acodemod cfg pre K s) as [s1|s1] eqn:E; [|discriminate].
      destruct (IH _ _ q H) as [H1 Hm].
      pose proof (acodemod_frame _ _ _ _ _ (or_introl E)) as [_ [_ Hm1]].
      split.
      + destruct H1 as [H1|H1]; [|now right]. rewrite H1.
        destruct (pdeps_changed cfg (cid K) s1 q) as [H2|[cs [H2 H3]]].
        * rewrite H2. destruct (acodemod_changed _ _ _ _ _ q E) as [H4|[cs [H4 H5]]]; [now left|].
          right. exists (cid K), cs. split; [|exact H5]. apply Hm. now apply pdeps_cs_mono.
        * right. exists (cid K), cs. split; [|exact H3]. now apply Hm.
      + intros k x Hin. apply Hm. apply pdeps_cs_mono. now apply Hm1.
  Qed.

  Lemma acodemods_no_abort cfg pre Ks : forall s,
    (forall K, In K Ks -> tries_present tb (cpipe K) = true) -> exists s', acodemods cfg pre Ks s = Ok s'.
  Proof.
    induction Ks as [|K rest IH]; intros s Ht; simpl; [eauto|].
    destruct (acodemod_no_abort cfg pre K s) as [s1 E]; [apply Ht; now left|]. rewrite E.
    apply IH. intros K' Hin. apply Ht. now right.
  Qed.
End RunSteps.
