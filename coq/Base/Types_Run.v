(** Types of the table values that tools/fragments_run.py extracts from the orchestration sources
    (libcst_transformer.py, regex_transformer.py, xml_transformer.py, base_codemod.py, context.py, codemodder.py,
    dependency_management/*_writer.py). *)
From CM Require Export Base.Str Base.Types_Diff.

(** The guards of a transformer pipeline's [apply], in source order.  Which of them are present is what the
    orchestration model depends on; an order other than the canonical one is rejected by the translator. *)
Inductive guard :=
| TryParse        (* try/except Exception around read + decode + parse: add_failure, return None *)
| TryTransform    (* try/except Exception around the transformer chain: add_failure, return None *)
| IfNoChanges     (* `if not <changes>: return None` before anything is written *)
| IfNoDiff        (* `if not (diff := ...): return None` before anything is written *)
| IfNotDryWrite.  (* the write is inside `if not context.dry_run:` *)

Definition guard_eqb (a b : guard) : bool :=
  match a, b with
  | TryParse, TryParse | TryTransform, TryTransform | IfNoChanges, IfNoChanges
  | IfNoDiff, IfNoDiff | IfNotDryWrite, IfNotDryWrite => true
  | _, _ => false
  end.
Definition has_guard (g : guard) (gs : list guard) : bool := existsb (guard_eqb g) gs.

(** The four manifest writers. *)
Inductive skind := SReqTxt | SToml | SSetupPy | SSetupCfg.
Definition skind_eqb (a b : skind) : bool :=
  match a, b with
  | SReqTxt, SReqTxt | SToml, SToml | SSetupPy, SSetupPy | SSetupCfg, SSetupCfg => true
  | _, _ => false
  end.

(** Shapes of the orchestration functions (only recognised forms are listed; anything else is `unrecognised`). *)
Inductive apply_codemods_form :=
| SequentialApplyThenDeps.   (* for codemod in codemods_to_run: codemod.apply(ctx); ctx.process_dependencies(codemod.id) *)
Inductive apply_form :=
| MapAllThenMergeInOrder.    (* provider check; prefilter test; detector; files; executor.map over ALL files; process_results in input order *)
Inductive process_file_form :=
| ShortCircuitThenPipeline.  (* findings None | [] -> empty context | transformer.apply; add_changeset iff a change set is returned *)
Inductive process_results_form :=
| MergeFourAggregatesById.   (* changesets, failures, dependencies, unfixed, each keyed by the codemod id, in iteration order *)
Inductive process_deps_form :=
| FirstStoreWinsBreak.       (* deps empty -> {}; no store -> record None; for store: write(list(deps), dry_run) is not None -> add, break *)
Inductive prefilter_form :=
| OnceBeforeAnyRewrite.      (* codemodder.run: semgrep_prefilter_results computed once, before apply_codemods *)

Record run_tables := {
  t_libcst : list guard;
  t_regex  : list guard;
  t_xml    : list guard;
  t_writers : list (skind * bool);   (* writer kind -> its file write is guarded by `if not dry_run` *)
  t_diff : diff_from;                (* libcst pipeline: old side of the reported diff (Tables.diff_source, fragment libcst_apply_diff) *)
}.
Inductive add_failure_form :=
| AllFindingsUnfixedLine0.   (* failures.append(file); add_unfixed_findings(get_all_findings(), reason, 0) *)
Inductive find_semgrep_form := OneRunAllRules.
Inductive semgrep_scope_form := PrefilterFilesOrDirectory.   (* files_for_rule(id) if a prefilter exists else [] (-> the directory) *)
Inductive semgrep_detector_form := ScanPrefilterFiles.
Inductive write_sites_form := OnlyKnownWriteSites.   (* no write-capable call outside the three pipelines, the four writers, the report, temp files *)
