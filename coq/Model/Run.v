(** Orchestration model: codemodder.run / apply_codemods / BaseCodemod._apply / _process_file /
    the three transformer pipelines' [apply] / context.process_results / process_dependencies / compile_results,
    as written (src/codemodder/{codemodder,context,file_context}.py, codemods/{base_codemod,libcst_transformer,
    regex_transformer,xml_transformer,semgrep}.py, dependency_management).  Definitions only.

    File system = association list path -> bytes, read with [lookup] (first binding wins), written by consing.
    Oracles (libcst, the transformers, semgrep, difflib, the four manifest writers) are Section variables.
    What depends on how the source is written is taken from a [run_tables] value (Generated/Tables.v). *)
From CM Require Export Base.Str Base.Dict Base.Types_Run.

Definition path := str.
Definition bytes := str.
Definition fsys := list (path * bytes).
Definition lookup (s : fsys) (p : path) : option bytes := dget str_eqb p s.
Definition fwrite (s : fsys) (p : path) (b : bytes) : fsys := (p, b) :: s.

Definition finding := str.                       (* identified by its id *)
Definition dep := str.                           (* canonical requirement name *)
Definition change := (N * list finding)%type.    (* lineNumber, findings *)
Record changeset := { cs_path : path; cs_diff : str; cs_changes : list change }.
Definition unfixed := (finding * path * N * N)%type.   (* finding, path, lineNumber, reason *)

Inductive pipe_kind := PLibcst | PRegex | PXml.
Inductive det_kind := DNone | DSemgrep | DSast.
Inductive base_kind := FindAndFix | Remediation.
Record codemod := { cid : str; cpipe : pipe_kind; cdet : det_kind; cbase : base_kind; cavail : bool }.
Record store := { st_kind : skind; st_path : path; st_deps : list dep }.

(** Options and the values cached once per run on the execution context. *)
Record config := {
  dry_run : bool;
  all_files : list path;      (* context.files_to_analyze (cached_property) *)
  ff_paths : list path;       (* context.find_and_fix_paths (cached_property) *)
  scan_all : list path;       (* the files semgrep targets when it is handed the directory itself *)
}.

(** transformer.transform over the pipeline: raises, or returns the tree with the recorded changes/dependencies *)
Inductive outcome (tree : Type) := Raise | NoChange | Changed (t' : tree) (chs : list change) (ds : list dep).
Arguments Raise {tree}. Arguments NoChange {tree}. Arguments Changed {tree} t' chs ds.

(** what one pipeline application returns / does to its FileContext *)
Inductive pres :=
| PCrash                                       (* the exception escapes [apply] *)
| PFailed (reason : N)                         (* file_context.add_failure; return None *)
| PNone (ds : list dep)                        (* return None (no change set); dependencies stay on the FileContext *)
| PChangeset (c : changeset) (ds : list dep).

Record fctx := { fc_cs : list changeset; fc_fail : list path; fc_unf : list unfixed; fc_deps : list dep }.
Definition empty_fctx : fctx := {| fc_cs := []; fc_fail := []; fc_unf := []; fc_deps := [] |}.
Inductive fres := FCrash | FCtx (c : fctx).     (* what executor.map yields for one file: raises, or a FileContext *)

Record state := {
  s_fs : fsys;
  s_cs : dict str (list changeset);      (* _changesets_by_codemod *)
  s_fail : dict str (list path);         (* _failures_by_codemod *)
  s_deps : dict str (list dep);          (* dependencies (a set per codemod id; modelled duplicate-free, insertion order) *)
  s_unf : dict str (list unfixed);       (* _unfixed_findings_by_codemod *)
  s_upd : dict str (option path);        (* _dependency_update_by_codemod (the store's file, or None) *)
  s_stores : list store;                 (* repo_manager.package_stores: parsed once, mutated in place by DependencyWriter.add *)
}.
Inductive run_result := Ok (s : state) | Aborted (s : state).   (* Aborted: an exception reached codemodder.run *)

Definition is_nil {A} (l : list A) : bool := match l with [] => true | _ => false end.
Definition dgetl {V} (k : str) (d : dict str (list V)) : list V :=
  match dget str_eqb k d with Some l => l | None => [] end.
(** d.setdefault(k, []).extend(xs) *)
Definition dext {V} (k : str) (xs : list V) (d : dict str (list V)) : dict str (list V) :=
  dset str_eqb k (dgetl k d ++ xs) d.
(** d.setdefault(k, set()).update(xs) *)
Definition set_union (a b : list dep) : list dep :=
  fold_left (fun acc d => if mem_str d acc then acc else acc ++ [d]) b a.
Definition dunion (k : str) (xs : list dep) (d : dict str (list dep)) : dict str (list dep) :=
  dset str_eqb k (set_union (dgetl k d) xs) d.

Definition res_get (r : list (path * list finding)) (p : path) : list finding :=
  match dget str_eqb p r with Some l => l | None => [] end.

Definition guards_of (tb : run_tables) (k : pipe_kind) : list guard :=
  match k with PLibcst => t_libcst tb | PRegex => t_regex tb | PXml => t_xml tb end.
Definition writer_guarded (tb : run_tables) (k : skind) : bool :=
  match find (fun kb => skind_eqb k (fst kb)) (t_writers tb) with Some kb => snd kb | None => false end.

(** Old side of the diff a pipeline reports.  The regex and XML pipelines diff the file's own lines; the libcst pipeline
    diffs what Tables.diff_source says: the re-rendered parse tree (create_diff_from_tree, pinned tree) or the file's text. *)
Definition diff_base_at (v : diff_from) (tree : Type) (code : pipe_kind -> tree -> bytes) (k : pipe_kind) (b : bytes) (t : tree) : bytes :=
  match v with
  | FromFileText => b
  | FromTrees => match k with PLibcst => code k t | _ => b end
  end.

Section Run.
  Variable tb : run_tables.
  Variable tree : Type.
  (** file_path.read_bytes().decode("utf-8") followed by the pipeline's parser (cst.parse_module / splitlines / SAX);
      None = an exception is raised. *)
  Variable parse : pipe_kind -> bytes -> option tree.
  (** tree.code / "".join(lines) encoded *)
  Variable code : pipe_kind -> tree -> bytes.
  Variable T : codemod -> tree -> option (list finding) -> outcome tree.
  (** semgrep with the codemod's rule on one file (rules are intra-file) *)
  Variable S : codemod -> path -> bytes -> list finding.
  (** findings of the codemod's rules read from the tool result files given on the command line *)
  Variable R : codemod -> list (path * list finding).
  Variable diff : bytes -> bytes -> str.
  (** *Writer.add_to_file on the manifest's current content: None, or (new content, diff, changes) *)
  Variable W : skind -> option bytes -> list dep -> option (bytes * str * list change).
  (** extension / path filter of get_files_to_analyze *)
  Variable fsel : codemod -> path -> bool.
  Variable cfg : config.

  (** -- LibcstTransformerPipeline.apply / RegexTransformerPipeline.apply / XMLTransformerPipeline.apply -------------
      Returns the result and the bytes written to the file (None = no write). *)
  Definition diff_base (k : pipe_kind) (b : bytes) (t : tree) : bytes := diff_base_at (t_diff tb) tree code k b t.

  Definition pipeline_apply (K : codemod) (p : path) (content : option bytes) (fi : option (list finding))
    : pres * option bytes :=
    let k := cpipe K in
    let gs := guards_of tb k in
    match (match content with
           | Some b => match parse k b with Some t => Some (b, t) | None => None end
           | None => None end) with
    | None => if has_guard TryParse gs then (PFailed 0, None) else (PCrash, None)
    | Some (b, t) =>
        match T K t fi with
        | Raise => if has_guard TryTransform gs then (PFailed 1, None) else (PCrash, None)
        | o =>
            let '(t', chs, ds) := match o with Changed t' c d => (t', c, d) | _ => (t, [], []) end in
            if has_guard IfNoChanges gs && is_nil chs then (PNone ds, None) else
            let d := diff (diff_base k b t) (code k t') in
            if has_guard IfNoDiff gs && is_nil d then (PNone ds, None) else
            (PChangeset {| cs_path := p; cs_diff := d; cs_changes := chs |} ds,
             if has_guard IfNotDryWrite gs && dry_run cfg then None else Some (code k t'))
        end
    end.

  (** file_context.add_failure: every finding of the file becomes unfixed, with line 0 *)
  Definition failure_unfixed (p : path) (reason : N) (fi : option (list finding)) : list unfixed :=
    map (fun f => (f, p, 0%N, reason)) (match fi with Some l => l | None => [] end).

  (** -- BaseCodemod._process_file ------------------------------------------------------------------------------
      [file_step] is the part that does not touch the file system: what the FileContext ends up holding (or the
      escaping exception) and the bytes to be written, as a function of the file's current content. *)
  Definition fres_of (p : path) (fi : option (list finding)) (pr : pres) : fres :=
    match pr with
    | PCrash => FCrash
    | PFailed r => FCtx {| fc_cs := []; fc_fail := [p]; fc_unf := failure_unfixed p r fi; fc_deps := [] |}
    | PNone ds => FCtx {| fc_cs := []; fc_fail := []; fc_unf := []; fc_deps := ds |}
    | PChangeset c ds => FCtx {| fc_cs := [c]; fc_fail := []; fc_unf := []; fc_deps := ds |}
    end.
  Definition findings_for (results : option (list (path * list finding))) (p : path) : option (list finding) :=
    match results with None => None | Some r => Some (res_get r p) end.
  Definition file_step (K : codemod) (results : option (list (path * list finding))) (p : path)
             (content : option bytes) : fres * option bytes :=
    let fi := findings_for results p in
    match fi with
    | Some [] => (FCtx empty_fctx, None)          (* "no findings, short-circuiting analysis" *)
    | _ => let pw := pipeline_apply K p content fi in (fres_of p fi (fst pw), snd pw)
    end.
  Definition process_file (K : codemod) (results : option (list (path * list finding))) (fs : fsys) (p : path)
    : fres * fsys :=
    let rw := file_step K results p (lookup fs p) in
    (fst rw, match snd rw with Some b => fwrite fs p b | None => fs end).

  (** executor.map(process_file, files): every file is processed (the pool is drained before results are consumed);
      each task reads and writes only its own path.  Results are yielded in input order. *)
  Fixpoint map_files (K : codemod) (results : option (list (path * list finding))) (fs : fsys) (files : list path)
    : list fres * fsys :=
    match files with
    | [] => ([], fs)
    | p :: rest =>
        let rf := process_file K results fs p in
        let rest' := map_files K results (snd rf) rest in
        (fst rf :: fst rest', snd rest')
    end.

  (** -- context.process_results ------------------------------------------------------------------------------- *)
  Definition merge_ctx (id : str) (c : fctx) (s : state) : state :=
    {| s_fs := s_fs s;
       s_cs := dext id (fc_cs c) (s_cs s);
       s_fail := dext id (fc_fail c) (s_fail s);
       s_deps := dunion id (fc_deps c) (s_deps s);
       s_unf := dext id (fc_unf c) (s_unf s);
       s_upd := s_upd s;
       s_stores := s_stores s |}.
  Fixpoint process_results (id : str) (outs : list fres) (s : state) : run_result :=
    match outs with
    | [] => Ok s
    | FCrash :: _ => Aborted s                 (* the generator re-raises the task's exception here *)
    | FCtx c :: r => process_results id r (merge_ctx id c s)
    end.

  (** -- detector ---------------------------------------------------------------------------------------------- *)
  Definition findings_at (K : codemod) (fs : fsys) (p : path) : list finding :=
    match lookup fs p with Some b => S K p b | None => [] end.
  Definition semgrep_scan (K : codemod) (fs : fsys) (scope : list path) : list (path * list finding) :=
    flat_map (fun p => match findings_at K fs p with [] => [] | l => [(p, l)] end) scope.

  (** codemodder.find_semgrep_results: ONE semgrep run with every rule, before any rewrite, over find_and_fix_paths
      (or the directory when that list is empty).  Only rules with at least one hit get a key. *)
  Definition prefilter_of (Ks : list codemod) (fs : fsys) : dict str (list path) :=
    let scope := match ff_paths cfg with [] => scan_all cfg | l => l end in
    fold_left (fun acc K =>
                 match cdet K with
                 | DSemgrep => match map fst (semgrep_scan K fs scope) with
                               | [] => acc
                               | l => dset str_eqb (cid K) l acc
                               end
                 | _ => acc
                 end) Ks [].

  Definition detect (K : codemod) (pre : dict str (list path)) (fs : fsys) : option (list (path * list finding)) :=
    match cdet K with
    | DNone => None
    | DSemgrep =>   (* SemgrepRuleDetector.apply: semgrep over semgrep_results_for_rule(id) or [directory] *)
        Some (semgrep_scan K fs (match dgetl (cid K) pre with [] => scan_all cfg | l => l end))
    | DSast => Some (R K)
    end.

  Definition files_to_analyze (K : codemod) (results : option (list (path * list finding))) : list path :=
    match cbase K with
    | FindAndFix => List.filter (fsel K) (ff_paths cfg)
    | Remediation =>
        match results with
        | Some r => List.filter (fun p => fsel K p && negb (is_nil (res_get r p))) (all_files cfg)
        | None => []
        end
    end.

  (** -- BaseCodemod._apply ------------------------------------------------------------------------------------ *)
  Definition apply_codemod (pre : dict str (list path)) (K : codemod) (s : state) : run_result :=
    if negb (cavail K) then Ok s else
    if (match cdet K with DSemgrep => true | _ => false end)
       && negb (is_nil pre) && negb (dhas str_eqb (cid K) pre) then Ok s else
    let results := detect K pre (s_fs s) in
    match results with
    | Some [] => Ok s
    | _ =>
        match files_to_analyze K results with
        | [] => Ok s
        | files =>
            let of := map_files K results (s_fs s) files in
            process_results (cid K) (fst of)
              {| s_fs := snd of; s_cs := s_cs s; s_fail := s_fail s; s_deps := s_deps s; s_unf := s_unf s;
                 s_upd := s_upd s; s_stores := s_stores s |}
        end
    end.

  (** -- context.process_dependencies -> DependencyManager.write -> DependencyWriter.write/add/add_to_file -------- *)
  Definition new_deps (st : store) (ds : list dep) : list dep :=
    List.filter (fun d => negb (mem_str d (st_deps st))) ds.
  (** DependencyWriter.write on one store: nothing new -> None, else add_to_file on the manifest's current content *)
  Definition attempt (ds : list dep) (fs : fsys) (st : store) : option (bytes * str * list change) :=
    match new_deps st ds with
    | [] => None
    | new => W (st_kind st) (lookup fs (st_path st)) new
    end.
  (** DependencyWriter.add mutates the store before (and whether or not) the file is written *)
  Definition store_added (st : store) (ds : list dep) : store :=
    {| st_kind := st_kind st; st_path := st_path st; st_deps := st_deps st ++ new_deps st ds |}.
  Fixpoint try_stores (ds : list dep) (fs : fsys) (stores : list store)
    : list store * fsys * option changeset :=
    match stores with
    | [] => ([], fs, None)
    | st :: rest =>
        match attempt ds fs st with
        | None => let r := try_stores ds fs rest in (store_added st ds :: fst (fst r), snd (fst r), snd r)
        | Some (b', d, chs) =>
            (store_added st ds :: rest,
             if writer_guarded tb (st_kind st) && dry_run cfg then fs else fwrite fs (st_path st) b',
             Some {| cs_path := st_path st; cs_diff := d; cs_changes := chs |})
        end
    end.

  (** Variant with an OS write error (REVIEW_A 14).  [try_stores] above is the instance in which every write succeeds: the
      whole-run theorems are about it.  RequirementsTxtWriter / SetupCfgWriter open the manifest with mode "w" (which truncates
      it) inside `try: ... except Exception: return None`: when the write then fails ([wok st = false]) the manifest is left
      EMPTY, no change set is returned and the loop goes on to the next store.  [catches] says which writers swallow the
      error (Tables.writer_catch_table); for the others the exception escapes and aborts the run (not modelled here). *)
  Fixpoint try_stores_os (catches : skind -> bool) (wok : store -> bool) (ds : list dep) (fs : fsys) (stores : list store)
    : list store * fsys * option changeset :=
    match stores with
    | [] => ([], fs, None)
    | st :: rest =>
        match attempt ds fs st with
        | None => let r := try_stores_os catches wok ds fs rest in (store_added st ds :: fst (fst r), snd (fst r), snd r)
        | Some (b', d, chs) =>
            if writer_guarded tb (st_kind st) && dry_run cfg then
              (store_added st ds :: rest, fs, Some {| cs_path := st_path st; cs_diff := d; cs_changes := chs |})
            else if wok st || negb (catches (st_kind st)) then
              (store_added st ds :: rest, fwrite fs (st_path st) b', Some {| cs_path := st_path st; cs_diff := d; cs_changes := chs |})
            else
              let r := try_stores_os catches wok ds (fwrite fs (st_path st) []) rest in
              (store_added st ds :: fst (fst r), snd (fst r), snd r)
        end
    end.

  Definition process_dependencies (id : str) (s : state) : state :=
    match dgetl id (s_deps s) with
    | [] => s
    | ds =>
        match s_stores s with
        | [] => {| s_fs := s_fs s; s_cs := s_cs s; s_fail := s_fail s; s_deps := s_deps s; s_unf := s_unf s;
                   s_upd := dset str_eqb id None (s_upd s); s_stores := [] |}
        | stores =>
            let r := try_stores ds (s_fs s) stores in
            match snd r with
            | None => {| s_fs := snd (fst r); s_cs := s_cs s; s_fail := s_fail s; s_deps := s_deps s; s_unf := s_unf s;
                         s_upd := s_upd s; s_stores := fst (fst r) |}
            | Some c => {| s_fs := snd (fst r); s_cs := dext id [c] (s_cs s); s_fail := s_fail s; s_deps := s_deps s;
                           s_unf := s_unf s; s_upd := dset str_eqb id (Some (cs_path c)) (s_upd s);
                           s_stores := fst (fst r) |}
            end
        end
    end.

  (** -- codemodder.apply_codemods ------------------------------------------------------------------------------ *)
  Fixpoint apply_codemods (pre : dict str (list path)) (Ks : list codemod) (s : state) : run_result :=
    match Ks with
    | [] => Ok s
    | K :: rest =>
        match apply_codemod pre K s with
        | Aborted s' => Aborted s'
        | Ok s' => apply_codemods pre rest (process_dependencies (cid K) s')
        end
    end.

  Definition init_state (fs : fsys) (stores : list store) : state :=
    {| s_fs := fs; s_cs := []; s_fail := []; s_deps := []; s_unf := []; s_upd := []; s_stores := stores |}.

  (** codemodder.run from the creation of the context to the end of apply_codemods *)
  Definition run (Ks : list codemod) (fs : fsys) (stores : list store) : run_result :=
    match all_files cfg with
    | [] => Ok (init_state fs stores)            (* "no files to scan" *)
    | _ => apply_codemods (prefilter_of Ks fs) Ks (init_state fs stores)
    end.

  (** -- context.compile_results (what the properties read of it) and the exit status -------------------------------- *)
  Record result_row := {
    r_codemod : str; r_changeset : list changeset; r_failed : list path; r_unfixed : list unfixed;
    r_deps : list dep; r_dep_store : option (option path);
  }.
  Definition compile_results (Ks : list codemod) (s : state) : list result_row :=
    map (fun K => {| r_codemod := cid K; r_changeset := dgetl (cid K) (s_cs s); r_failed := dgetl (cid K) (s_fail s);
                     r_unfixed := dgetl (cid K) (s_unf s); r_deps := dgetl (cid K) (s_deps s);
                     r_dep_store := dget str_eqb (cid K) (s_upd s) |}) Ks.
  (** None = no report (uncaught exception, status 1) *)
  Definition report (Ks : list codemod) (r : run_result) : option (list result_row) :=
    match r with Ok s => Some (compile_results Ks s) | Aborted _ => None end.
  Definition exit_status (r : run_result) : Z := match r with Ok _ => 0%Z | Aborted _ => 1%Z end.
  Definition final_fs (r : run_result) : fsys := match r with Ok s => s_fs s | Aborted s => s_fs s end.
End Run.
