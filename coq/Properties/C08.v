(** C08 — refactoring codemods preserve program behaviour.                                              [_partial]

    Full statement: for every codemod K presented as a pure refactoring, every closed deterministic program P on which
    K makes a change and every input:  observe (exec P) = observe (exec (run_K P))   (same value, same exception type).

    What is proved here (all unbounded: every MiniPy expression, every environment):
    for the rewrite kernels modelled in Model/Rewrites.v, as written in the current source (table values in
    Generated/Tables.v):   parses_as_built e -> parses_as_built (rw e) -> in_model (meaning rho e) = true -> guard e rho ->
    eval rho (norm (rw e)) = eval rho (norm e),  with the guard explicit and decidable (Spec/RewritesSpec.v), and just
    outside every conjunct of the guard a concrete program whose behaviour changes ([changes]).
    [norm] is the tree CPython parses from the printed text; [parses_as_built t] (norm t = allpar t) says the text parses back
    to the tree the codemod built: it holds for every tree printed with the parentheses Python's precedences need (the harness
    feeds both fully and minimally parenthesised texts) and fails exactly when a replacement lost parentheses it needed.
    [in_model]: the evaluator defines the original program (it declines identity of small values, non-int set elements, float
    arithmetic, ordering of tuples/lists, generator objects, ...): without it a law could hold because both sides are
    "OutOfModel".  The evaluator has exceptions but no other effects, so "effect-free" parts of the guards only speak
    about raising; effects are exercised by the program families of the harness (side-effecting predicates etc.).

    Why _partial: (i) MiniPy is a fragment of Python (no f-strings, statements, attribute access, arithmetic other than //,
    user classes with comparison methods) and its evaluator a model of CPython (validated against CPython on every run,
    never proved): e.g. use-set-literal needs no SEMANTIC guard on MiniPy, but inside an f-string replacement field the
    display's `{` joins the field's `{` (finding kf_set_literal_fstring_braces, searched by the f-string family; the same happens to invert-boolean-check when
    `not ` is dropped in front of a display: finding kf_invert_fstring_braces, C01_kernel_invert_brace_first);
    (ii) the other refactoring codemods named by the property have no model: the harness only searches them;
    (iii) that the repaired folds/inversions never lose parentheses ([parses_as_built (rw e)]) is a premise checked per
    case, not a theorem. *)
From CM Require Import Model.MiniPy Model.PySem Model.Rewrites Spec.RewritesSpec Proofs.C08Lemmas Generated.Tables.
From Coq Require Import String.

(** combine-startswith-endswith / combine-isinstance-issubclass:
    law under [combine_guard] (every fold that fires joins two calls through `or`, arguments are literals, tuples of
    effect-free elements, or names not bound to tuples); refuted for tuple-valued names, for later arguments that raise,
    and -- pinned form -- for `c1 or c2 and z` and for folds whose parentheses matter. *)
Theorem C08_combine_partial : C08_combine_statement combine_cfg_v.
Proof. exact (C08_combine_all combine_cfg_v). Qed.
Print Assumptions C08_combine_partial.

(** invert-boolean-check:
    law under [invert_guard] (single comparison, operator in the table with its true negation, operands not both sets and
    not NaN for orderings, `not x is True/False` only for bool x); refuted for partial orders, NaN, non-bool `is True`,
    and -- pinned form -- for chains, the default branch (comparator printed twice) and lost parentheses. *)
Theorem C08_invert_partial : C08_invert_statement invert_cfg_v.
Proof. exact (C08_invert_all invert_cfg_v). Qed.
Print Assumptions C08_invert_partial.

(** use-generator: law under [generator_guard] (sum/min/max always; any/all when every element of the list form
    evaluates; no argument dropped); refuted for `any([1 // v for v in [1, 0]])` and -- pinned form -- `sum([..], 10)`. *)
Theorem C08_generator_partial : C08_generator_statement generator_cfg_v.
Proof. exact (C08_generator_all generator_cfg_v). Qed.
Print Assumptions C08_generator_partial.

(** use-set-literal: no semantic guard on MiniPy expressions (see the header for what lies outside MiniPy). *)
Theorem C08_set_literal :
  forall rho e, parses_as_built e -> parses_as_built (rw_set_literal e) -> in_model (meaning rho e) = true -> preserves rw_set_literal rho e.
Proof. exact C08_set_literal_all. Qed.
Print Assumptions C08_set_literal.

(** fix-hasattr-call: law unless `__call__` is set on the instance only; the pinned form also rewrites hasattr calls that do
    not have exactly two arguments (those raise TypeError, `callable(x)` does not). *)
Theorem C08_hasattr_partial : C08_hasattr_statement hasattr_cfg_v.
Proof. exact (C08_hasattr_all hasattr_cfg_v). Qed.
Print Assumptions C08_hasattr_partial.

(** Non-vacuity: each guard holds on an input that the kernel really changes. *)
Definition ex_env : env := [(0%N, VStr (s "xy")); (2%N, VInt 0); (3%N, VStr (s "x")); (4%N, VObj 1 [call_attr] [])].
(** (v0.startswith("q") or (v0.startswith(("x", "q")) or v2)), 1   ->   v0.startswith(("q", "x")) or v2 *)
Example C08_combine_example :
  let e := ETuple [EBool true BOr (sw 0 (cs "q")) (EBool true BOr (sw 0 (ETuple [cs "x"; cs "q"])) (EName 2)); ci 1] in
  combine_guard combine_cfg_v KStartsEnds ex_env e = true /\ paren_safe e = true /\
  paren_safe (rw_combine combine_cfg_v KStartsEnds e) = true /\ rw_combine combine_cfg_v KStartsEnds e <> e /\
  meaning ex_env e = Val (VTuple [VBool true; VInt 1]).
Proof. vm_compute. repeat split; try reflexivity. discriminate. Qed.
(** not (v2 < 3)  ->  v2 >= 3 *)
Example C08_invert_example :
  let e := ENot true (ECmp true (EName 2) [(Lt, ci 3)]) in
  invert_guard invert_cfg_v ex_env e = true /\ paren_safe (invert_file invert_cfg_v e) = true /\
  invert_file invert_cfg_v e <> e /\ meaning ex_env e = Val (VBool false).
Proof. vm_compute. repeat split; try reflexivity. discriminate. Qed.
(** all([v5 // 1 for v5 in [1, 2]])  ->  all(v5 // 1 for v5 in [1, 2]) *)
Example C08_generator_example :
  let e := ECall BAll [EListComp (EFloorDiv (EName 5) (ci 1)) 5 (EList [ci 1; ci 2])] in
  generator_guard generator_cfg_v ex_env e = true /\ generator_file generator_cfg_v e <> e /\ meaning ex_env e = Val (VBool true).
Proof. vm_compute. repeat split; try reflexivity. discriminate. Qed.
(** hasattr(v4, "__call__") with __call__ defined by the class *)
Example C08_hasattr_example :
  let e := ECall BHasattr [EName 4; call_lit] in
  hasattr_guard hasattr_cfg_v ex_env e = true /\ rw_hasattr hasattr_cfg_v e <> e /\ meaning ex_env e = Val (VBool true).
Proof. vm_compute. repeat split; try reflexivity. discriminate. Qed.

(** fix-empty-sequence-comparison (`x == []` -> `not x`, `x != []` -> `bool(x)` / bare `x` as the test of an `if`):
    law when every rewritten comparison compares a value of the display's own type (list with [], tuple with ()) or a
    value whose evaluation raises; the observation of an `if` test is its truth value.  Refuted for a tuple / an int
    compared with [] (the codemod cannot know the type: by design, class kf_empty_seq_other_type) and, pinned form, for
    the parentheses of the replaced comparison. *)
Theorem C08_empty_seq_partial : C08_empty_seq_statement empty_seq_cfg_v.
Proof. exact (C08_empty_seq_all empty_seq_cfg_v). Qed.
Print Assumptions C08_empty_seq_partial.
Example C08_empty_seq_example :
  let rho := [(1%N, VList [VInt 1]); (2%N, VTuple [])] in
  let e := EBool true BAnd (ECmp true (EName 1) [(NotEq, EList [])]) (ECmp true (ETuple []) [(Eq, EName 2)]) in
  empty_seq_guard empty_seq_cfg_v false rho e = true /\ empty_seq_file empty_seq_cfg_v false e <> e /\
  meaning rho e = Val (VBool true) /\ paren_safe (empty_seq_file empty_seq_cfg_v false e) = true.
Proof. vm_compute. repeat split; try reflexivity. discriminate. Qed.

(** literal-or-new-object-identity (`x is <literal>` -> `x == <literal>`): law when `is` and `==` agree on the operands of
    every rewritten comparison (e.g. None / an object / a type against a display); refuted for `True is 1`
    (the codemod changes the meaning on purpose: class kf_identity_differs). *)
Theorem C08_identity_partial :
  forall rho e, parses_as_built e -> parses_as_built (rw_identity e) -> in_model (meaning rho e) = true -> identity_guard rho e = true -> preserves rw_identity rho e.
Proof. exact C08_identity_all. Qed.
Print Assumptions C08_identity_partial.
Theorem C08_identity_refuted : changes rw_identity [] w_id_bool.
Proof. exact C08_identity_refuted_w. Qed.
Print Assumptions C08_identity_refuted.
Example C08_identity_example :
  let rho := [(1%N, VNone)] in
  let e := ENot true (ECmp true (EName 1) [(Is, EList [ci 1])]) in
  identity_guard rho e = true /\ rw_identity e <> e /\ meaning rho e = Val (VBool true).
Proof. vm_compute. repeat split; try reflexivity. discriminate. Qed.

(** str-concat-in-sequence-literals is NOT among the refactorings C08 speaks about (properties.jsonl: generator expressions, set
    literals, walrus-if, combined calls, f-strings, imports, abc / logging deprecations, lazy logging, inverted boolean checks,
    hasattr-call, `with` wrapping; SQL parameterization): it changes what the display means on purpose (["x" "x", "y"] is
    ["xx", "y"], its rewrite ["x", "x", "y"]).  The fact is recorded; no C08 law is claimed, no finding is listed, and the
    harness compares only the model with the real codemod for this kernel (C01 / C02 / C07 carry its theorems). *)
From CM Require Import Proofs.StrConcatFacts.
Theorem C08_str_concat_changes_meaning : forall cfg,
  wf w_sc_meaning = true /\ meaning [] (rw_str_concat cfg w_sc_meaning) <> meaning [] w_sc_meaning /\
  meaning [] w_sc_meaning = Val (VList [VStr (lit "xx"); VStr (lit "y")]).
Proof. exact str_concat_changes_meaning. Qed.
Print Assumptions C08_str_concat_changes_meaning.
