(** C15 — the CodeTF report is always well-formed, complete and internally consistent.

    Full statement: whenever --output is given and the run completes, the report is valid CodeTF JSON with exactly one
    result per executed codemod, in execution order, each with its id, summary, description and references; every changeset
    names an existing project-relative file, has a non-empty diff and at least one change with a non-empty description and a
    line number inside the file; a codemod's failed and changed files are disjoint; SAST results carry the detection tool and
    rule/finding identifiers.

    What is proved here, for every run of the model [report R iv no_files runs] (Model/Report.v: per-file pipelines with
    their guards, FileContext aggregates, process_results, process_dependencies, add_description, compile_results,
    update_finding_metadata, CodeTF.build, exclude_none serialisation), for every codemod list (empty included), every
    per-file behaviour of the transformers (oracle [fr_raw]), zero files, failures and dependency changes:
    - [schema_ok] is the hand transcription of vendor/codetf.schema.json, a RECONSTRUCTION of the CodeTF schema (trusted);
    - "executed codemod" is a codemod of [codemods_to_run]; with zero files none of them is applied but each still gets a result;
    - "line number inside the file" and "existing file" relate the report to the tree: they hold under the transformer contract
      (the reported line is a line of the file) and are checked by the harness on real runs, not proved;
    - premises ([run_ok]): files have project-relative paths, [report_unfixed] lines are >= 0, and the changesets returned by the
      dependency writers are well formed (oracle contract of C14's writers, tested); [strict] validators are a premise of the
      laws and are established for the extracted validators by [C15_validators].
    Statements indexed by a table value have a positive branch (the law) and a negative branch (a computed witness).
    Properties/C15_positive.v shows that the positive branches are the ones taken on the current source ([strict the_validators],
    [good_pipe the_tables …]) and instantiates the laws there ([C15_here]). *)
From CM Require Import Model.Report Model.ReportTables Spec.ReportSpec Proofs.ReportSchemaFacts Proofs.ReportFacts
     Proofs.ReportTheorems Generated.Tables.

(** exactly one result per codemod of [codemods_to_run], in order, carrying that codemod's id, summary, description
    (followed by the dependency notice, if any), references and detection tool — for every table value, every list, zero files *)
Theorem C15_one_result_per_codemod_in_order :
  forall R iv no_files runs,
    one_result_per_codemod (map cr_cm runs) (report R iv no_files runs) /\
    map rs_codemod (ct_results (report R iv no_files runs)) = map rid runs.
Proof. intros. split; [apply one_result_all|apply result_ids_all]. Qed.
Print Assumptions C15_one_result_per_codemod_in_order.

(** the two validators of [Change] as extracted from codetf.py: [mk_change] is None exactly on lineNumber < 1 or description "" *)
Theorem C15_validators : validators_statement report_line_validator report_desc_validator.
Proof. exact (validators_all report_line_validator report_desc_validator). Qed.
Print Assumptions C15_validators.

(** every changeset of every result: relative non-empty path, non-empty diff, >= 1 change, every change with lineNumber >= 1
    and a non-empty description — from the guards of the pipeline and the validators *)
Theorem C15_changesets_wellformed : changesets_wellformed_statement report_libcst_apply.
Proof. exact (changesets_wellformed_all' report_libcst_apply). Qed.
Print Assumptions C15_changesets_wellformed.

(** a file is either failed or changed for one codemod; the only possible exception is the manifest the dependency manager
    rewrote when that manifest is also a file the codemod failed on *)
Theorem C15_failed_changed_disjoint : disjoint_law.
Proof. exact disjoint_all. Qed.
Print Assumptions C15_failed_changed_disjoint.

Theorem C15_failed_changed_disjoint_no_manifest_overlap :
  forall R iv nf runs r,
    NoDup (map rid runs) -> In r runs -> NoDup (map fr_path (files_of r)) ->
    (forall ty cs0, first_store (cr_stores r) = Some (ty, cs0) -> ~ In (cs_path cs0) (map fr_path (files_of r))) ->
    disjoint_ok (iv_dir iv) (compile_result (t_update R) (iv_dir iv) (apply_codemods (t_apply R) (t_pipe R) nf runs) r) = true.
Proof. exact disjoint_ok_all. Qed.
Print Assumptions C15_failed_changed_disjoint_no_manifest_overlap.

(** ... and that exception is real in the model: setup.py fails in the transformer, another file asks for a dependency, the
    dependency manager rewrites setup.py: failedFiles and changeset both name it (all premises of the laws hold) *)
Theorem C15_failed_changed_refuted_manifest :
  forall xv, let R := w_R (w_T LibcstGuardChangesDiff xv V1) in
    (forall r, In r w_overlap_runs -> run_ok (t_pipe R) r) /\
    exists res, In res (ct_results (report R w_iv false w_overlap_runs)) /\ disjoint_ok (iv_dir w_iv) res = false.
Proof.
  intros xv. destruct (overlap_witness LibcstGuardChangesDiff xv) as [H1 H2]. split; [|exact H2].
  intros r Hr. destruct (H1 r Hr) as [H|H]; [exact H|discriminate].
Qed.
Print Assumptions C15_failed_changed_refuted_manifest.

(** the serialised report satisfies the (reconstructed) CodeTF schema *)
Theorem C15_schema_ok : schema_statement report_libcst_apply.
Proof. exact (schema_all report_libcst_apply). Qed.
Print Assumptions C15_schema_ok.

(** SAST: the result carries the detection tool of its codemod, and every finding whose id is one of the codemod's tool rules
    carries that rule's name and url *)
Theorem C15_sast_carry_tool :
  forall R iv nf runs r,
    let res := compile_result (t_update R) (iv_dir iv) (apply_codemods (t_apply R) (t_pipe R) nf runs) r in
    rs_tool res = option_map (fun t => {| dt_name := tm_name t |}) (cm_tool (cr_cm r)) /\
    result_findings_ok (tool_rules (cr_cm r)) res.
Proof. exact sast_all. Qed.
Print Assumptions C15_sast_carry_tool.

(** a file that cannot be parsed: no changeset, listed as failed, all its findings unfixed with lineNumber 0.  The property's
    line-number clause is about changes; the schema accepts 0 for unfixed findings (minimum 0), so this is NOT a violation. *)
Theorem C15_failed_line0_allowed :
  forall T f, fr_parse_ok f = false -> fr_has_results f && is_nil (fr_findings f) = false ->
    let fc := pipe_file T PLibcst f in
    fc_changesets fc = [] /\ fc_failures fc = [fr_path f] /\
    fc_unfixed fc = map (to_unfixed (fr_path f) (Some 0%Z) r_parse) (fr_findings f) /\
    forallb (fun u => sch_unfixed (unfixed_json u)) (fc_unfixed fc) = true.
Proof.
  intros T f Hp Hs. cbn. unfold libcst_file. rewrite Hs, Hp. cbn. destruct (t_fail T); cbn.
  repeat split. apply forallb_forall. intros u Hu. apply in_map_iff in Hu as [x [<- _]]. apply sch_unfixed_ok. reflexivity.
Qed.
Print Assumptions C15_failed_line0_allowed.

(** XML pipeline (public API, no shipped codemod uses it): changes without description in every variant; without a diff guard a
    changeset with an empty diff *)
Theorem C15_xml_description_none : xml_statement report_xml_apply.
Proof. exact (xml_all report_xml_apply). Qed.
Print Assumptions C15_xml_description_none.

(** Regex pipeline (public API, no shipped codemod uses it): with the failure handling of the repaired tree no file can abort
    the run; on the pinned tree an undecodable file or an empty [change_description] aborts it and no report is written
    ([report_opt = None]: outside C15's quantifier).  Its changesets are covered by [C15_changesets_wellformed] /
    [C15_schema_ok] through [run_ok] (premise [file_pre]: difflib yields a non-empty diff when a line was rewritten). *)
Theorem C15_regex_pipeline : regex_statement report_regex_apply.
Proof. exact (regex_all report_regex_apply). Qed.
Print Assumptions C15_regex_pipeline.

(** Non-vacuity: a run with two codemods (one SAST), a changed, an unchanged and a failed file, a dependency written to a
    manifest; the premises of the laws hold and the report is the expected one. *)
Example C15_example_premises :
  (forall r, In r ex_runs -> run_ok (w_T LibcstGuardChangesDiff XmlDescOrNoneNoDiffGuard V1) r) /\ strict V1 /\
  NoDup (map rid ex_runs) /\ Forall (fun r => NoDup (map fr_path (files_of r))) ex_runs.
Proof.
  split; [apply ex_runs_ok|]. split; [apply strict_V1|]. split.
  - repeat constructor; cbn; intuition discriminate.
  - repeat constructor; cbn; intuition discriminate.
Qed.
Example C15_example_report :
  let rep := report (w_R (w_T LibcstGuardChangesDiff XmlDescOrNoneNoDiffGuard V1)) w_iv false ex_runs in
  schema_ok (to_json rep) = true /\
  map (fun r => (rs_codemod r, map cs_path (rs_changeset r), failed_of r)) (ct_results rep) =
    [(cm_id w_cm, [a_py; req_txt], [abs_of (iv_dir w_iv) b_py]); (cm_id ex_cm2, [a_py], [abs_of (iv_dir w_iv) b_py])] /\
  forallb (disjoint_ok (iv_dir w_iv)) (ct_results rep) = true /\
  is_int_ge 1 (JNum 0) = false.
Proof. vm_compute. repeat split. Qed.
