import io
import os
import tempfile
from functools import cache
from pathlib import Path

import yaml

from codemodder.codemods.base_detector import BaseDetector
from codemodder.context import CodemodExecutionContext
from codemodder.result import ResultSet
from codemodder.semgrep import SemgrepResultSet
from codemodder.semgrep import run as semgrep_run


def _populate_yaml(rule: str, codemod_id: str) -> str:
    rule_yaml = yaml.safe_load(io.StringIO(rule))
    config = {"rules": rule_yaml} if "rules" not in rule_yaml else rule_yaml
    config["rules"][0].setdefault("id", codemod_id)
    config["rules"][0].setdefault("message", "Semgrep found a match")
    config["rules"][0].setdefault("severity", "WARNING")
    config["rules"][0].setdefault("languages", ["python"])
    return yaml.safe_dump(config)


def _create_temp_yaml_file(rule: str, codemod_id: str):
    fd, path = tempfile.mkstemp()
    with os.fdopen(fd, "w") as ff:
        ff.write(_populate_yaml(rule, codemod_id))

    return [Path(path)]


class SemgrepRuleDetector(BaseDetector):
    rule: str

    def __init__(self, rule: str):
        self.rule = rule

    def get_yaml_files(self, codemod_id: str) -> list[Path]:
        return _create_temp_yaml_file(self.rule, codemod_id)

    def apply(
        self,
        codemod_id: str,
        context: CodemodExecutionContext,
    ) -> ResultSet:
        yaml_files = self.get_yaml_files(codemod_id)
        with context.timer.measure("semgrep"):
            files_to_analyze = context.semgrep_results_for_rule(codemod_id)
            return semgrep_run(context, yaml_files, files_to_analyze)


class SemgrepSarifFileDetector(BaseDetector):
    def apply(
        self,
        codemod_id: str,
        context: CodemodExecutionContext,
    ) -> ResultSet:
        del codemod_id
        return process_semgrep_findings(
            tuple(context.tool_result_files_map.get("semgrep", ()))
        )  # Convert list to tuple for cache hashability


@cache
def process_semgrep_findings(semgrep_sarif_files: tuple[str]) -> ResultSet:
    results = SemgrepResultSet()
    for file in semgrep_sarif_files or ():
        results |= SemgrepResultSet.from_sarif(file)
    return results
