import libcst as cst

from core_codemods.api import Metadata, Reference, ReviewGuidance, SimpleCodemod

DEPRECATED_NAMES = [
    "print_function",
    "unicode_literals",
    "division",
    "absolute_import",
    "generators",
    "nested_scopes",
    "with_statement",
    "generator_stop",
]
CURRENT_NAMES = [
    "annotations",
]


class RemoveFutureImports(SimpleCodemod):
    metadata = Metadata(
        name="remove-future-imports",
        summary="Remove deprecated `__future__` imports",
        review_guidance=ReviewGuidance.MERGE_WITHOUT_REVIEW,
        references=[
            Reference(url="https://docs.python.org/3/library/__future__.html"),
        ],
    )
    change_description = "Remove deprecated `__future__` imports"

    def leave_ImportFrom(
        self, original_node: cst.ImportFrom, updated_node: cst.ImportFrom
    ):
        match original_node.module:
            case cst.Name(value="__future__"):
                match original_node.names:
                    case cst.ImportStar():
                        names = [
                            cst.ImportAlias(name=cst.Name(value=name))
                            for name in CURRENT_NAMES
                        ]
                        self.add_change(original_node, self.change_description)
                        return original_node.with_changes(names=names)

                updated_names: list[cst.ImportAlias] = [
                    name
                    for name in original_node.names
                    if name.name.value not in DEPRECATED_NAMES
                ]
                if updated_names:
                    # the last remaining name must not keep the comma that separated it from a removed one
                    updated_names[-1] = updated_names[-1].with_changes(
                        comma=cst.MaybeSentinel.DEFAULT
                    )
                self.add_change(original_node, self.change_description)
                return (
                    updated_node.with_changes(names=updated_names)
                    if updated_names
                    else cst.RemoveFromParent()
                )

        return updated_node
