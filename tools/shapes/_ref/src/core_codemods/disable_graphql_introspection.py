import libcst as cst
from libcst.codemod import CodemodContext, ContextAwareVisitor

from codemodder.codemods.base_codemod import Metadata, ReviewGuidance
from codemodder.codemods.libcst_transformer import (
    LibcstResultTransformer,
    LibcstTransformerPipeline,
)
from codemodder.codemods.utils import ReplacementNodeType, ReplaceNodes
from codemodder.codemods.utils_mixin import NameAndAncestorResolutionMixin
from codemodder.codetf import Reference
from core_codemods.api.core_codemod import CoreCodemod


class DisableGraphQLIntrospectionTransform(
    LibcstResultTransformer, NameAndAncestorResolutionMixin
):

    change_description = "Added rule to disable introspection"

    def transform_module_impl(self, tree: cst.Module) -> cst.Module:
        visitor = FindGraphQLViewsWithIntrospection(self.context)
        tree.visit(visitor)
        all_changes: dict[cst.CSTNode, ReplacementNodeType] = {}
        for call, changes in visitor.calls_to_change.items():
            if self.node_is_selected(call.func) or self.node_is_selected(call):
                all_changes |= changes
                self.report_change(call)
        if all_changes:
            self.add_needed_import(
                "graphql.validation", "NoSchemaIntrospectionCustomRule"
            )
            return tree.visit(ReplaceNodes(all_changes))
        return super().transform_module_impl(tree)


class FindGraphQLViewsWithIntrospection(
    ContextAwareVisitor, NameAndAncestorResolutionMixin
):

    supported_functions = {
        "graphql_server.flask.GraphQLView",
        "graphql_server.flask.GraphQLView.as_view",
        "graphql_server.sanic.GraphQLView",
        "graphql_server.aiohttp.GraphQLView",
        "graphql_server.webob.GraphQLView",
    }

    introspection_rules_objects = {
        "graphql.validation.NoSchemaIntrospectionCustomRule",
        "graphql.NoSchemaIntrospectionCustomRule",
        "graphene.validation.DisableIntrospection",
    }

    def __init__(self, context: CodemodContext) -> None:
        self.calls_to_change: dict[cst.Call, dict[cst.CSTNode, ReplacementNodeType]] = (
            {}
        )
        super().__init__(context)

    def leave_Call(self, original_node: cst.Call):
        # accumulates the changes associated with the detected call
        nodes_to_change = {}
        if self.find_base_name(original_node) in self.supported_functions:
            resolved_args = self.resolve_keyword_args(original_node)
            if "validation_rules" in resolved_args.keys():
                # is it a list literal that I can append?
                resolved = resolved_args["validation_rules"]
                match resolved:
                    case cst.List():
                        # does it have any introspection rule
                        if not any(
                            filter(
                                lambda e: self._is_introspection_rule_or_starred(e),
                                self.resolve_list_literal(resolved),
                            )
                        ):
                            nodes_to_change[resolved] = resolved.with_changes(
                                elements=[
                                    *resolved.elements,
                                    cst.Element(
                                        value=cst.Name(
                                            "NoSchemaIntrospectionCustomRule"
                                        )
                                    ),
                                ]
                            )

            else:
                nodes_to_change[original_node] = original_node.with_changes(
                    args=[
                        *original_node.args,
                        cst.Arg(
                            value=cst.parse_expression(
                                "[NoSchemaIntrospectionCustomRule,]"
                            ),
                            keyword=cst.Name("validation_rules"),
                        ),
                    ]
                )
        if nodes_to_change:
            self.calls_to_change[original_node] = nodes_to_change

    def _is_introspection_rule_or_starred(
        self, node: cst.BaseExpression | cst.StarredElement
    ) -> bool:
        # Does it have a starred element?
        if isinstance(node, cst.StarredElement):
            return True
        if isinstance(node, cst.Name):
            return self.find_base_name(node) in self.introspection_rules_objects
        return False


DisableGraphQLIntrospection = CoreCodemod(
    metadata=Metadata(
        name="disable-graphql-introspection",
        summary="Disable GraphQL Introspection to Prevent Sensitive Data Leakage",
        review_guidance=ReviewGuidance.MERGE_AFTER_REVIEW,
        references=[
            Reference(
                url="https://owasp.org/Top10/A05_2021-Security_Misconfiguration/",
            ),
            Reference(
                url="https://owasp.org/www-project-top-ten/2017/A3_2017-Sensitive_Data_Exposure",
            ),
            Reference(
                url="https://owasp.org/www-project-web-security-testing-guide/v42/4-Web_Application_Security_Testing/12-API_Testing/01-Testing_GraphQL#introspection-queries",
            ),
        ],
    ),
    transformer=LibcstTransformerPipeline(DisableGraphQLIntrospectionTransform),
    detector=None,
)
