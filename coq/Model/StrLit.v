(** lazy-logging's re-quoting of string literals (core_codemods/lazy_logging.py: process_concat + make_args_for_plus,
    prefix-less STRING case): the raw contents of the concatenated literals are joined, ''%s'' stands for every
    non-literal operand, and the result is wrapped in double quotes WITHOUT re-escaping.
    Plus the part of Python's lexer that decides whether that text is one string literal. Definitions only. *)
From CM Require Export Base.Str.

Definition DQ : N := 34.   (* '' *)
Definition BS : N := 92.   (* \ *)
Definition NL : N := 10.
Definition CR : N := 13.

Inductive piece := Lit (raw : str) | Other.     (* a SimpleString's raw_value, or any other operand *)

Definition piece_text (p : piece) : str := match p with Lit r => r | Other => [37; 115]%N end.   (* ''%s'' *)
Definition requote (ps : list piece) : str := DQ :: concat (map piece_text ps) ++ [DQ].

(** Python's lexer on a short string opened by a double quote: returns (content, rest after the closing quote). *)
Fixpoint lex_dq (s : str) : option (str * str) :=
  match s with
  | [] => None
  | c :: r =>
      if N.eqb c DQ then Some ([], r)
      else if N.eqb c NL || N.eqb c CR then None
      else if N.eqb c BS then
        match r with
        | [] => None
        | d :: r' => match lex_dq r' with Some (body, rest) => Some (c :: d :: body, rest) | None => None end
        end
      else match lex_dq r with Some (body, rest) => Some (c :: body, rest) | None => None end
  end.

(** [s] is exactly one double-quoted short string literal with content [body] *)
Definition lexes_as_one (s body : str) : Prop :=
  match s with
  | c :: r => c = DQ /\ lex_dq r = Some (body, [])
  | [] => False
  end.

(** content that can be wrapped in double quotes as it is *)
Fixpoint dq_safe (s : str) : bool :=
  match s with
  | [] => true
  | c :: r =>
      if N.eqb c DQ then false
      else if N.eqb c NL || N.eqb c CR then false
      else if N.eqb c BS then match r with [] => false | _ :: r' => dq_safe r' end
      else dq_safe r
  end.

Definition piece_safe (p : piece) : bool := match p with Lit r => dq_safe r | Other => true end.
