import json
from dataclasses import replace
from functools import cache
from pathlib import Path

import libcst as cst
from typing_extensions import Self

from codemodder.codetf import Finding, Rule
from codemodder.logging import logger
from codemodder.result import LineInfo, Location, ResultSet, SASTResult


def sonar_url_from_id(rule_id: str) -> str:
    # convert "python:SXXX" or "pythonsecurity:SXXX" to XXX
    try:
        rule_id = rule_id.split(":")[1][1:]
    except IndexError:
        logger.debug("Invalid sonar rule id: %s", rule_id)
        raise

    return f"https://rules.sonarsource.com/python/RSPEC-{rule_id}/"


class SonarLocation(Location):
    @classmethod
    def from_json_location(cls, json_location) -> Self:
        location = json_location.get("textRange")
        start = LineInfo(location.get("startLine"), location.get("startOffset"), "")
        end = LineInfo(location.get("endLine"), location.get("endOffset"), "")
        file = Path(json_location.get("component").split(":")[-1])
        return cls(file=file, start=start, end=end)


class SonarResult(SASTResult):

    @classmethod
    def from_result(cls, result: dict) -> Self:
        # Sonar issues have `rule` as key while hotspots call it `ruleKey`
        if not (rule_id := result.get("rule", None) or result.get("ruleKey", None)):
            raise ValueError("Could not extract rule id from sarif result.")

        locations: list[Location] = (
            [SonarLocation.from_json_location(result)]
            if result.get("textRange")
            else []
        )
        all_flows: list[list[Location]] = [
            [
                SonarLocation.from_json_location(json_location)
                for json_location in flow.get("locations", {})
            ]
            for flow in result.get("flows", [])
        ]

        finding_id = result.get("key", rule_id)

        # Both issues and hotspots have a `message` key
        name = result.get("message", None) or rule_id

        return cls(
            finding_id=finding_id,
            rule_id=rule_id,
            locations=locations,
            codeflows=all_flows,
            finding=Finding(
                id=rule_id,
                rule=Rule(
                    id=rule_id,
                    name=name,
                    url=sonar_url_from_id(rule_id),
                ),
            ),
        )

    def match_location(self, pos, node):
        match node:
            case cst.Tuple():
                new_pos = replace(
                    pos,
                    start=replace(pos.start, column=pos.start.column - 1),
                    end=replace(pos.end, column=pos.end.column + 1),
                )
                return super().match_location(new_pos, node)
        return super().match_location(pos, node)


class SonarResultSet(ResultSet):
    @classmethod
    @cache
    def from_json(cls, json_file: str | Path) -> Self:
        try:
            with open(json_file, "r", encoding="utf-8") as file:
                data = json.load(file)

            result_set = cls()
            for result in (data.get("issues") or []) + (data.get("hotspots") or []):
                try:
                    if result["status"].lower() in ("open", "to_review"):
                        result_set.add_result(SonarResult.from_result(result))
                except Exception:
                    # one malformed entry must not discard the other findings of the file
                    logger.exception("Skipping malformed sonar result in %s", json_file)

            return result_set
        except Exception:
            logger.exception("Could not parse sonar json %s", json_file)
        return cls()
