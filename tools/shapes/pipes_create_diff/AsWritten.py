def create_diff(original_lines: list[str], new_lines: list[str]) -> str:
    diff_lines = list(difflib.unified_diff(original_lines, new_lines))
    return difflines_to_str(diff_lines)
