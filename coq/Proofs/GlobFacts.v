(** Lemmas about the glob model (C05). *)
From CM Require Import Model.Glob Spec.GlobSpec.
From Coq Require Import Lia.

(** * The matcher computes the declarative semantics *)

Lemma gmatch_star_unfold p s :
  gmatch (IStar :: p) s =
  if gmatch p s then true else match s with [] => false | _ :: s' => gmatch (IStar :: p) s' end.
Proof. destruct s; reflexivity. Qed.

Lemma gmatch_one_unfold i p s : i <> IStar ->
  gmatch (i :: p) s = match s with [] => false | c :: s' => if item_ok i c then gmatch p s' else false end.
Proof. intros H. destruct i; try reflexivity. congruence. Qed.

Lemma Matches_star_inv p s : Matches (IStar :: p) s -> exists s1 s2, s = s1 ++ s2 /\ Matches p s2.
Proof.
  intros H. inversion H as [| i p' c s' Hok _ | p' s1 s2 Hm]; subst.
  - simpl in Hok. discriminate.
  - exists s1, s2. split; [reflexivity | exact Hm].
Qed.

Lemma gmatch_sound : forall p s, gmatch p s = true -> Matches p s.
Proof.
  induction p as [| i p IH]; intros s H.
  - destruct s; [constructor | discriminate].
  - destruct i.
    + (* IStar *)
      induction s as [| c s IHs].
      * rewrite gmatch_star_unfold in H. destruct (gmatch p []) eqn:E; [| discriminate].
        apply (M_star p [] []). apply IH. exact E.
      * rewrite gmatch_star_unfold in H. destruct (gmatch p (c :: s)) eqn:E.
        -- apply (M_star p [] (c :: s)). apply IH. exact E.
        -- apply IHs in H. apply Matches_star_inv in H. destruct H as [s1 [s2 [-> Hm]]].
           apply (M_star p (c :: s1) s2). exact Hm.
    + rewrite gmatch_one_unfold in H by discriminate. destruct s as [| c s]; [discriminate |].
      destruct (item_ok IAny c) eqn:E; [| discriminate]. constructor; [exact E | apply IH; exact H].
    + rewrite gmatch_one_unfold in H by discriminate. destruct s as [| c' s]; [discriminate |].
      destruct (item_ok (ILit c) c') eqn:E; [| discriminate]. constructor; [exact E | apply IH; exact H].
    + rewrite gmatch_one_unfold in H by discriminate. destruct s as [| c s]; [discriminate |].
      destruct (item_ok (ISet neg singles ranges) c) eqn:E; [| discriminate].
      constructor; [exact E | apply IH; exact H].
    + rewrite gmatch_one_unfold in H by discriminate. destruct s as [| c s]; [discriminate |].
      simpl in H. discriminate.
Qed.

Lemma gmatch_complete : forall p s, Matches p s -> gmatch p s = true.
Proof.
  intros p s H. induction H as [| i p c s Hok Hm IH | p s1 s2 Hm IH].
  - reflexivity.
  - assert (Hi : i <> IStar) by (intros ->; simpl in Hok; discriminate).
    rewrite gmatch_one_unfold by exact Hi. rewrite Hok. exact IH.
  - induction s1 as [| c s1 IHs1].
    + change ([] ++ s2) with s2. rewrite gmatch_star_unfold. rewrite IH. reflexivity.
    + change ((c :: s1) ++ s2) with (c :: (s1 ++ s2)). rewrite gmatch_star_unfold.
      destruct (gmatch p (c :: s1 ++ s2)); [reflexivity | exact IHs1].
Qed.

Theorem gmatch_Matches p s : gmatch p s = true <-> Matches p s.
Proof. split; [apply gmatch_sound | apply gmatch_complete]. Qed.

Corollary fnmatch_GlobMatches name pat : fnmatch name pat = true <-> GlobMatches pat name.
Proof. apply gmatch_Matches. Qed.

(** * Patterns made of literals and stars *)

Lemma Matches_exact l s : Matches (map ILit l) s <-> s = l.
Proof.
  revert s. induction l as [| c l IH]; intros s; simpl.
  - split; intros H; [inversion H; reflexivity | subst; constructor].
  - split; intros H.
    + inversion H as [| i p c' s' Hok Hm |]; subst. simpl in Hok. apply N.eqb_eq in Hok. subst.
      f_equal. apply IH. exact Hm.
    + subst. constructor; [simpl; apply N.eqb_refl | apply IH; reflexivity].
Qed.

Lemma Matches_star_all s : Matches [IStar] s.
Proof. rewrite <- (app_nil_r s). apply M_star. constructor. Qed.

Lemma Matches_prefix l s : Matches (map ILit l ++ [IStar]) s <-> exists r, s = l ++ r.
Proof.
  revert s. induction l as [| c l IH]; intros s; simpl.
  - split; intros _; [exists s; reflexivity | apply Matches_star_all].
  - split; intros H.
    + inversion H as [| i p c' s' Hok Hm |]; subst. simpl in Hok. apply N.eqb_eq in Hok. subst.
      apply IH in Hm. destruct Hm as [r ->]. exists r. reflexivity.
    + destruct H as [r ->]. simpl. constructor; [simpl; apply N.eqb_refl | apply IH; exists r; reflexivity].
Qed.

Lemma Matches_suffix l s : Matches (IStar :: map ILit l) s <-> exists r, s = r ++ l.
Proof.
  split; intros H.
  - apply Matches_star_inv in H. destruct H as [s1 [s2 [-> Hm]]]. apply Matches_exact in Hm. subst. exists s1. reflexivity.
  - destruct H as [r ->]. apply M_star. apply Matches_exact. reflexivity.
Qed.

Lemma Matches_infix l s : Matches (IStar :: map ILit l ++ [IStar]) s <-> exists a b, s = a ++ l ++ b.
Proof.
  split; intros H.
  - apply Matches_star_inv in H. destruct H as [s1 [s2 [-> Hm]]]. apply Matches_prefix in Hm.
    destruct Hm as [r ->]. exists s1, r. reflexivity.
  - destruct H as [a [b ->]]. apply M_star. apply Matches_prefix. exists b. reflexivity.
Qed.

Lemma Matches_shape sh s : Matches (shape_items sh) s <-> shape_holds sh s.
Proof.
  destruct sh; simpl.
  - apply Matches_exact.
  - apply Matches_prefix.
  - apply Matches_suffix.
  - apply Matches_infix.
Qed.

(** A list of patterns whose tokenisations are the given shapes selects exactly the names of one of the shapes. *)
Lemma shapes_char pats shapes s :
  map parse_pat pats = map shape_items shapes ->
  (existsb (fnmatch s) pats = true <-> Exists (fun sh => shape_holds sh s) shapes).
Proof.
  revert shapes. induction pats as [| p pats IH]; intros [| sh shapes] Heq; simpl in Heq; try discriminate.
  - simpl. split; [discriminate | intros H; inversion H].
  - injection Heq as Hp Hrest. simpl. rewrite Bool.orb_true_iff, (IH shapes Hrest), Exists_cons.
    unfold fnmatch. rewrite Hp, gmatch_Matches, Matches_shape. reflexivity.
Qed.

(** * Ordering of strings, [sorted_set] *)

Lemma str_cmp_refl a : str_cmp a a = Eq.
Proof. induction a as [| x a IH]; simpl; [reflexivity |]. rewrite N.compare_refl. exact IH. Qed.

Lemma str_cmp_eq a b : str_cmp a b = Eq <-> a = b.
Proof.
  split; [| intros ->; apply str_cmp_refl].
  revert b. induction a as [| x a IH]; intros [| y b]; simpl; try discriminate; [reflexivity |].
  destruct (N.compare x y) eqn:E; try discriminate. apply N.compare_eq in E. subst.
  intros H. f_equal. apply IH. exact H.
Qed.

Lemma str_cmp_antisym a b : str_cmp b a = CompOpp (str_cmp a b).
Proof.
  revert b. induction a as [| x a IH]; intros [| y b]; simpl; try reflexivity.
  rewrite (N.compare_antisym x y). destruct (N.compare x y); simpl; try reflexivity. apply IH.
Qed.

Lemma str_lt_irrefl a : ~ str_lt a a.
Proof. unfold str_lt. rewrite str_cmp_refl. discriminate. Qed.

Lemma str_lt_trans a b c : str_lt a b -> str_lt b c -> str_lt a c.
Proof.
  unfold str_lt. revert b c. induction a as [| x a IH]; intros [| y b] [| z c]; simpl; try discriminate; try reflexivity.
  destruct (N.compare x y) eqn:Exy; try discriminate.
  - apply N.compare_eq in Exy. subst. destruct (N.compare y z) eqn:Eyz; try discriminate; [| reflexivity].
    apply IH.
  - intros _. destruct (N.compare y z) eqn:Eyz; try discriminate.
    + apply N.compare_eq in Eyz. subst. rewrite Exy. reflexivity.
    + intros _. rewrite N.compare_lt_iff in *. assert (Hxz : (x < z)%N) by lia.
      apply N.compare_lt_iff in Hxz. rewrite Hxz. reflexivity.
Qed.

Lemma In_insert_sorted x y l : In y (insert_sorted x l) <-> y = x \/ In y l.
Proof.
  induction l as [| z l IH]; simpl.
  - split; [intros [H | []]; left; congruence | intros [H | []]; left; congruence].
  - destruct (str_cmp x z) eqn:E; simpl.
    + apply str_cmp_eq in E. subst. split; [intros H; right; exact H | intros [-> | H]; [left; reflexivity | exact H]].
    + split; [intros [H | H]; [left; congruence | right; exact H] | intros [H | H]; [left; congruence | right; exact H]].
    + rewrite IH. split.
      * intros [H | [H | H]]; [right; left; exact H | left; exact H | right; right; exact H].
      * intros [H | [H | H]]; [right; left; exact H | left; exact H | right; right; exact H].
Qed.

Lemma In_sorted_set x l : In x (sorted_set l) <-> In x l.
Proof.
  induction l as [| y l IH]; simpl; [reflexivity |].
  rewrite In_insert_sorted, IH. split; intros [H | H]; auto.
Qed.

Lemma insert_sorted_Sorted x l : StronglySorted str_lt l -> StronglySorted str_lt (insert_sorted x l).
Proof.
  induction l as [| y l IH]; intros Hs; simpl.
  - constructor; constructor.
  - inversion Hs as [| y' l' Hl Hall]; subst. destruct (str_cmp x y) eqn:E.
    + exact Hs.
    + constructor; [exact Hs |]. constructor; [exact E |].
      rewrite Forall_forall in *. intros z Hz. apply (str_lt_trans x y z); [exact E | apply Hall; exact Hz].
    + constructor; [apply IH; exact Hl |]. rewrite Forall_forall in *. intros z Hz.
      apply In_insert_sorted in Hz. destruct Hz as [-> | Hz]; [| apply Hall; exact Hz].
      unfold str_lt. rewrite (str_cmp_antisym x y), E. reflexivity.
Qed.

Lemma sorted_set_Sorted l : StronglySorted str_lt (sorted_set l).
Proof. induction l as [| x l IH]; simpl; [constructor | apply insert_sorted_Sorted; exact IH]. Qed.

Lemma StronglySorted_NoDup l : StronglySorted str_lt l -> List.NoDup l.
Proof.
  induction 1 as [| x l Hs IH Hall]; constructor; [| exact IH].
  intros Hin. rewrite Forall_forall in Hall. apply (str_lt_irrefl x). apply Hall. exact Hin.
Qed.

(** Two strictly sorted lists with the same elements are the same list. *)
Lemma StronglySorted_unique : forall l1 l2,
  StronglySorted str_lt l1 -> StronglySorted str_lt l2 -> (forall x, In x l1 <-> In x l2) -> l1 = l2.
Proof.
  induction l1 as [| a l1 IH]; intros [| b l2] H1 H2 Hiff.
  - reflexivity.
  - exfalso. apply (proj2 (Hiff b)). left; reflexivity.
  - exfalso. apply (proj1 (Hiff a)). left; reflexivity.
  - inversion H1 as [| a' l1' Hs1 Ha]; subst. inversion H2 as [| b' l2' Hs2 Hb]; subst.
    rewrite Forall_forall in Ha, Hb.
    assert (Hab : a = b).
    { destruct (proj1 (Hiff a) (or_introl eq_refl)) as [Hba | Hin2]; [congruence |].
      destruct (proj2 (Hiff b) (or_introl eq_refl)) as [Hba | Hin1]; [congruence |].
      exfalso. apply (str_lt_irrefl a). apply (str_lt_trans a b a); [apply Ha; exact Hin1 | apply Hb; exact Hin2]. }
    subst b. f_equal. apply IH; [exact Hs1 | exact Hs2 |].
    intros x. split; intros Hx.
    + destruct (proj1 (Hiff x) (or_intror Hx)) as [Hxa | Hx2]; [| exact Hx2].
      subst x. exfalso. apply (str_lt_irrefl a). apply Ha. exact Hx.
    + destruct (proj2 (Hiff x) (or_intror Hx)) as [Hxa | Hx1]; [| exact Hx1].
      subst x. exfalso. apply (str_lt_irrefl a). apply Hb. exact Hx.
Qed.

(** * split(":") *)

Lemma split_on_nonempty sep s : split_on sep s <> [].
Proof.
  induction s as [| c s IH]; simpl; [discriminate |].
  destruct (N.eqb c sep); [discriminate |]. destruct (split_on sep s); [congruence | discriminate].
Qed.

Lemma split_on_no_sep sep s : memN sep s = false -> split_on sep s = [s].
Proof.
  induction s as [| c s IH]; simpl; [reflexivity |]. unfold memN in *. simpl.
  rewrite Bool.orb_false_iff. intros [Hc Hs]. rewrite N.eqb_sym, Hc. rewrite (IH Hs). reflexivity.
Qed.

Lemma hd_split_no_sep sep s : memN sep (hd [] (split_on sep s)) = false.
Proof.
  induction s as [| c s IH]; simpl; [reflexivity |].
  destruct (N.eqb c sep) eqn:E; simpl; [reflexivity |].
  destruct (split_on sep s) as [| h t] eqn:Es; simpl in *.
  - unfold memN. simpl. rewrite N.eqb_sym, E. reflexivity.
  - unfold memN in *. simpl. rewrite N.eqb_sym, E. simpl. exact IH.
Qed.

Lemma before_colon_idem x : before_colon (before_colon x) = before_colon x.
Proof.
  unfold before_colon at 1. rewrite split_on_no_sep; [reflexivity |]. apply hd_split_no_sep.
Qed.

Lemma before_colon_no_colon x : has_colon x = false -> before_colon x = x.
Proof. intros H. unfold before_colon. rewrite (split_on_no_sep _ _ H). reflexivity. Qed.

(** `g ++ ":" ++ l` with no colon in g, l splits into exactly [g; l]. *)
Lemma split_on_one_sep sep g l :
  memN sep g = false -> memN sep l = false -> split_on sep (g ++ sep :: l) = [g; l].
Proof.
  intros Hg Hl. induction g as [| c g IH]; simpl.
  - rewrite N.eqb_refl. rewrite (split_on_no_sep _ _ Hl). reflexivity.
  - unfold memN in Hg. simpl in Hg. apply Bool.orb_false_iff in Hg. destruct Hg as [Hc Hg].
    rewrite N.eqb_sym, Hc. rewrite (IH Hg). reflexivity.
Qed.

(** * filter_files / match_files *)

Lemma In_fnfilter f names pat : In f (fnfilter names pat) <-> In f names /\ fnmatch f pat = true.
Proof. unfold fnfilter. rewrite filter_In. reflexivity. Qed.

Lemma In_filter_files f names pats excl :
  In f (filter_files names pats excl) <->
  In f names /\ exists p, In p (file_patterns pats excl) /\ fnmatch f p = true.
Proof.
  unfold filter_files. rewrite in_concat. split.
  - intros [l [Hl Hf]]. apply in_map_iff in Hl. destruct Hl as [p [<- Hp]].
    apply In_fnfilter in Hf. destruct Hf as [Hn Hm]. split; [exact Hn |]. exists p. split; assumption.
  - intros [Hn [p [Hp Hm]]]. exists (fnfilter names p). split; [apply in_map; exact Hp | apply In_fnfilter; split; assumption].
Qed.

Lemma In_file_patterns_inc p pats : In p (file_patterns pats false) <-> exists q, In q pats /\ p = before_colon q.
Proof.
  simpl. rewrite in_map_iff. split.
  - intros [q [H1 H2]]. exists q. split; [exact H2 | symmetry; exact H1].
  - intros [q [H1 H2]]. exists q. split; [symmetry; exact H2 | exact H1].
Qed.

Lemma In_file_patterns_exc p pats : In p (file_patterns pats true) <-> In p pats /\ has_colon p = false.
Proof. simpl. rewrite filter_In, Bool.negb_true_iff. reflexivity. Qed.

Lemma In_match_files defs rels exc inc f :
  In f (match_files defs rels exc inc) <->
  In f rels /\ Selected (or_default inc (fst defs)) (or_default exc (snd defs)) f.
Proof.
  unfold match_files, Selected. rewrite In_sorted_set, filter_In, In_filter_files, Bool.negb_true_iff.
  split.
  - intros [[Hr [p [Hp Hm]]] Hne]. split; [exact Hr |]. split.
    + apply In_file_patterns_inc in Hp. destruct Hp as [q [Hq ->]]. exists q. split; [exact Hq |].
      apply fnmatch_GlobMatches. exact Hm.
    + intros [p' [Hp' [Hc Hm']]]. assert (Hin : mem_str f (filter_files rels (or_default exc (snd defs)) true) = true).
      { apply mem_str_In. apply In_filter_files. split; [exact Hr |]. exists p'. split.
        - apply In_file_patterns_exc. split; assumption.
        - apply fnmatch_GlobMatches. exact Hm'. }
      congruence.
  - intros [Hr [[q [Hq Hm]] Hne]]. split.
    + split; [exact Hr |]. exists (before_colon q). split.
      * apply In_file_patterns_inc. exists q. split; [exact Hq | reflexivity].
      * apply fnmatch_GlobMatches. exact Hm.
    + destruct (mem_str f (filter_files rels (or_default exc (snd defs)) true)) eqn:E; [| reflexivity].
      exfalso. apply Hne. apply mem_str_In in E. apply In_filter_files in E. destruct E as [_ [p' [Hp' Hm']]].
      apply In_file_patterns_exc in Hp'. destruct Hp' as [Hin Hc]. exists p'. split; [exact Hin |]. split; [exact Hc |].
      apply fnmatch_GlobMatches. exact Hm'.
Qed.

Lemma selectedb_Selected inc exc f : selectedb inc exc f = true <-> Selected inc exc f.
Proof.
  unfold selectedb, Selected. rewrite Bool.andb_true_iff, Bool.negb_true_iff, existsb_exists. split.
  - intros [[p [Hp Hm]] Hne]. split.
    + exists p. split; [exact Hp | apply fnmatch_GlobMatches; exact Hm].
    + intros [q [Hq [Hc Hmq]]]. assert (E : existsb (fun p0 => negb (has_colon p0) && fnmatch f p0) exc = true).
      { apply existsb_exists. exists q. split; [exact Hq |]. rewrite Hc. simpl. apply fnmatch_GlobMatches. exact Hmq. }
      congruence.
  - intros [[p [Hp Hm]] Hne]. split.
    + exists p. split; [exact Hp | apply fnmatch_GlobMatches; exact Hm].
    + destruct (existsb (fun p0 => negb (has_colon p0) && fnmatch f p0) exc) eqn:E; [| reflexivity].
      exfalso. apply Hne. apply existsb_exists in E. destruct E as [q [Hq Hb]].
      apply Bool.andb_true_iff in Hb. destruct Hb as [Hc Hmq]. apply Bool.negb_true_iff in Hc.
      exists q. split; [exact Hq |]. split; [exact Hc | apply fnmatch_GlobMatches; exact Hmq].
Qed.

Lemma match_files_Sorted defs rels exc inc : StronglySorted str_lt (match_files defs rels exc inc).
Proof. apply sorted_set_Sorted. Qed.

(** Only the set of selected files matters: any two calls selecting the same files return the same list. *)
Lemma match_files_ext defs defs' rels rels' exc exc' inc inc' :
  (forall f, In f (match_files defs rels exc inc) <-> In f (match_files defs' rels' exc' inc')) ->
  match_files defs rels exc inc = match_files defs' rels' exc' inc'.
Proof. intros H. apply StronglySorted_unique; [apply match_files_Sorted | apply match_files_Sorted | exact H]. Qed.

Lemma filter_idem {A} (f : A -> bool) l : List.filter f (List.filter f l) = List.filter f l.
Proof.
  induction l as [| x l IH]; simpl; [reflexivity |]. destruct (f x) eqn:E; simpl; [rewrite E, IH; reflexivity | exact IH].
Qed.

Lemma file_patterns_exc_idem exc : file_patterns (List.filter (fun x => negb (has_colon x)) exc) true = file_patterns exc true.
Proof. simpl. apply filter_idem. Qed.

Lemma file_patterns_inc_idem inc : file_patterns (map before_colon inc) false = file_patterns inc false.
Proof. simpl. rewrite map_map. apply map_ext. intros x. apply before_colon_idem. Qed.

Lemma filter_all_false {A} (f : A -> bool) l : (forall x, In x l -> f x = false) -> List.filter f l = [].
Proof.
  induction l as [| x l IH]; intros H; simpl; [reflexivity |].
  rewrite (H x (or_introl eq_refl)). apply IH. intros y Hy. apply H. right. exact Hy.
Qed.

(** * The tree *)
Lemma In_files_for_directory t f : In f (files_for_directory t) <-> In (f, NFile) t.
Proof.
  unfold files_for_directory. rewrite in_map_iff. split.
  - intros [[g n] [<- Hin]]. apply filter_In in Hin. destruct Hin as [Hin Hreg]. simpl in *. destruct n; try discriminate. exact Hin.
  - intros Hin. exists (f, NFile). split; [reflexivity |]. apply filter_In. split; [exact Hin | reflexivity].
Qed.

(** * context.py, get_files_to_analyze *)

Lemma or_none_default l d : l <> [] -> or_default (or_none l) d = l.
Proof. destruct l; [congruence | reflexivity]. Qed.

Lemma In_find_and_fix_paths v defs rels exc inc f :
  In f (find_and_fix_paths v defs rels exc inc) <->
  In f rels /\ Selected (or_default (or_none inc) (fst defs)) (or_default (exclude_sentinel v exc) (snd defs)) f.
Proof. unfold find_and_fix_paths. apply In_match_files. Qed.

Lemma In_ff_files_to_analyze v defs exts rels exc inc f :
  In f (ff_files_to_analyze v defs exts rels exc inc) <->
  In f (find_and_fix_paths v defs rels exc inc) /\ (exts <> [] -> mem_str (suffix_of f) exts = true).
Proof.
  unfold ff_files_to_analyze. destruct exts as [| e exts].
  - split; [intros H; split; [exact H | congruence] | intros [H _]; exact H].
  - rewrite filter_In. split; intros [H1 H2]; (split; [exact H1 |]); [intros _; exact H2 | apply H2; discriminate].
Qed.

(** Selected looks at the file-level exclude patterns only *)
Lemma Selected_file_level inc exc f : Selected inc (file_level exc) f <-> Selected inc exc f.
Proof.
  unfold Selected, file_level. split; intros [Hi Hn]; (split; [exact Hi |]); intros [p [Hp [Hc Hm]]]; apply Hn; exists p.
  - split; [apply filter_In; split; [exact Hp | rewrite Hc; reflexivity] | split; assumption].
  - apply filter_In in Hp. split; [apply Hp | split; assumption].
Qed.

(** manifests *)
Lemma In_manifest_candidates_named lf ef defs t exc m :
  In m (manifest_candidates lf ef defs t exc) ->
  exists n, In (m, n) t /\ manifest_kind_ok lf n = true /\ mem_str (path_name m) manifest_names = true.
Proof.
  unfold manifest_candidates. intros H.
  assert (Hn : In m (map fst (List.filter (fun e => mem_str (path_name (fst e)) manifest_names && manifest_kind_ok lf (snd e)) t))).
  { destruct ef; [exact H | apply filter_In in H; apply H]. }
  apply in_map_iff in Hn. destruct Hn as [[m' n] [<- Hin]]. apply filter_In in Hin. destruct Hin as [Hin Hb].
  apply Bool.andb_true_iff in Hb. exists n. simpl in *. split; [exact Hin | split; apply Hb].
Qed.

Lemma manifest_not_excluded_spec defs exc m : manifest_not_excluded defs exc m = true ->
  ~ (exists p, In p (or_default (or_none (file_level exc)) (snd defs)) /\ has_colon p = false /\ GlobMatches p m).
Proof.
  unfold manifest_not_excluded. intros H.
  destruct (match_files defs [m] (exclude_sentinel FileLevelOrNone exc) (Some [[42%N]])) as [| x l] eqn:E; [discriminate |].
  assert (Hin : In x (match_files defs [m] (exclude_sentinel FileLevelOrNone exc) (Some [[42%N]]))) by (rewrite E; left; reflexivity).
  apply In_match_files in Hin. destruct Hin as [[<- | []] [_ Hn]]. exact Hn.
Qed.

Lemma In_sast_files_to_analyze defs regdef exts has_result rels exc inc f :
  In f (sast_files_to_analyze defs regdef exts has_result rels exc inc) <->
  (In f rels /\ mem_str (suffix_of f) exts = true /\ has_result f = true) /\
  Selected (included_paths inc regdef) exc f.
Proof.
  unfold sast_files_to_analyze, filter_paths. rewrite In_match_files. simpl.
  rewrite filter_In, Bool.andb_true_iff. tauto.
Qed.

(** The second default include pattern `**/*.py` selects nothing the first `**.py` does not. *)
Lemma Matches_star_slash_star_suffix l s :
  Matches (IStar :: ILit 47 :: IStar :: map ILit l) s -> exists r, s = r ++ l.
Proof.
  intros H. apply Matches_star_inv in H. destruct H as [s1 [s2 [-> Hm]]].
  inversion Hm as [| i p c s' Hok Hm' |]; subst.
  apply Matches_suffix in Hm'. destruct Hm' as [r ->]. exists (s1 ++ c :: r).
  rewrite <- app_assoc. reflexivity.
Qed.
