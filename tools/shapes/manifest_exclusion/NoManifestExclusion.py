# src/codemodder/context.py (pinned): the package stores process_dependencies iterates over
class CodemodExecutionContext:
    def process_dependencies(self, codemod_id):
        if not (store_list := self.repo_manager.package_stores):
            return record
