(** Boolean checkers for the correspondence of C16 (harness/c16.py).  *_model_ok: model output = observed
    implementation output; *_spec_ok: observed implementation output = the documented edit (Spec/ArgsSpec.v). *)
From CM Require Import Harness.RunBase Model.Args Spec.ArgsSpec Generated.Tables.

Definition arg_eqb_with (ee : expr -> expr -> bool) (p q : arg) : bool :=
  option_eqb str_eqb (kw p) (kw q) && N.eqb (star p) (star q) && N.eqb (sp p) (sp q) && N.eqb (lay p) (lay q)
  && ee (value p) (value q).
Fixpoint expr_eqb (a b : expr) : bool :=
  match a, b with
  | EName x, EName y => str_eqb x y
  | EAttr v x, EAttr w y => expr_eqb v w && str_eqb x y
  | EConst x, EConst y => str_eqb x y
  | ECall m f xs, ECall n g ys =>
      Bool.eqb m n && expr_eqb f g &&
      (fix go (l1 l2 : list arg) : bool :=
         match l1, l2 with
         | [], [] => true
         | p :: r1, q :: r2 =>
             option_eqb str_eqb (kw p) (kw q) && N.eqb (star p) (star q) && N.eqb (sp p) (sp q)
             && N.eqb (lay p) (lay q) && expr_eqb (value p) (value q) && go r1 r2
         | _, _ => false
         end) xs ys
  | _, _ => false
  end.
Definition args_eqb : list arg -> list arg -> bool := list_eqb (arg_eqb_with expr_eqb).

(** forget the detector's marks, keep the layout tags *)
Fixpoint unmark (e : expr) : expr :=
  match e with
  | ECall _ f args => ECall false (unmark f) (map (fun a => set_value a (unmark (value a))) args)
  | EAttr v a => EAttr (unmark v) a
  | _ => e
  end.
Definition erase_args (l : list arg) : list arg := map (fun a => mkArg (kw a) (star a) 0 0 (erase (value a))) l.

(** (1a) replace_args called directly: (original args, NewArg list, observed result, NewArg list left behind) *)
Definition ra_case := (list arg * list newarg * list arg * list newarg)%type.
Definition newarg_eqb (a b : newarg) : bool :=
  str_eqb (na_name a) (na_name b) && expr_eqb (na_value a) (na_value b) && Bool.eqb (na_add a) (na_add b).
Definition ra_model_ok (c : ra_case) : bool :=
  let '(args, info, obs, lft) := c in
  args_eqb (replace_args args info) obs && list_eqb newarg_eqb (snd (replace_loop args info)) lft.
(** the frame and the token delta, checked on what the implementation returned *)
Definition ra_spec_ok (c : ra_case) : bool :=
  let '(args, info, obs, _) := c in
  (if nodupb (names info) then args_eqb (spec_replace args info) obs else true)
  && sub_multiset (toks_args obs) (toks_args args ++ delta_info info)
  && sub_multiset (toks_args args) (toks_args obs ++ listed_values args info).

(** (1b)/(2) a transformer run over an expression: (kind, input with marks, observed output) *)
Definition tree_case := (hkind * expr * expr)%type.
Definition tree_model_ok (c : tree_case) : bool :=
  let '(k, e, obs) := c in expr_eqb (unmark (rw k e)) obs.
Definition tree_spec_ok (c : tree_case) : bool :=
  let '(k, e, obs) := c in expr_eqb (erase (rw_spec k e)) (erase obs).
Fixpoint repeat_toks (n : nat) (d : list tok) : list tok := match n with O => [] | S m => d ++ repeat_toks m d end.
Definition tree_delta_ok (c : tree_case) : bool :=
  let '(k, e, obs) := c in
  if arg_kind k then sub_multiset (toks obs) (toks e ++ repeat_toks (nmarked e) (delta_kind k)) else true.
(** same, for outputs observed through Python's `ast` (no layout, no marks) *)
Definition ast_model_ok (c : tree_case) : bool :=
  let '(k, e, obs) := c in expr_eqb (erase (rw k e)) obs.
Definition input_nonnested (c : tree_case) : bool := let '(_, e, _) := c in nonnested e.

(** the NewArg table of this run against the values the harness parsed with libcst: (codemod, entries) *)
Definition table_case := (str * list newarg)%type.
Definition table_ok (c : table_case) : bool :=
  let '(name, info) := c in
  match find (fun row => str_eqb (fst row) name) newargs_expr with
  | Some row => list_eqb newarg_eqb (snd row) info
  | None => false
  end.

(** jwt-decode-verify's options dict (Model/JwtOpts.v) *)
From CM Require Import Model.JwtOpts Spec.JwtOptsSpec.
Definition delem_eqb (a b : delem) : bool :=
  match a, b with
  | DKey s k l v, DKey s' k' l' v' => Bool.eqb s s' && str_eqb k k' && N.eqb l l' && expr_eqb v v'
  | DSpread l e, DSpread l' e' => N.eqb l l' && expr_eqb e e'
  | _, _ => false
  end.
Definition erase_delem (d : delem) : delem :=
  match d with DKey s k _ v => DKey s k 0 (erase v) | DSpread _ e => DSpread 0 (erase e) end.
(** (dict entries, observed entries or None when the implementation raised / left the file untouched) *)
Definition jwt_case := (list delem * option (list delem))%type.
Definition jwt_model_ok (c : jwt_case) : bool :=
  let '(els, obs) := c in option_eqb (list_eqb delem_eqb) (replace_opts_dict els) obs.
Definition jwt_ast_model_ok (c : jwt_case) : bool :=
  let '(els, obs) := c in
  option_eqb (list_eqb delem_eqb) (option_map (map erase_delem) (replace_opts_dict els)) (option_map (map erase_delem) obs).
(** raising (file untouched) is not a violation; a rewrite must be the documented edit, spreads included *)
Definition jwt_spec_ok (c : jwt_case) : bool :=
  let '(els, obs) := c in
  match obs with
  | None => true
  | Some r => list_eqb delem_eqb (map erase_delem r) (map erase_delem (spec_opts els))
  end.
Definition jwt_arg_eqb (a b : jwt_arg) : bool :=
  match a, b with
  | JOther x, JOther y => arg_eqb_with expr_eqb x y
  | JOptions s l els, JOptions s' l' els' => N.eqb s s' && N.eqb l l' && list_eqb delem_eqb els els'
  | _, _ => false
  end.
Definition jarg_case := (list jwt_arg * option (list jwt_arg))%type.
Definition jarg_model_ok (c : jarg_case) : bool :=
  let '(args, obs) := c in option_eqb (list_eqb jwt_arg_eqb) (replace_options_arg args) obs.

(** Classification by observation (known-finding classes must predict the observed failure, not the input's shape):
    the observed output is exactly what the code-as-written model computes ... *)
Definition as_written_ok (c : tree_case) : bool :=
  let '(k, e, obs) := c in expr_eqb (erase (rw k e)) (erase obs).
(** ... and it is the nested-selected-call deviation: the input has a selected call below a selected call, the output
    differs from the rebuild-from-updated_node reading, and only at or below a selected call *)
Definition nested_class_ok (c : tree_case) : bool :=
  let '(k, e, obs) := c in
  expr_eqb (erase (rw k e)) (erase obs) && negb (nonnested e)
  && negb (expr_eqb (erase obs) (erase (rw_upd k e)))
  && differs_only_below expr_eqb e (erase obs) (erase (rw_upd k e)).

(** transformer runs whose outcome may be "raised: file reported as failed and left untouched" (observed = None) *)
Definition otree_case := (hkind * expr * option expr)%type.
Definition otree_model_ok (c : otree_case) : bool :=
  let '(k, e, obs) := c in
  match obs with
  | None => raises k e
  | Some o => negb (raises k e) && expr_eqb (erase (rw k e)) (erase o)
  end.
(** an untouched file is allowed; a rewritten one must be the documented edit of every selected call and nothing else *)
Definition otree_spec_ok (c : otree_case) : bool :=
  let '(k, e, obs) := c in
  match obs with
  | None => true
  | Some o => expr_eqb (erase (rw_spec k e)) (erase o)
  end.
