(** Lemmas about the manifest model (C14). *)
From CM Require Import Model.Manifest Spec.ManifestSpec.
From Coq Require Import Lia.

(* ------------------------------------------------------------------------------------------------ *)
(** * Lines *)

Lemma concat_readlines_lf s : concat (readlines_lf s) = s.
Proof.
  induction s as [|c r IH]; [reflexivity|]. cbn [readlines_lf].
  destruct (N.eqb_spec c LF) as [->|Hne].
  - cbn. now rewrite IH.
  - destruct (readlines_lf r) as [|l ls] eqn:E; cbn in *; now rewrite <- IH.
Qed.

Lemma readlines_lf_cons c r :
  readlines_lf (c :: r) = if N.eqb c LF then [LF] :: readlines_lf r
                          else match readlines_lf r with [] => [[c]] | l :: ls => (c :: l) :: ls end.
Proof. reflexivity. Qed.

Lemma readlines_lf_nil s : readlines_lf s = [] -> s = [].
Proof. intros H. rewrite <- (concat_readlines_lf s), H. reflexivity. Qed.

Lemma readlines_lf_nonempty s : Forall (fun l => l <> []) (readlines_lf s).
Proof.
  induction s as [|c r IH]; [constructor|]. cbn [readlines_lf].
  destruct (N.eqb c LF).
  - constructor; [discriminate|exact IH].
  - destruct (readlines_lf r) as [|l ls]; constructor; try discriminate; try constructor.
    now inversion IH.
Qed.

Lemma ends_lf_cons c l : l <> [] -> ends_lf (c :: l) = ends_lf l.
Proof. destruct l; [congruence|reflexivity]. Qed.

Lemma ends_lf_app a b : b <> [] -> ends_lf (a ++ b) = ends_lf b.
Proof.
  intros Hb. induction a as [|c a IH]; [reflexivity|].
  cbn [app]. rewrite ends_lf_cons; [exact IH|]. destruct a; cbn; [exact Hb|discriminate].
Qed.

Lemma ends_lf_snoc a : ends_lf (a ++ [LF]) = true.
Proof. rewrite ends_lf_app by discriminate. reflexivity. Qed.

Lemma fix_last_spec ls : ls <> [] ->
  fix_last ls = Some (removelast ls ++ [let l := last ls [] in if ends_lf l then l else l ++ [LF]]).
Proof.
  induction ls as [|l r IH]; [congruence|]. intros _.
  destruct r as [|l' r']; [reflexivity|].
  change (fix_last (l :: l' :: r')) with (match fix_last (l' :: r') with Some r0 => Some (l :: r0) | None => None end).
  rewrite IH by discriminate. reflexivity.
Qed.

Lemma fix_last_length ls ls' : fix_last ls = Some ls' -> length ls' = length ls.
Proof.
  revert ls'. induction ls as [|l r IH]; intros ls' H; [discriminate|].
  destruct r as [|l' r'].
  - cbn in H. inversion H. reflexivity.
  - change (fix_last (l :: l' :: r')) with (match fix_last (l' :: r') with Some r0 => Some (l :: r0) | None => None end) in H.
    destruct (fix_last (l' :: r')) as [r0|] eqn:E; [|discriminate]. inversion H. cbn [length]. f_equal. now apply IH.
Qed.

Lemma concat_removelast_last (ls : list str) : ls <> [] -> concat ls = concat (removelast ls) ++ last ls [].
Proof.
  intros H. rewrite (app_removelast_last [] H) at 1. rewrite concat_app. cbn. now rewrite app_nil_r.
Qed.

Lemma last_Forall {A} (P : A -> Prop) (l : list A) d : l <> [] -> Forall P l -> P (last l d).
Proof.
  induction l as [|x r IH]; [congruence|]. intros _ HF. inversion HF; subst.
  destruct r; [assumption|]. apply IH; [discriminate|assumption].
Qed.

Lemma ensure_final_lf_ne s : s <> [] -> ensure_final_lf s = if ends_lf s then s else s ++ [LF].
Proof. destruct s; [congruence|reflexivity]. Qed.

(** The lines written back are the old text with a final newline supplied when it was missing. *)
Lemma fix_last_readlines_lf s : s <> [] ->
  exists ls', fix_last (readlines_lf s) = Some ls' /\ concat ls' = ensure_final_lf s.
Proof.
  intros Hs.
  assert (Hne : readlines_lf s <> []) by (intros H; apply Hs, readlines_lf_nil, H).
  eexists. split; [apply fix_last_spec, Hne|].
  rewrite concat_app. cbn [concat]. rewrite app_nil_r.
  pose proof (concat_removelast_last _ Hne) as Hc. rewrite concat_readlines_lf in Hc.
  assert (Hl : last (readlines_lf s) [] <> []) by (apply last_Forall; [exact Hne|apply readlines_lf_nonempty]).
  rewrite ensure_final_lf_ne by exact Hs.
  replace (ends_lf s) with (ends_lf (last (readlines_lf s) []))
    by (rewrite Hc at 2; symmetry; apply ends_lf_app, Hl).
  destruct (ends_lf (last (readlines_lf s) [])).
  - now rewrite <- Hc.
  - rewrite Hc at 3. now rewrite app_assoc.
Qed.

Lemma univ_nl_no_cr s : ~ In CR (univ_nl s).
Proof.
  assert (H : forall n s, (length s <= n)%nat -> ~ In CR (univ_nl s)).
  { induction n as [|n IH]; intros [|c r] Hlen; cbn [univ_nl]; try (intros []); try (cbn in Hlen; lia).
    cbn [length] in Hlen.
    destruct (N.eqb_spec c CR) as [->|Hne].
    - destruct r as [|c' r'].
      + cbn. intros [H|[]]. discriminate.
      + destruct (N.eqb c' LF); cbn [In]; intros [H|H]; try discriminate.
        * revert H. apply IH. cbn [length] in Hlen. lia.
        * revert H. apply IH. lia.
    - cbn [In]. intros [H|H]; [congruence|]. revert H. apply IH. lia. }
  exact (H (length s) s (le_n _)).
Qed.

Lemma univ_nl_id s : no_cr s = true -> univ_nl s = s.
Proof.
  unfold no_cr. induction s as [|c r IH]; [reflexivity|]. cbn [existsb univ_nl].
  intros H. apply negb_true_iff, orb_false_iff in H. destruct H as [Hc Hr].
  rewrite N.eqb_sym in Hc. rewrite Hc. f_equal. apply IH. now rewrite Hr.
Qed.

Lemma univ_nl_nil s : univ_nl s = [] -> s = [].
Proof.
  destruct s as [|c r]; [reflexivity|]. cbn [univ_nl].
  destruct (N.eqb c CR); [|discriminate]. destruct r as [|c' r']; [discriminate|].
  destruct (N.eqb c' LF); discriminate.
Qed.

(* ------------------------------------------------------------------------------------------------ *)
(** * Names *)

Lemma has_requirement_true v declared n :
  has_requirement v declared n = true <-> exists m, In m declared /\ name_key v m = name_key v n.
Proof.
  unfold has_requirement. rewrite mem_str_In, in_map_iff. split.
  - intros [m [H1 H2]]. now exists m.
  - intros [m [H1 H2]]. exists m. now split.
Qed.

Lemma has_requirement_app v a b n :
  has_requirement v (a ++ b) n = has_requirement v a n || has_requirement v b n.
Proof. unfold has_requirement, mem_str. now rewrite map_app, existsb_app. Qed.

Lemma has_requirement_single v m n :
  has_requirement v [m] n = str_eqb (name_key v n) (name_key v m).
Proof. unfold has_requirement, mem_str. cbn. now rewrite orb_false_r. Qed.

Lemma add_deps_sub v deps : forall declared d, In d (add_deps v deps declared) -> In d deps.
Proof.
  induction deps as [|e r IH]; intros declared d H; [exact H|]. cbn [add_deps] in H.
  destruct (has_requirement v declared (dname e)).
  - right. eapply IH, H.
  - destruct H as [->|H]; [now left|right; eapply IH, H].
Qed.

Lemma add_deps_undeclared v deps : forall declared d,
  In d (add_deps v deps declared) -> has_requirement v declared (dname d) = false.
Proof.
  induction deps as [|e r IH]; intros declared d H; [destruct H|]. cbn [add_deps] in H.
  destruct (has_requirement v declared (dname e)) eqn:E.
  - eapply IH, H.
  - destruct H as [->|H]; [exact E|].
    apply IH in H. rewrite has_requirement_app in H. now apply orb_false_iff in H.
Qed.

Lemma count_name_cons v n e l :
  count_name v n (e :: l) = ((if str_eqb (name_key v (dname e)) (name_key v n) then 1 else 0) + count_name v n l)%nat.
Proof. unfold count_name. cbn [List.filter]. destruct (str_eqb _ _); reflexivity. Qed.

(** A name already declared is never added. *)
Lemma add_deps_count_declared v deps : forall declared n,
  has_requirement v declared n = true -> count_name v n (add_deps v deps declared) = 0%nat.
Proof.
  induction deps as [|e r IH]; intros declared n H; [reflexivity|]. cbn [add_deps].
  destruct (has_requirement v declared (dname e)) eqn:E.
  - now apply IH.
  - rewrite count_name_cons.
    destruct (str_eqb_spec (name_key v (dname e)) (name_key v n)) as [Heq|Hne].
    + exfalso. apply has_requirement_true in H. destruct H as [m [Hm Hk]].
      assert (has_requirement v declared (dname e) = true) by (apply has_requirement_true; exists m; split; congruence).
      congruence.
    + cbn. apply IH. rewrite has_requirement_app, H. reflexivity.
Qed.

(** Every requested name that is not declared is added exactly once; a declared one never. *)
Lemma add_deps_count v deps : forall declared d, In d deps ->
  count_name v (dname d) (add_deps v deps declared) = if has_requirement v declared (dname d) then 0%nat else 1%nat.
Proof.
  induction deps as [|e r IH]; intros declared d Hin; [destruct Hin|]. cbn [add_deps].
  destruct (has_requirement v declared (dname d)) eqn:Ed.
  - change (match has_requirement v declared (dname e) with true => _ | false => _ end)
      with (add_deps v (e :: r) declared). now apply add_deps_count_declared.
  - destruct (has_requirement v declared (dname e)) eqn:Ee.
    + destruct Hin as [->|Hin]; [congruence|]. rewrite (IH declared d Hin), Ed. reflexivity.
    + rewrite count_name_cons.
      destruct (str_eqb_spec (name_key v (dname e)) (name_key v (dname d))) as [Heq|Hne].
      * rewrite add_deps_count_declared; [reflexivity|].
        rewrite has_requirement_app, has_requirement_single, Heq, str_eqb_refl. apply orb_true_r.
      * destruct Hin as [->|Hin]; [congruence|]. cbn. rewrite (IH _ d Hin).
        rewrite has_requirement_app, Ed, has_requirement_single.
        destruct (str_eqb_spec (name_key v (dname d)) (name_key v (dname e))); [congruence|reflexivity].
Qed.

Lemma add_deps_all_declared v deps declared :
  (forall d, In d deps -> has_requirement v declared (dname d) = true) -> add_deps v deps declared = [].
Proof.
  induction deps as [|e r IH]; intros H; [reflexivity|]. cbn [add_deps].
  rewrite (H e (or_introl eq_refl)). apply IH. intros d Hd. apply H. now right.
Qed.

Lemma count_name_pos v n l : (0 < count_name v n l)%nat -> exists e, In e l /\ name_key v (dname e) = name_key v n.
Proof.
  induction l as [|e r IH]; [cbn; lia|]. rewrite count_name_cons.
  destruct (str_eqb_spec (name_key v (dname e)) (name_key v n)) as [Heq|Hne].
  - intros _. exists e. split; [now left|exact Heq].
  - cbn. intros H. destruct (IH H) as [e' [H1 H2]]. exists e'. split; [now right|exact H2].
Qed.

(** A second run that sees the old names and the names just added adds nothing. *)
Lemma add_deps_idempotent v deps declared declared' :
  (forall n, In n declared \/ In n (map dname (add_deps v deps declared)) -> In n declared') ->
  add_deps v deps declared' = [].
Proof.
  intros Hsub. apply add_deps_all_declared. intros d Hd.
  apply has_requirement_true.
  pose proof (add_deps_count v deps declared d Hd) as Hc.
  destruct (has_requirement v declared (dname d)) eqn:E.
  - apply has_requirement_true in E. destruct E as [m [Hm Hk]]. exists m. split; [apply Hsub; now left|exact Hk].
  - assert (Hpos : (0 < count_name v (dname d) (add_deps v deps declared))%nat) by lia.
    apply count_name_pos in Hpos. destruct Hpos as [e [He Hk]].
    exists (dname e). split; [|exact Hk]. apply Hsub. right. now apply in_map.
Qed.

(** With canonical comparison [add] computes the reference selection. *)
Lemma add_deps_canonical_spec deps : forall declared seen,
  (forall k, mem_str k seen = mem_str k (map canon declared)) ->
  add_deps Canonical deps declared = needed_spec seen deps.
Proof.
  induction deps as [|e r IH]; intros declared seen H; [reflexivity|]. cbn [add_deps needed_spec].
  unfold has_requirement. cbn [name_key]. rewrite <- H.
  destruct (mem_str (canon (dname e)) seen) eqn:E.
  - now apply IH.
  - f_equal. apply IH. intros k. rewrite map_app. unfold mem_str in *. rewrite existsb_app. cbn.
    rewrite <- H. rewrite orb_false_r. apply orb_comm.
Qed.

(* ------------------------------------------------------------------------------------------------ *)
(** * setup.cfg *)

Lemma index_of_first x : forall (l : list str) k,
  (k < length l)%nat -> nth k l [] = x -> (forall j, (j < k)%nat -> nth j l [] <> x) -> index_of x l = Some k.
Proof.
  induction l as [|y r IH]; intros k Hk Hn Hfirst; [cbn in Hk; lia|]. cbn [index_of].
  destruct k as [|k].
  - cbn in Hn. subst. now rewrite str_eqb_refl.
  - destruct (str_eqb_spec y x) as [->|Hne].
    + exfalso. apply (Hfirst 0%nat); [lia|reflexivity].
    + rewrite (IH k); [reflexivity| cbn in Hk; lia | exact Hn |].
      intros j Hj. apply (Hfirst (S j)). lia.
Qed.

Lemma unique_stripped_spec orig k : (k < length orig)%nat -> unique_stripped orig k = true ->
  forall j, (j < k)%nat -> nth j (map strip orig) [] <> strip (nth k orig []).
Proof.
  unfold unique_stripped. intros Hk H j Hj. rewrite forallb_forall in H.
  assert (Hin : In (nth j orig []) (firstn k orig)).
  { rewrite <- (firstn_skipn k orig) at 1. rewrite app_nth1.
    - apply nth_In. rewrite firstn_length. lia.
    - rewrite firstn_length. lia. }
  specialize (H _ Hin). apply negb_true_iff, str_eqb_neq in H.
  change [] with (strip []) at 1. rewrite map_nth. exact H.
Qed.

(* ------------------------------------------------------------------------------------------------ *)
(** * The loop of process_dependencies *)

Lemma pd_loop_first_wins : forall outs i, (length (pd_loop FirstWinsBreak i outs) <= 1)%nat.
Proof. induction outs as [|[|] r IH]; intros i; cbn; auto. Qed.

Lemma pd_loop_none form : forall outs i, pd_loop form i outs = [] <-> (forall b, In b outs -> b = false).
Proof.
  induction outs as [|[|] r IH]; intros i; cbn [pd_loop].
  - split; [intros _ b []|reflexivity].
  - split; [discriminate|]. intros H. specialize (H true (or_introl eq_refl)). discriminate.
  - rewrite IH. split.
    + intros H b [<-|Hb]; [reflexivity|now apply H].
    + intros H b Hb. apply H. now right.
Qed.

Lemma pd_loop_first : forall outs i s, pd_loop FirstWinsBreak i outs = [s] ->
  (i <= s)%nat /\ nth (s - i) outs false = true /\ forall j, (j < s - i)%nat -> nth j outs false = false.
Proof.
  induction outs as [|[|] r IH]; intros i s H; cbn [pd_loop] in H; try discriminate.
  - inversion H; subst. replace (s - s)%nat with 0%nat by lia. repeat split; [lia|]. intros j Hj. lia.
  - apply IH in H. destruct H as [H1 [H2 H3]].
    replace (s - i)%nat with (S (s - S i)) by lia. repeat split; [lia|exact H2|].
    intros [|j] Hj; [reflexivity|]. cbn. apply H3. lia.
Qed.

(* ------------------------------------------------------------------------------------------------ *)
(** * requirements.txt writer *)

Lemma ends_lf_ensure s : s <> [] -> ends_lf (ensure_final_lf s) = true.
Proof.
  intros Hs. rewrite ensure_final_lf_ne by exact Hs.
  destruct (ends_lf s) eqn:E; [exact E|apply ends_lf_snoc].
Qed.

Lemma ensure_final_lf_cons c r : r <> [] -> ensure_final_lf (c :: r) = c :: ensure_final_lf r.
Proof.
  intros Hr. rewrite (ensure_final_lf_ne r Hr). unfold ensure_final_lf.
  rewrite ends_lf_cons by exact Hr. destruct (ends_lf r); reflexivity.
Qed.

Lemma readlines_lf_cons_ne r : r <> [] -> exists l ls, readlines_lf r = l :: ls /\ l <> [].
Proof.
  intros Hr. destruct (readlines_lf r) as [|l ls] eqn:E.
  - apply readlines_lf_nil in E. congruence.
  - exists l, ls. split; [reflexivity|]. pose proof (readlines_lf_nonempty r) as HF. rewrite E in HF. now inversion HF.
Qed.

(** The lines after the `original_lines[-1] += "\n"` repair are the lines of the text with a final newline. *)
Lemma fix_last_readlines_lf_lines s : s <> [] -> fix_last (readlines_lf s) = Some (readlines_lf (ensure_final_lf s)).
Proof.
  induction s as [|c r IH]; [congruence|]. intros _.
  destruct r as [|c' r'].
  - cbn [readlines_lf]. destruct (N.eqb_spec c LF) as [->|Hne]; [reflexivity|].
    apply N.eqb_neq in Hne. cbn [ensure_final_lf ends_lf fix_last]. rewrite Hne.
    cbn [app readlines_lf]. rewrite Hne. reflexivity.
  - assert (Hr : c' :: r' <> []) by discriminate. specialize (IH Hr).
    rewrite ensure_final_lf_cons by exact Hr.
    destruct (readlines_lf_cons_ne _ Hr) as [l [ls [El Hl]]].
    assert (Hr2 : ensure_final_lf (c' :: r') <> []).
    { rewrite ensure_final_lf_ne by exact Hr. destruct (ends_lf (c' :: r')); [discriminate|]. cbn. discriminate. }
    destruct (readlines_lf_cons_ne _ Hr2) as [l2 [ls2 [El2 Hl2]]].
    rewrite (readlines_lf_cons c (c' :: r')), (readlines_lf_cons c (ensure_final_lf (c' :: r'))).
    rewrite El, El2 in *.
    destruct (N.eqb c LF).
    + change (fix_last ([LF] :: l :: ls)) with (match fix_last (l :: ls) with Some r0 => Some ([LF] :: r0) | None => None end).
      now rewrite IH.
    + destruct ls as [|l' ls'].
      * cbn in IH. inversion IH; subst. cbn [fix_last]. rewrite ends_lf_cons by exact Hl.
        destruct (ends_lf l); reflexivity.
      * change (fix_last (l :: l' :: ls')) with (match fix_last (l' :: ls') with Some r0 => Some (l :: r0) | None => None end) in IH.
        change (fix_last ((c :: l) :: l' :: ls')) with (match fix_last (l' :: ls') with Some r0 => Some ((c :: l) :: r0) | None => None end).
        destruct (fix_last (l' :: ls')) as [r0|]; [|discriminate]. inversion IH; subst. reflexivity.
Qed.

Lemma readlines_lf_app a b : ends_lf a = true -> readlines_lf (a ++ b) = readlines_lf a ++ readlines_lf b.
Proof.
  induction a as [|c a IH]; [discriminate|]. intros He.
  destruct a as [|c' a'].
  - cbn in He. apply N.eqb_eq in He. subst. reflexivity.
  - assert (Ha : c' :: a' <> []) by discriminate.
    rewrite ends_lf_cons in He by exact Ha. specialize (IH He).
    change ((c :: c' :: a') ++ b) with (c :: ((c' :: a') ++ b)).
    rewrite (readlines_lf_cons c ((c' :: a') ++ b)), (readlines_lf_cons c (c' :: a')), IH.
    destruct (readlines_lf_cons_ne _ Ha) as [l [ls [El _]]]. rewrite El.
    destruct (N.eqb c LF); reflexivity.
Qed.

Lemma readlines_lf_line b s : ~ In LF b -> readlines_lf (b ++ LF :: s) = (b ++ [LF]) :: readlines_lf s.
Proof.
  induction b as [|c b IH]; intros Hb.
  - reflexivity.
  - cbn [app readlines_lf]. destruct (N.eqb_spec c LF) as [->|Hne]; [exfalso; apply Hb; now left|].
    rewrite IH; [reflexivity|]. intros H. apply Hb. now right.
Qed.

Lemma no_nl_no_lf s : no_nl s = true -> ~ In LF s.
Proof.
  unfold no_nl. intros H Hin. apply negb_true_iff in H.
  assert (existsb (fun c => N.eqb c CR || N.eqb c LF) s = true); [|congruence].
  apply existsb_exists. exists LF. split; [exact Hin|reflexivity].
Qed.

Lemma no_nl_no_cr s : no_nl s = true -> ~ In CR s.
Proof.
  unfold no_nl. intros H Hin. apply negb_true_iff in H.
  assert (existsb (fun c => N.eqb c CR || N.eqb c LF) s = true); [|congruence].
  apply existsb_exists. exists CR. split; [exact Hin|reflexivity].
Qed.

Lemma no_cr_iff s : no_cr s = true <-> ~ In CR s.
Proof.
  unfold no_cr. rewrite negb_true_iff. split.
  - intros H Hin. assert (existsb (N.eqb CR) s = true); [|congruence].
    apply existsb_exists. exists CR. split; [exact Hin|reflexivity].
  - intros H. destruct (existsb (N.eqb CR) s) eqn:E; [|reflexivity].
    apply existsb_exists in E. destruct E as [x [Hx Hc]]. apply N.eqb_eq in Hc. subst. contradiction.
Qed.

Lemma readlines_lf_req_lines deps : forallb (fun d => no_nl (dline d)) deps = true ->
  readlines_lf (concat (req_lines deps)) = req_lines deps.
Proof.
  induction deps as [|d r IH]; [reflexivity|]. cbn [forallb req_lines map concat].
  intros H. apply andb_true_iff in H. destruct H as [Hd Hr].
  rewrite <- app_assoc. cbn [app]. rewrite readlines_lf_line by (now apply no_nl_no_lf).
  f_equal. now apply IH.
Qed.

Lemma req_lines_no_cr deps : forallb (fun d => no_nl (dline d)) deps = true -> ~ In CR (concat (req_lines deps)).
Proof.
  induction deps as [|d r IH]; [intros _ []|]. cbn [forallb req_lines map concat].
  intros H. apply andb_true_iff in H. destruct H as [Hd Hr].
  rewrite !in_app_iff. intros [[H|H]|H].
  - now apply no_nl_no_cr in Hd.
  - destruct H as [H|[]]. discriminate.
  - now apply IH.
Qed.

Lemma linenums_from_length n deps : length (linenums_from n deps) = length deps.
Proof. revert n. induction deps as [|d r IH]; intros n; cbn; [reflexivity|now rewrite IH]. Qed.

Definition will_write (g : dry_guard) (dry : bool) : bool :=
  match g with DryGuarded => negb dry | DryIgnored => true end.

(** The whole of add_to_file in one equation. *)
Lemma req_add_to_file_eq g dry text deps : text <> [] ->
  req_add_to_file g dry text deps =
    (WSome (linenums_from (N.of_nat (length (readlines text))) deps),
     if will_write g dry then req_after_spec (univ_nl text) deps else text).
Proof.
  intros Ht. unfold req_add_to_file, readlines.
  assert (Hu : univ_nl text <> []) by (intros H; apply Ht, univ_nl_nil, H).
  destruct (fix_last_readlines_lf _ Hu) as [ls' [Hf Hc]]. rewrite Hf.
  rewrite (fix_last_length _ _ Hf). unfold will_write, writelines, req_after_spec.
  rewrite concat_app, Hc. reflexivity.
Qed.

Lemma req_add_to_file_empty g dry deps : req_add_to_file g dry [] deps = (WCrash, []).
Proof. reflexivity. Qed.

(** The lines of the rewritten file: the (repaired) old lines, then the requirement lines. *)
Lemma req_after_lines text deps : text <> [] -> forallb (fun d => no_nl (dline d)) deps = true ->
  exists old', fix_last (readlines text) = Some old' /\
               readlines (req_after_spec (univ_nl text) deps) = old' ++ req_lines deps.
Proof.
  intros Ht Hd.
  assert (Hu : univ_nl text <> []) by (intros H; apply Ht, univ_nl_nil, H).
  exists (readlines_lf (ensure_final_lf (univ_nl text))). split.
  - apply fix_last_readlines_lf_lines, Hu.
  - unfold readlines, req_after_spec. rewrite univ_nl_id.
    + rewrite readlines_lf_app by (apply ends_lf_ensure, Hu). now rewrite readlines_lf_req_lines.
    + apply no_cr_iff. rewrite in_app_iff. intros [H|H].
      * rewrite ensure_final_lf_ne in H by exact Hu. destruct (ends_lf (univ_nl text)).
        -- now apply univ_nl_no_cr in H.
        -- apply in_app_iff in H. destruct H as [H|[H|[]]]; [now apply univ_nl_no_cr in H|discriminate].
      * now apply req_lines_no_cr in H.
Qed.

Lemma req_after_ends_lf text deps : text <> [] -> ends_lf (req_after_spec text deps) = true.
Proof.
  intros Ht. unfold req_after_spec. destruct deps as [|d r].
  - cbn. rewrite app_nil_r. apply ends_lf_ensure, Ht.
  - rewrite ends_lf_app.
    + assert (H : forall l, l <> [] -> ends_lf (concat (req_lines l)) = true).
      { induction l as [|e l IH]; [congruence|]. intros _. cbn [req_lines map concat].
        destruct l as [|e' l']; [cbn; rewrite app_nil_r; apply ends_lf_snoc|].
        rewrite ends_lf_app; [apply IH; discriminate|]. cbn. destruct (dline e'); discriminate. }
      apply H. discriminate.
    + cbn. destruct (dline d); discriminate.
Qed.

(* ------------------------------------------------------------------------------------------------ *)
(** * setup.cfg writer *)

Lemma skipn_insert {A} (a m b : list A) : skipn (length a + length m) (a ++ m ++ b) = b.
Proof. rewrite app_assoc, skipn_app, <- app_length, skipn_all, Nat.sub_diag. reflexivity. Qed.

Lemma strip_nil : strip [] = [].
Proof. reflexivity. Qed.

Lemma cfg_build_new_lines_eq orig defined deps k :
  (1 < length (split_on LF defined))%nat ->
  (k < length orig)%nat ->
  strip (nth k orig []) = last (split_on LF defined) [] ->
  unique_stripped orig k = true ->
  cfg_build_new_lines orig defined deps = BLines true (cfg_after_spec orig k deps).
Proof.
  intros Hnl Hk Hlast Huniq. unfold cfg_build_new_lines.
  apply Nat.ltb_lt in Hnl. rewrite Hnl.
  rewrite (index_of_first _ (map strip orig) k).
  - reflexivity.
  - now rewrite map_length.
  - rewrite <- strip_nil at 1. rewrite map_nth. exact Hlast.
  - intros j Hj. rewrite <- Hlast. now apply unique_stripped_spec.
Qed.

(** Every line of a text that ends with a newline ends with a newline. *)
Lemma readlines_lf_all_end s : ends_lf s = true -> Forall (fun l => ends_lf l = true) (readlines_lf s).
Proof.
  induction s as [|c r IH]; [discriminate|]. intros He.
  destruct r as [|c' r'].
  - cbn in He. apply N.eqb_eq in He. subst. repeat constructor.
  - assert (Hr : c' :: r' <> []) by discriminate.
    rewrite ends_lf_cons in He by exact Hr. specialize (IH He).
    rewrite (readlines_lf_cons c (c' :: r')).
    destruct (readlines_lf_cons_ne _ Hr) as [l [ls [El Hl]]]. rewrite El in *.
    destruct (N.eqb c LF).
    + constructor; [reflexivity|exact IH].
    + inversion IH; subst. constructor; [|assumption]. now rewrite ends_lf_cons.
Qed.

(** The repaired setup.cfg writer works on the lines of the text with a final newline supplied. *)
Lemma cfg_lines_terminated text : text <> [] ->
  cfg_lines LastLineTerminated text = readlines_lf (ensure_final_lf (univ_nl text)).
Proof.
  intros Ht. unfold cfg_lines, readlines.
  rewrite fix_last_readlines_lf_lines; [reflexivity|]. intros H. apply Ht, univ_nl_nil, H.
Qed.

Lemma Forall_firstn {A} (P : A -> Prop) n (l : list A) : Forall P l -> Forall P (firstn n l).
Proof. revert n. induction l as [|x r IH]; intros [|n] H; cbn; try constructor; inversion H; subst; auto. Qed.
Lemma Forall_skipn {A} (P : A -> Prop) n (l : list A) : Forall P l -> Forall P (skipn n l).
Proof. revert n. induction l as [|x r IH]; intros [|n] H; cbn; auto. inversion H; subst; auto. Qed.

(* ------------------------------------------------------------------------------------------------ *)
(** * Several codemods over shared stores *)

Lemma count_name_app v n a b : count_name v n (a ++ b) = (count_name v n a + count_name v n b)%nat.
Proof. unfold count_name. now rewrite filter_app, app_length. Qed.

Lemma count_name_key v n m l : name_key v n = name_key v m -> count_name v n l = count_name v m l.
Proof. intros H. unfold count_name. now rewrite H. Qed.

Lemma has_requirement_key v declared n m :
  name_key v n = name_key v m -> has_requirement v declared n = has_requirement v declared m.
Proof. intros H. unfold has_requirement. now rewrite H. Qed.

Lemma add_deps_count_le v deps declared n : (count_name v n (add_deps v deps declared) <= 1)%nat.
Proof.
  destruct (count_name v n (add_deps v deps declared)) as [|c] eqn:E; [lia|].
  assert (Hpos : (0 < count_name v n (add_deps v deps declared))%nat) by lia.
  apply count_name_pos in Hpos. destruct Hpos as [e [He Hk]].
  rewrite <- (count_name_key v (dname e) n _ Hk) in E.
  rewrite (add_deps_count v deps declared e (add_deps_sub _ _ _ _ He)) in E.
  destruct (has_requirement v declared (dname e)); lia.
Qed.

(** Per-store invariant: [s0] the store at the start of the run, [W] everything written to it so far, [s] the store now. *)
Definition store_inv (v : name_cmp) (s0 : store_st) (W : list dep) (s : store_st) : Prop :=
  (forall n, (count_name v n W <= 1)%nat) /\
  (forall n, has_requirement v (st_declared s0) n = true -> count_name v n W = 0%nat) /\
  (forall n, has_requirement v (st_declared s0) n = true -> has_requirement v (st_declared s) n = true) /\
  (forall e, In e W -> has_requirement v (st_declared s) (dname e) = true).

Lemma store_inv_init v s : store_inv v s [] s.
Proof. repeat split; auto; intros e []. Qed.

Lemma store_write_sub v s deps : forall e, In e (fst (store_write v s deps)) -> In e (add_deps v deps (st_declared s)).
Proof.
  unfold store_write. cbn [fst].
  destruct (st_writable s && forallb _ (add_deps v deps (st_declared s))); [auto|intros e []].
Qed.

Lemma store_write_count v s deps n :
  (count_name v n (fst (store_write v s deps)) <= count_name v n (add_deps v deps (st_declared s)))%nat.
Proof.
  unfold store_write. cbn [fst].
  destruct (st_writable s && forallb _ (add_deps v deps (st_declared s))); [lia|cbn; lia].
Qed.

Lemma store_inv_step v s0 W s deps :
  store_inv v s0 W s -> store_inv v s0 (W ++ fst (store_write v s deps)) (snd (store_write v s deps)).
Proof.
  intros [H1 [H2 [H3 H4]]].
  assert (Hdecl : st_declared (snd (store_write v s deps))
                  = st_declared s ++ map dname (add_deps v deps (st_declared s))) by reflexivity.
  assert (Hmono : forall n, has_requirement v (st_declared s) n = true ->
                            has_requirement v (st_declared (snd (store_write v s deps))) n = true).
  { intros n Hn. rewrite Hdecl, has_requirement_app, Hn. reflexivity. }
  assert (Hzero : forall n, has_requirement v (st_declared s) n = true ->
                            count_name v n (fst (store_write v s deps)) = 0%nat).
  { intros n Hn. pose proof (store_write_count v s deps n) as Hle.
    rewrite (add_deps_count_declared v deps _ n Hn) in Hle. lia. }
  repeat split.
  - intros n. rewrite count_name_app.
    destruct (count_name v n W) as [|c] eqn:E.
    + pose proof (store_write_count v s deps n). pose proof (add_deps_count_le v deps (st_declared s) n). lia.
    + assert (Hpos : (0 < count_name v n W)%nat) by lia.
      apply count_name_pos in Hpos. destruct Hpos as [e [He Hk]].
      specialize (H4 e He). rewrite (has_requirement_key v _ _ _ Hk) in H4.
      rewrite (Hzero n H4). specialize (H1 n). lia.
  - intros n Hn. rewrite count_name_app, (H2 n Hn), (Hzero n (H3 n Hn)). reflexivity.
  - intros n Hn. apply Hmono, H3, Hn.
  - intros e He. apply in_app_iff in He. destruct He as [He|He].
    + apply Hmono, H4, He.
    + apply store_write_sub in He. rewrite Hdecl, has_requirement_app.
      apply orb_true_iff. right. apply has_requirement_true. exists (dname e). split; [now apply in_map|reflexivity].
Qed.

Definition stores_inv (v : name_cmp) (S0 : stores) (log : list (nat * list dep)) (S : stores) : Prop :=
  forall i, store_inv v (S0 i) (writes_to i log) (S i).

Lemma writes_to_app i a b : writes_to i (a ++ b) = writes_to i a ++ writes_to i b.
Proof. unfold writes_to. apply flat_map_app. Qed.

Lemma stores_inv_step v S0 log S j deps :
  stores_inv v S0 log S ->
  stores_inv v S0 (log ++ [(j, fst (store_write v (S j) deps))]) (upd_store S j (snd (store_write v (S j) deps))).
Proof.
  intros H i. rewrite writes_to_app. unfold upd_store. cbn [writes_to flat_map fst snd]. rewrite app_nil_r.
  destruct (Nat.eqb_spec j i) as [->|Hne].
  - rewrite Nat.eqb_refl. apply store_inv_step, H.
  - destruct (Nat.eqb_spec i j) as [->|_]; [congruence|]. rewrite app_nil_r. apply H.
Qed.

Lemma visit_stores_inv v form S0 : forall idxs deps log S l S',
  stores_inv v S0 log S -> visit_stores v form idxs deps S = (l, S') -> stores_inv v S0 (log ++ l) S'.
Proof.
  destruct form; induction idxs as [|j r IH]; intros deps log S l S' Hinv Hv; cbn [visit_stores] in Hv;
    try (inversion Hv; subst; now rewrite app_nil_r).
  all: pose proof (stores_inv_step v S0 log S j deps Hinv) as Hstep;
       destruct (store_write v (S j) deps) as [w s'] eqn:Ew; cbn [fst snd] in Hstep.
  all: destruct w as [|e w'].
  - destruct (visit_stores v FirstWinsBreak r deps (upd_store S j s')) as [l0 S0'] eqn:Er. injection Hv as <- <-.
    specialize (IH deps _ _ l0 S0' Hstep Er). now rewrite <- app_assoc in IH.
  - inversion Hv; subst. exact Hstep.
  - destruct (visit_stores v NoBreak r deps (upd_store S j s')) as [l0 S0'] eqn:Er. injection Hv as <- <-.
    specialize (IH deps _ _ l0 S0' Hstep Er). now rewrite <- app_assoc in IH.
  - destruct (visit_stores v NoBreak r deps (upd_store S j s')) as [l0 S0'] eqn:Er. injection Hv as <- <-.
    specialize (IH deps _ _ l0 S0' Hstep Er). now rewrite <- app_assoc in IH.
Qed.

Lemma run_codemods_inv v form idxs S0 : forall cms log S ls S',
  stores_inv v S0 log S -> run_codemods v form idxs cms S = (ls, S') -> stores_inv v S0 (log ++ concat ls) S'.
Proof.
  induction cms as [|deps r IH]; intros log S ls S' Hinv Hr; cbn [run_codemods] in Hr.
  - inversion Hr; subst. cbn. now rewrite app_nil_r.
  - destruct (match deps with [] => ([], S) | _ => visit_stores v form idxs deps S end) as [l S1] eqn:El.
    destruct (run_codemods v form idxs r S1) as [ls1 S2] eqn:Er. inversion Hr; subst.
    assert (H1 : stores_inv v S0 (log ++ l) S1).
    { destruct deps as [|d ds].
      - inversion El; subst. now rewrite app_nil_r.
      - eapply visit_stores_inv; eauto. }
    specialize (IH _ _ _ _ H1 Er). cbn [concat]. now rewrite app_assoc.
Qed.

Lemma visit_stores_first_wins v : forall idxs deps S,
  (length (recorded_of (fst (visit_stores v FirstWinsBreak idxs deps S))) <= 1)%nat.
Proof.
  induction idxs as [|j r IH]; intros deps S; cbn [visit_stores]; [cbn; lia|].
  destruct (store_write v (S j) deps) as [w s'].
  destruct w as [|e w'].
  - specialize (IH deps (upd_store S j s')).
    destruct (visit_stores v FirstWinsBreak r deps (upd_store S j s')) as [l S2]. cbn in *. exact IH.
  - cbn. lia.
Qed.
