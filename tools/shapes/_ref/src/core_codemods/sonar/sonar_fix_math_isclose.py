import libcst as cst

from codemodder.codemods.libcst_transformer import LibcstTransformerPipeline
from codemodder.result import fuzzy_column_match, same_line
from core_codemods.fix_math_isclose import FixMathIsClose, FixMathIsCloseTransformer
from core_codemods.sonar.api import SonarCodemod


class FixMathIsCloseSonarTransformer(FixMathIsCloseTransformer):
    def filter_by_result(self, node) -> bool:
        """
        Special case result-matching for this rule because the sonar
        results returned match only the `math.isclose` call without `(...args...)`
        """
        match node:
            case cst.Call():
                pos_to_match = self.node_position(node)
                return any(
                    self.match_location(pos_to_match, result)
                    for result in self.results or []
                )
        return False

    def match_location(self, pos, result):
        return any(
            same_line(pos, location) and fuzzy_column_match(pos, location)
            for location in result.locations
        )


SonarFixMathIsClose = SonarCodemod.from_core_codemod(
    name="fix-math-isclose",
    other=FixMathIsClose,
    rule_id="python:S6727",
    rule_name="The abs_tol parameter should be provided when using math.isclose to compare values to 0",
    transformer=LibcstTransformerPipeline(FixMathIsCloseSonarTransformer),
)
