from typing import Optional

import libcst as cst

from codemodder.codemods.utils import BaseType, infer_expression_type
from codemodder.codemods.utils_mixin import NameAndAncestorResolutionMixin
from core_codemods.api import Metadata, ReviewGuidance, SimpleCodemod


class LazyLogging(SimpleCodemod, NameAndAncestorResolutionMixin):
    metadata = Metadata(
        name="lazy-logging",
        summary="Convert Eager Logging to Lazy Logging",
        review_guidance=ReviewGuidance.MERGE_WITHOUT_REVIEW,
        references=[],
    )
    change_description = "Use lazy logging"
    # Weird-looking indentation is required for semgrep to run correctly.
    _pattern_inside = """\
- pattern-inside: |
                import logging
                ...
"""
    _log_funcs = """\
- metavariable-pattern:
                  metavariable: $FUNC
                  patterns:
                    - pattern-either:
                      - pattern: debug
                      - pattern: info
                      - pattern: warning
                      - pattern: warn
                      - pattern: error
                      - pattern: critical
                      - pattern: log
"""
    detector_pattern = f"""
    rules:
        - pattern-either:
          - patterns:
            - pattern: logging.$FUNC(..., ... % ..., ...)
            {_pattern_inside}
            {_log_funcs}
          - patterns:
            - pattern: logging.getLogger(...).$FUNC(..., ... % ..., ...)
            {_pattern_inside}
            {_log_funcs}
          - patterns:
            - pattern: $VAR.$FUNC(..., ... % ..., ...)
            - pattern-inside: |
                import logging
                ...
                $VAR = logging.getLogger(...)
                ...
            {_log_funcs}
          - patterns:
            - pattern: logging.$FUNC($MSG + ..., ...)
            {_pattern_inside}
            {_log_funcs}
          - patterns:
            - pattern: logging.getLogger(...).$FUNC($MSG + ..., ...)
            {_pattern_inside}
            {_log_funcs}
          - patterns:
            - pattern: $VAR.$FUNC($MSG + ..., ...)
            - pattern-inside: |
                import logging
                ...
                $VAR = logging.getLogger(...)
                ...
            {_log_funcs}
          - patterns:
            - pattern: logging.log($LEVEL, $MSG + ..., ...)
            {_pattern_inside}
          - patterns:
            - pattern: logging.getLogger(...).log($LEVEL, $MSG + ..., ...)
            {_pattern_inside}
          - patterns:
            - pattern: $VAR.log($LEVEL, $MSG + ..., ...)
            - pattern-inside: |
                import logging
                ...
                $VAR = logging.getLogger(...)
                ...
        """

    def on_result_found(self, original_node, updated_node):
        match updated_node.func:
            case cst.Name(value="log") | cst.Attribute(attr=cst.Name(value="log")):
                # logging.log(INFO, ...), log(INFO, ...)
                first_arg = [original_node.args[0]]
                remaining_args = list(original_node.args[2:])
                binop = original_node.args[1].value
            case _:
                first_arg = []
                remaining_args = list(original_node.args[1:])
                binop = original_node.args[0].value

        if set(self.all_operators(binop)) == {cst.Add, cst.Modulo}:
            # TODO: handle more complex case of str concat that uses both `%` and `+` operators
            return updated_node

        match binop.operator:
            case cst.Modulo():
                new_args = self.make_args_for_modulo(binop)
            case cst.Add():
                if (new_args := self.make_args_for_plus(binop)) is None:
                    return updated_node
        return updated_node.with_changes(args=first_arg + new_args + remaining_args)

    def make_args_for_plus(self, binop: cst.BinaryOperation) -> Optional[list[cst.Arg]]:
        if self.is_str_concat(binop):
            # Do not change explicit str concat, e.g.: `logging.info("one" + "two")
            return None

        if isinstance(binop.left, cst.SimpleString) and "%" in binop.left.value:
            # Do no change `logging.info("Something: %s " + var)` since intention is unclear
            return None
        left_type = infer_expression_type(self.resolve_expression(binop.left))
        right_type = infer_expression_type(self.resolve_expression(binop.right))
        if left_type != right_type or (type_both_sides := left_type) not in {
            BaseType.STRING,
            BaseType.BYTES,
        }:
            # Cannot concat different types.
            # Skip logging ints, etc. Eg: `logging.info(2+2)`
            return None

        format_strings, format_args, prefixes = self.process_concat(binop)
        if len(set(prefixes)) > 1:
            # TODO: handle more complex case of str concat with different prefixes, such as
            # `logging.info("one: " + r"two \\n" + u'three '+  four)`
            return None
        if prefixes:
            combined_format_string = cst.SimpleString(
                value=f"""{prefixes[0]}{"".join(format_strings)}\""""
            )
        else:
            combined_format_string = cst.SimpleString(
                value=f"""{'"' if type_both_sides == BaseType.STRING else ""}{"".join(format_strings)}\""""
            )
        return [cst.Arg(value=combined_format_string)] + format_args

    def make_args_for_modulo(self, binop: cst.BinaryOperation) -> list[cst.Arg]:
        format_string = binop.left
        format_args = binop.right
        new_args = [cst.Arg(value=format_string)]
        match format_args:
            case cst.Tuple():
                for element in format_args.elements:
                    new_args.append(cst.Arg(value=element.value))
            case _:
                new_args.append(cst.Arg(value=format_args))
        return new_args

    def all_operators(self, node: cst.BinaryOperation):
        if not isinstance(node.left, cst.BinaryOperation):
            return [node.operator.__class__]
        return [node.operator.__class__] + self.all_operators(node.left)

    def is_str_concat(self, node: cst.CSTNode) -> bool:
        match node:
            case cst.BinaryOperation(operator=cst.Add()):
                return self.is_str_concat(node.left) and self.is_str_concat(node.right)
        return isinstance(node, cst.SimpleString)

    def process_concat(
        self,
        node: cst.CSTNode,
        format_strings=None,
        format_args=None,
        prefixes=None,
    ) -> tuple[list[str], list[cst.Arg], list[str]]:
        if format_strings is None:
            format_strings = []
        if format_args is None:
            format_args = []
        if prefixes is None:
            prefixes = []

        match node:
            case cst.BinaryOperation(operator=cst.Add()):
                self.process_concat(node.left, format_strings, format_args, prefixes)
                self.process_concat(node.right, format_strings, format_args, prefixes)
            case cst.SimpleString():
                format_strings.append(node.raw_value)
                if node.prefix:
                    prefixes.append(node.prefix + '"')
            case _:
                format_strings.append("%s")
                format_args.append(cst.Arg(value=node))

        return format_strings, format_args, prefixes
