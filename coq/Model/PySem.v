(** Big-step evaluator for MiniPy expressions: [eval env e = Val v | Raise x].
    It mirrors CPython 3.12 on the fragment (checked on every run by harness/c08.py on [pp e]); where the model
    declines to define CPython's behaviour (identity of small values, hashing of non-int set elements, float
    arithmetic, iteration order of big sets, ...) it raises the pseudo-exception [OutOfModel], which propagates like
    an exception and which the correspondence check skips.  Parenthesisation flags are ignored: the meaning of a
    printed tree [t] is [eval env (norm t)].  No effects other than exceptions, so the observation of a run is the
    [result] itself.  Definitions only. *)
From CM Require Export Model.MiniPy.
From Coq Require Import String.

Inductive value :=
| VBool (b : bool) | VInt (z : Z) | VStr (s : str) | VNone | VNaN
| VTuple (vs : list value) | VList (vs : list value)
| VSet (zs : list Z)                                  (* sets of ints, strictly increasing *)
| VObj (c : N) (cls_attrs inst_attrs : list str)      (* instance of the user class C<c>; identity = c *)
| VType (t : ty).
Inductive exn := NameError | TypeError | AttributeError | ZeroDivisionError | ValueError | OutOfModel.
Inductive result := Val (v : value) | Raise (x : exn).
Inductive cres := CB (b : bool) | CX (x : exn).

Definition env := list (N * value).
Fixpoint lookup (rho : env) (x : N) : option value :=
  match rho with [] => None | (y, v) :: t => if N.eqb x y then Some v else lookup t x end.
Definition bind (x : N) (v : value) (rho : env) : env := (x, v) :: rho.

Definition exn_eqb (a b : exn) : bool :=
  match a, b with
  | NameError, NameError | TypeError, TypeError | AttributeError, AttributeError | ZeroDivisionError, ZeroDivisionError
  | ValueError, ValueError | OutOfModel, OutOfModel => true
  | _, _ => false
  end.

Definition truthy (v : value) : bool :=
  match v with
  | VBool b => b
  | VInt z => negb (Z.eqb z 0)
  | VStr s => match s with [] => false | _ => true end
  | VNone => false
  | VNaN => true
  | VTuple vs | VList vs => match vs with [] => false | _ => true end
  | VSet zs => match zs with [] => false | _ => true end
  | VObj _ _ _ | VType _ => true
  end.

Definition num_of (v : value) : option Z :=
  match v with VBool true => Some 1%Z | VBool false => Some 0%Z | VInt z => Some z | _ => None end.
Definition is_nan (v : value) : bool := match v with VNaN => true | _ => false end.

(** [==].  [idn] = "identical objects count as equal" (CPython compares container elements with `is` first); the only
    value for which that matters is the single NaN object of the sandbox. *)
Fixpoint eqv (idn : bool) (v w : value) {struct v} : bool :=
  match v, w with
  | VNaN, VNaN => idn
  | VStr a, VStr b => str_eqb a b
  | VNone, VNone => true
  | VTuple a, VTuple b | VList a, VList b =>
      (fix go (a b : list value) : bool :=
         match a, b with
         | [], [] => true
         | x :: a', y :: b' => eqv true x y && go a' b'
         | _, _ => false
         end) a b
  | VSet a, VSet b => list_eqb Z.eqb a b
  | VObj c _ _, VObj d _ _ => N.eqb c d
  | VType s, VType t => ty_eqb s t
  | _, _ => match num_of v, num_of w with Some a, Some b => Z.eqb a b | _, _ => false end
  end.
Definition py_eq := eqv false.
Definition elem_eq := eqv true.

Fixpoint str_ltb (a b : str) : bool :=       (* strict lexicographic order on code points *)
  match a, b with
  | _, [] => false
  | [], _ :: _ => true
  | x :: a', y :: b' => (x <? y)%N || ((x =? y)%N && str_ltb a' b')
  end.
Definition subsetb (a b : list Z) : bool := forallb (fun z => existsb (Z.eqb z) b) a.

(** [<] and [<=]; [>] and [>=] are the same with the operands swapped (there are no reflected user methods here). *)
Definition py_lt (strict : bool) (v w : value) : cres :=
  match v, w with
  | VStr a, VStr b => CB (if strict then str_ltb a b else negb (str_ltb b a))
  | VSet a, VSet b => CB (subsetb a b && (if strict then negb (subsetb b a) else true))
  | VTuple _, VTuple _ | VList _, VList _ => CX OutOfModel
  | _, _ =>
      match num_of v, num_of w with
      | Some a, Some b => CB (if strict then Z.ltb a b else Z.leb a b)
      | _, _ =>
          if (is_nan v && (is_nan w || match num_of w with Some _ => true | None => false end))
             || (is_nan w && match num_of v with Some _ => true | None => false end)
          then CB false else CX TypeError
      end
  end.

Fixpoint hashable (v : value) : bool :=
  match v with
  | VList _ | VSet _ => false
  | VTuple vs => (fix go (vs : list value) : bool := match vs with [] => true | a :: t => hashable a && go t end) vs
  | _ => true
  end.

Fixpoint prefixb (p s : str) : bool :=
  match p, s with [], _ => true | _ :: _, [] => false | a :: p', b :: s' => (a =? b)%N && prefixb p' s' end.
Definition suffixb (p s : str) : bool := prefixb (rev p) (rev s).
Fixpoint infixb (p s : str) : bool :=
  prefixb p s || match s with [] => false | _ :: s' => infixb p s' end.

Definition py_in (v w : value) : cres :=
  match w with
  | VTuple ws | VList ws => CB (existsb (elem_eq v) ws)
  | VSet zs => match v with
               | VSet _ => CB false          (* set.__contains__ looks a set up as a frozenset: no TypeError, and no int set contains one *)
               | _ => if hashable v then CB (match num_of v with Some z => existsb (Z.eqb z) zs | None => false end)
                      else CX TypeError
               end
  | VStr s => match v with VStr p => CB (infixb p s) | _ => CX TypeError end
  | _ => CX TypeError
  end.

(** [is]: defined on the values whose identity the sandbox controls (singletons, types, the prelude's objects and its
    single NaN); identity of ints, strings and containers is CPython's business (caching, constant folding). *)
Definition has_identity (v : value) : bool :=
  match v with VBool _ | VNone | VNaN | VObj _ _ _ | VType _ => true | _ => false end.
Definition py_is (v w : value) : cres :=
  if has_identity v || has_identity w then
    CB (match v, w with
        | VBool a, VBool b => Bool.eqb a b
        | VNone, VNone | VNaN, VNaN => true
        | VObj c _ _, VObj d _ _ => N.eqb c d
        | VType s, VType t => ty_eqb s t
        | _, _ => false
        end)
  else CX OutOfModel.

Definition cneg (c : cres) : cres := match c with CB b => CB (negb b) | CX x => CX x end.
Definition cmp_op (o : cmpop) (v w : value) : cres :=
  match o with
  | Eq => CB (py_eq v w)
  | NotEq => CB (negb (py_eq v w))
  | Lt => py_lt true v w
  | LtE => py_lt false v w
  | Gt => py_lt true w v
  | GtE => py_lt false w v
  | Is => py_is v w
  | IsNot => cneg (py_is v w)
  | In => py_in v w
  | NotIn => cneg (py_in v w)
  end.
Definition of_cres (c : cres) : result := match c with CB b => Val (VBool b) | CX x => Raise x end.

(** str.startswith / str.endswith with a string or a tuple of strings (elements are checked lazily, left to right) *)
Definition tailmatch (m : meth) (p s : str) : bool := match m with Startswith => prefixb p s | Endswith => suffixb p s end.
Fixpoint sw_tuple (m : meth) (s : str) (vs : list value) : result :=
  match vs with
  | [] => Val (VBool false)
  | VStr p :: t => if tailmatch m p s then Val (VBool true) else sw_tuple m s t
  | _ :: _ => Raise TypeError
  end.
Definition sw (m : meth) (s : str) (arg : value) : result :=
  match arg with
  | VStr p => Val (VBool (tailmatch m p s))
  | VTuple vs => sw_tuple m s vs
  | _ => Raise TypeError
  end.

(** types *)
Definition type_of (v : value) : ty :=
  match v with
  | VBool _ => TBool | VInt _ => TInt | VStr _ => TStr | VNone => TNoneT | VNaN => TFloat | VTuple _ => TTuple
  | VList _ => TList | VSet _ => TSet | VObj c _ _ => TUser c | VType _ => TType
  end.
Definition subtype (s t : ty) : bool :=
  ty_eqb s t || match t with TObject => true | TInt => ty_eqb s TBool | _ => false end.
(** isinstance / issubclass second argument: a type or an arbitrarily nested tuple of types, searched lazily *)
Fixpoint class_match (s : ty) (spec : value) : cres :=
  match spec with
  | VType t => CB (subtype s t)
  | VTuple items =>
      (fix go (items : list value) : cres :=
         match items with
         | [] => CB false
         | a :: r => match class_match s a with CB true => CB true | CB false => go r | CX x => CX x end
         end) items
  | _ => CX TypeError
  end.
(** issubclass(d, spec): [d] must be a class wherever a type is reached *)
Fixpoint subclass_match (d : value) (spec : value) : cres :=
  match spec with
  | VType t => match d with VType s => CB (subtype s t) | _ => CX TypeError end
  | VTuple items =>
      (fix go (items : list value) : cres :=
         match items with
         | [] => CB false
         | a :: r => match subclass_match d a with CB true => CB true | CB false => go r | CX x => CX x end
         end) items
  | _ => CX TypeError
  end.

Definition call_attr : str := lit "__call__".
Definition plain_attrs : list str := [lit "foo"; lit "bar"].
Definition py_hasattr (v : value) (a : str) : result :=
  if str_eqb a call_attr then
    Val (VBool match v with
               | VObj _ cls inst => mem_str a cls || mem_str a inst
               | VType _ => true
               | _ => false
               end)
  else if mem_str a plain_attrs then
    Val (VBool match v with VObj _ cls inst => mem_str a cls || mem_str a inst | _ => false end)
  else Raise OutOfModel.
Definition py_callable (v : value) : bool :=
  match v with VObj _ cls _ => mem_str call_attr cls | VType _ => true | _ => false end.

(** iteration *)
Definition small_set (zs : list Z) : bool := forallb (fun z => (0 <=? z)%Z && (z <? 8)%Z) zs.
Definition to_seq (v : value) : result + list value :=
  match v with
  | VTuple vs | VList vs => inr vs
  | VSet zs => if small_set zs then inr (map VInt zs) else inl (Raise OutOfModel)   (* order of big sets: CPython's hashing *)
  | VStr s => inr (map (fun c => VStr [c]) s)
  | _ => inl (Raise TypeError)
  end.

Fixpoint insert_z (z : Z) (l : list Z) : list Z :=
  match l with
  | [] => [z]
  | a :: t => if (z <? a)%Z then z :: l else if (z =? a)%Z then l else a :: insert_z z t
  end.
Fixpoint set_of (vs : list value) (acc : list Z) : result :=
  match vs with
  | [] => Val (VSet acc)
  | VInt z :: t => set_of t (insert_z z acc)
  | (VList _ | VSet _) :: _ => Raise TypeError      (* unhashable *)
  | _ :: _ => Raise OutOfModel                      (* the model only has sets of ints *)
  end.

Fixpoint sum_from (acc : Z) (vs : list value) : result :=
  match vs with
  | [] => Val (VInt acc)
  | v :: t => match num_of v with
              | Some z => sum_from (acc + z) t
              | None => if is_nan v then Raise OutOfModel else Raise TypeError
              end
  end.
(** min/max keep the first extremal element: replace [best] only when the candidate is strictly beyond it *)
Fixpoint extremum (want_max : bool) (best : value) (vs : list value) : result :=
  match vs with
  | [] => Val best
  | v :: t => match (if want_max then py_lt true best v else py_lt true v best) with
              | CB true => extremum want_max v t
              | CB false => extremum want_max best t
              | CX x => Raise x
              end
  end.
Definition extremum_of (want_max : bool) (vs : list value) : result :=
  match vs with [] => Raise ValueError | v :: t => extremum want_max v t end.
Fixpoint any_of (vs : list value) : bool := match vs with [] => false | v :: t => truthy v || any_of t end.
Fixpoint all_of (vs : list value) : bool := match vs with [] => true | v :: t => truthy v && all_of t end.

Definition with_seq (v : value) (k : list value -> result) : result :=
  match to_seq v with inl r => r | inr vs => k vs end.

Definition apply_builtin (f : builtin) (args : list value) : result :=
  match f, args with
  | BLen, [v] => match v with
                 | VStr s => Val (VInt (Z.of_nat (List.length s)))
                 | VTuple vs | VList vs => Val (VInt (Z.of_nat (List.length vs)))
                 | VSet zs => Val (VInt (Z.of_nat (List.length zs)))
                 | _ => Raise TypeError
                 end
  | BAny, [v] => with_seq v (fun vs => Val (VBool (any_of vs)))
  | BAll, [v] => with_seq v (fun vs => Val (VBool (all_of vs)))
  | BSum, [v] => with_seq v (sum_from 0)
  | BSum, [v; VInt z] => with_seq v (sum_from z)
  | BSum, [_; _] => Raise OutOfModel
  | BMin, [v] => with_seq v (extremum_of false)
  | BMax, [v] => with_seq v (extremum_of true)
  | BMin, _ :: _ :: _ => extremum_of false args
  | BMax, _ :: _ :: _ => extremum_of true args
  | BSet, [] => Val (VSet [])
  | BSet, [v] => with_seq v (fun vs => set_of vs [])
  | BIsinstance, [v; spec] => of_cres (class_match (type_of v) spec)
  | BIssubclass, [d; spec] => of_cres (subclass_match d spec)
  | BHasattr, [v; VStr a] => py_hasattr v a
  | BHasattr, [_; _] => Raise TypeError
  | BCallable, [v] => Val (VBool (py_callable v))
  | BBool, [v] => Val (VBool (truthy v))
  | BBool, [] => Val (VBool false)
  | _, _ => Raise TypeError                           (* wrong number of arguments *)
  end.

(** a builtin applied to a generator expression as its only argument (own parentheses or not): any/all consume it lazily, the others exhaust it *)
Fixpoint map_res (step : value -> result) (vs : list value) : result + list value :=
  match vs with
  | [] => inr []
  | v :: t => match step v with
              | Raise x => inl (Raise x)
              | Val w => match map_res step t with inl r => inl r | inr ws => inr (w :: ws) end
              end
  end.
Fixpoint lazy_any (step : value -> result) (vs : list value) : result :=
  match vs with
  | [] => Val (VBool false)
  | v :: t => match step v with Raise x => Raise x | Val w => if truthy w then Val (VBool true) else lazy_any step t end
  end.
Fixpoint lazy_all (step : value -> result) (vs : list value) : result :=
  match vs with
  | [] => Val (VBool true)
  | v :: t => match step v with Raise x => Raise x | Val w => if truthy w then lazy_all step t else Val (VBool false) end
  end.
Definition consume (f : builtin) (step : value -> result) (vs : list value) : result :=
  match f with
  | BAny => lazy_any step vs
  | BAll => lazy_all step vs
  | BSum | BMin | BMax | BSet =>
      match map_res step vs with inl r => r | inr ws => apply_builtin f [VList ws] end
  | _ => Raise OutOfModel
  end.

Definition floordiv (v w : value) : result :=
  match num_of v, num_of w with
  | Some a, Some b => if (b =? 0)%Z then Raise ZeroDivisionError else Val (VInt (a / b))
  | _, _ =>
      if (is_nan v && (is_nan w || match num_of w with Some _ => true | None => false end))
         || (is_nan w && match num_of v with Some _ => true | None => false end)
      then Raise OutOfModel else Raise TypeError
  end.

Definition eval_const (c : const) : value :=
  match c with CBool b => VBool b | CInt z => VInt z | CStr s => VStr s | CNone => VNone | CNaN => VNaN end.

Fixpoint eval (rho : env) (e : expr) {struct e} : result :=
  let evals := fix evals (es : list expr) : result + list value :=
    match es with
    | [] => inr []
    | a :: t => match eval rho a with
                | Raise x => inl (Raise x)
                | Val v => match evals t with inl r => inl r | inr vs => inr (v :: vs) end
                end
    end in
  match e with
  | EName x => match lookup rho x with Some v => Val v | None => Raise NameError end
  | EConst c => Val (eval_const c)
  | EType t => Val (VType t)
  | ETuple es => match evals es with inl r => r | inr vs => Val (VTuple vs) end
  | EList es => match evals es with inl r => r | inr vs => Val (VList vs) end
  | ESet es => match evals es with inl r => r | inr vs => set_of vs [] end
  | EMeth r m args =>
      match lookup rho r with
      | None => Raise NameError
      | Some (VStr s) => match evals args with
                         | inl r => r
                         | inr [a] => sw m s a
                         | inr [] => Raise TypeError
                         | inr _ => Raise OutOfModel            (* start/end indices are not modelled *)
                         end
      | Some (VType _) => Raise OutOfModel                     (* unbound method *)
      | Some _ => Raise AttributeError
      end
  | ECall f args =>
      match args with
      | [EGen _ elt x it] =>
          match eval rho it with
          | Raise x => Raise x
          | Val vi => with_seq vi (consume f (fun v => eval (bind x v rho) elt))
          end
      | _ => match evals args with inl r => r | inr vs => apply_builtin f vs end
      end
  | EBool _ BOr l r => match eval rho l with Raise x => Raise x | Val v => if truthy v then Val v else eval rho r end
  | EBool _ BAnd l r => match eval rho l with Raise x => Raise x | Val v => if truthy v then eval rho r else Val v end
  | ENot _ a => match eval rho a with Raise x => Raise x | Val v => Val (VBool (negb (truthy v))) end
  | ECmp _ l rest =>
      match eval rho l with
      | Raise x => Raise x
      | Val v =>
          (fix chain (v : value) (rs : list (cmpop * expr)) : result :=
             match rs with
             | [] => Val v
             | (o, b) :: t =>
                 match eval rho b with
                 | Raise x => Raise x
                 | Val w => match cmp_op o v w with
                            | CX x => Raise x
                            | CB r => match t with
                                      | [] => Val (VBool r)
                                      | _ :: _ => if r then chain w t else Val (VBool false)
                                      end
                            end
                 end
             end) v rest
      end
  | EListComp elt x it =>
      match eval rho it with
      | Raise x => Raise x
      | Val vi => with_seq vi (fun vs => match map_res (fun v => eval (bind x v rho) elt) vs with
                                         | inl r => r
                                         | inr ws => Val (VList ws)
                                         end)
      end
  | EGen _ _ _ _ => Raise OutOfModel                          (* a generator object as a value *)
  | EFloorDiv l r => match eval rho l with
                     | Raise x => Raise x
                     | Val v => match eval rho r with Raise x => Raise x | Val w => floordiv v w end
                     end
  | EJuxt _ _ => Raise OutOfModel
  end.

(** * Canonical text of a result (the sandbox prints CPython's result with the same function, harness/minipy.py) *)
Definition show_int (z : Z) : str :=
  match z with Z0 => [48%N] | Zpos p => dec (Npos p) | Zneg p => 45%N :: dec (Npos p) end.
Fixpoint join_str (sep : str) (l : list str) : str :=
  match l with [] => [] | a :: t => match t with [] => a | _ :: _ => a ++ sep ++ join_str sep t end end.
Fixpoint show (v : value) : str :=
  match v with
  | VBool true => lit "True" | VBool false => lit "False"
  | VInt z => show_int z
  | VStr s => 34%N :: s ++ [34%N]
  | VNone => lit "None"
  | VNaN => lit "nan"
  | VTuple vs => 40%N :: join_str (lit ", ") (map show vs) ++ [41%N]
  | VList vs => 91%N :: join_str (lit ", ") (map show vs) ++ [93%N]
  | VSet zs => 123%N :: join_str (lit ", ") (map show_int zs) ++ [125%N]
  | VObj c _ _ => lit "<obj " ++ dec c ++ lit ">"
  | VType t => lit "<type " ++ pp_ty t ++ lit ">"
  end.
Definition show_exn (x : exn) : str :=
  match x with
  | NameError => lit "NameError" | TypeError => lit "TypeError" | AttributeError => lit "AttributeError"
  | ZeroDivisionError => lit "ZeroDivisionError" | ValueError => lit "ValueError" | OutOfModel => lit "OutOfModel"
  end.
Definition show_result (r : result) : str :=
  match r with Val v => lit "value " ++ show v | Raise x => lit "raise " ++ show_exn x end.
Definition is_val (r : result) : bool := match r with Val _ => true | Raise _ => false end.
Definition in_model (r : result) : bool := match r with Raise OutOfModel => false | _ => true end.
