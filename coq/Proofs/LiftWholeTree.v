(** The run-level lifting theorems (Proofs/RunLift.v) instantiated with the whole-tree kernel theorems of Proofs/WholeTree.v,
    in the manner of Proofs/LiftKernels.v: trees are MiniPy expressions, [code] is the printer, the transformer is the kernel.
    The parser stays abstract, with explicit contracts. *)
From CM Require Import Base.Str Model.MiniPy Model.Rewrites Proofs.RewriteFacts Proofs.WholeTree Proofs.LiftKernels.
From CM Require Import Base.Dict Model.Run Spec.RunSpec Proofs.RunFacts Proofs.RunSteps Proofs.RunLift Generated.Tables.

(** C01, composed, for any kernel that keeps [wfc]: after ANY run of codemods whose transformer is the kernel, every
    non-manifest file that parsed before the run parses after it.  Parser contracts: it only yields grammatical trees whose
    comparison / floor-division operands are atoms or parenthesised ([wfc]), and the printed text of such a tree parses. *)
Definition C01_kernel_run_statement (rw : expr -> expr) (tb : run_tables) : Prop :=
  if libcst_nochange_guarded tb then
    forall (parse : pipe_kind -> bytes -> option expr) S R diff W fsel,
      (forall b e, parse PLibcst b = Some e -> wfc e = true) ->
      (forall e, wfc e = true -> parse PLibcst (pp e) <> None) ->
      forall (Ks : list codemod) (cfg : config) (fs : fsys) (stores : list store) (p : path) (b : bytes),
        (forall K, In K Ks -> cpipe K = PLibcst) ->
        ~ In p (map st_path stores) -> lookup fs p = Some b -> parse PLibcst b <> None ->
        exists b', lookup (final_fs (run tb expr parse kernel_code (kernel_T rw) S R diff W fsel cfg Ks fs stores)) p = Some b' /\
                   parse PLibcst b' <> None
  else True.
Lemma C01_kernel_run_all rw : (forall e, wfc e = true -> wfc (rw e) = true) -> forall tb, C01_kernel_run_statement rw tb.
Proof.
  intros Hrw tb. unfold C01_kernel_run_statement. pose proof (C01_lift_all tb) as HL. unfold C01_lift_statement in HL.
  destruct (libcst_nochange_guarded tb); [|exact I].
  intros parse S R diff W fsel Hp1 Hp2 Ks cfg fs stores p b Hk Hst Hb Hpar.
  destruct (HL expr parse kernel_code (kernel_T rw) S R diff W fsel (fun _ => True) Ks Hk) with (cfg := cfg) (fs := fs)
    (stores := stores) (p := p) (b := b) as [b' [H1 [H2 _]]]; auto.
  - intros K b0 t fi t' chs ds _ _ Hpb HT. apply kernel_T_changed in HT. destruct HT as [-> _].
    split; [|exact I]. apply Hp2. apply Hrw. eapply Hp1; eauto.
  - eauto.
Qed.

(** C02, composed, for any kernel whose output uses no name beyond those of its input and the builtins: the names of every
    non-manifest file after ANY run are among the names it had before, plus builtins.  Parser contract: printing then parsing
    gives the tree back. *)
Definition file_names (parse : pipe_kind -> bytes -> option expr) (b : bytes) : list str :=
  match parse PLibcst b with Some t => names t | None => [] end.
Definition C02_kernel_run_statement (rw : expr -> expr) (tb : run_tables) : Prop :=
  if libcst_nochange_guarded tb then
    forall (parse : pipe_kind -> bytes -> option expr) S R diff W fsel,
      (forall e, parse PLibcst (pp e) = Some e) ->
      forall (Ks : list codemod) (cfg : config) (fs : fsys) (stores : list store) (p : path) (b : bytes),
        (forall K, In K Ks -> cpipe K = PLibcst) ->
        ~ In p (map st_path stores) -> lookup fs p = Some b ->
        exists b', lookup (final_fs (run tb expr parse kernel_code (kernel_T rw) S R diff W fsel cfg Ks fs stores)) p = Some b' /\
                   incl_str (file_names parse b') (file_names parse b ++ builtin_names)
  else True.
Lemma C02_kernel_run_all rw : (forall e, incl_str (names (rw e)) (names e ++ builtin_names)) -> forall tb, C02_kernel_run_statement rw tb.
Proof.
  intros Hrw tb. unfold C02_kernel_run_statement. pose proof (C02_lift_all tb) as HL. unfold C02_lift_statement in HL.
  destruct (libcst_nochange_guarded tb); [|exact I].
  intros parse S R diff W fsel Hrt Ks cfg fs stores p b Hk Hst Hb.
  destruct (HL expr parse kernel_code (kernel_T rw) S R diff W fsel (list str) (file_names parse)
              (fun x y => incl_str x (y ++ builtin_names)) (fun _ => True) Ks) with (cfg := cfg) (fs := fs) (stores := stores) (p := p) (b := b)
    as [b' [H1 [H2 _]]]; auto.
  - intros x y Hy. apply in_or_app. left. exact Hy.
  - intros x y z H1 H2 w Hw. apply H1 in Hw. apply in_app_or in Hw as [Hw|Hw]; [apply H2, Hw|apply in_or_app; right; exact Hw].
  - intros K b0 t fi t' chs ds _ _ Hpb HT. apply kernel_T_changed in HT. destruct HT as [-> _].
    split; [|exact I]. unfold file_names, kernel_code. rewrite Hrt, Hpb. apply Hrw.
  - eauto.
Qed.

(** table-indexed forms for the kernels whose whole-tree theorem needs the repaired source form *)
Definition C01_generator_run_statement (g : generator_cfg) (tb : run_tables) : Prop :=
  if ug_nested g && ug_updated_parts g then C01_kernel_run_statement (generator_file g) tb else True.
Lemma C01_generator_run_all g tb : C01_generator_run_statement g tb.
Proof.
  unfold C01_generator_run_statement. destruct (ug_nested g) eqn:Hn; [|exact I]. destruct (ug_updated_parts g) eqn:Hp; [|exact I].
  apply C01_kernel_run_all. intros e. apply generator_wfc; assumption.
Qed.
Definition C02_generator_run_statement (g : generator_cfg) (tb : run_tables) : Prop :=
  if ug_nested g && ug_updated_parts g then C02_kernel_run_statement (generator_file g) tb else True.
Lemma C02_generator_run_all g tb : C02_generator_run_statement g tb.
Proof.
  unfold C02_generator_run_statement. destruct (ug_nested g) eqn:Hn; [|exact I]. destruct (ug_updated_parts g) eqn:Hp; [|exact I].
  apply C02_kernel_run_all. intros e. apply generator_names; assumption.
Qed.
Definition C01_empty_seq_run_statement (c : empty_seq_cfg) (tb : run_tables) : Prop :=
  if es_parens c then C01_kernel_run_statement (empty_seq_file c false) tb else True.
Lemma C01_empty_seq_run_all c tb : C01_empty_seq_run_statement c tb.
Proof.
  unfold C01_empty_seq_run_statement. destruct (es_parens c) eqn:Hp; [|exact I].
  apply C01_kernel_run_all. intros e. apply empty_seq_wfc, Hp.
Qed.
