# src/codemodder/context.py (proposed_fixes/manifest-selection.diff): the package stores process_dependencies iterates over
class CodemodExecutionContext:
    def process_dependencies(self, codemod_id):
        if not (store_list := self._writable_package_stores()):
            return record

    def _writable_package_stores(self) -> list[PackageStore]:
        """
        The dependency files a codemod may update: like every other file, one that
        a file-level exclude pattern (the user's, else the defaults) matches is left alone.
        """
        stores = []
        for store in self.repo_manager.package_stores:
            try:
                excluded = not match_files(
                    self.directory,
                    [store.file],
                    [pat for pat in self.path_exclude if ":" not in pat] or None,
                    ["*"],
                )
            except (TypeError, ValueError):
                # not a path below the target directory: nothing to match
                excluded = False
            if excluded:
                logger.debug("dependency file %s is excluded, skipping", store.file)
                continue
            stores.append(store)
        return stores
