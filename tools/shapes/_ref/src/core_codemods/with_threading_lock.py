import libcst as cst

from codemodder.codemods.utils_mixin import NameResolutionMixin
from core_codemods.api import Metadata, Reference, ReviewGuidance, SimpleCodemod


class WithThreadingLock(SimpleCodemod, NameResolutionMixin):
    metadata = Metadata(
        name="bad-lock-with-statement",
        summary="Separate Lock Instantiation from `with` Call",
        review_guidance=ReviewGuidance.MERGE_WITHOUT_REVIEW,
        references=[
            Reference(
                url="https://pylint.pycqa.org/en/latest/user_guide/messages/warning/useless-with-lock.html"
            ),
            Reference(
                url="https://docs.python.org/3/library/threading.html#using-locks-conditions-and-semaphores-in-the-with-statement"
            ),
        ],
    )
    change_description = (
        "Replace deprecated usage of threading lock classes as context managers."
    )
    detector_pattern = """
        rules:
          - patterns:
            - pattern: |
                with $BODY:
                    ...
            - metavariable-pattern:
                metavariable: $BODY
                patterns:
                - pattern-either:
                    - pattern: threading.Lock()
                    - pattern: threading.RLock()
                    - pattern: threading.Condition()
                    - pattern: threading.Semaphore()
                    - pattern: threading.BoundedSemaphore()
            - pattern-inside: |
                import threading
                ...
            - focus-metavariable: $BODY
        """

    def __init__(self, *args, **kwargs):
        SimpleCodemod.__init__(self, *args, **kwargs)
        NameResolutionMixin.__init__(self)
        self.names_in_module = self.find_used_names_in_module()

    def _create_new_variable(self, original_node: cst.With):
        """
        Create an appropriately named variable for the new
        lock, condition, or semaphore.
        Keep track of this addition in case that are other additions.
        """
        base_name = _get_node_name(original_node)
        value = base_name
        counter = 1
        while value in self.names_in_module:
            value = f"{base_name}_{counter}"
            counter += 1

        self.names_in_module.append(value)
        return cst.Name(value=value)

    def leave_With(self, original_node: cst.With, updated_node: cst.With):
        # We deliberately restrict ourselves to simple cases where there's only one with clause for now.
        # Semgrep appears to be insufficiently expressive to match multiple clauses correctly.
        # We should probably just rewrite this codemod using libcst without semgrep.
        if len(original_node.items) == 1 and self.node_is_selected(
            original_node.items[0]
        ):
            name = self._create_new_variable(original_node)
            assign = cst.SimpleStatementLine(
                body=[
                    cst.Assign(
                        targets=[cst.AssignTarget(target=name)],
                        value=updated_node.items[0].item,
                    )
                ]
            )
            self.add_change(original_node, self.change_description)
            return cst.FlattenSentinel(
                [
                    assign,
                    updated_node.with_changes(
                        items=[cst.WithItem(name, asname=updated_node.items[0].asname)]
                    ),
                ]
            )

        return original_node


def _get_node_name(original_node: cst.With):
    func_call = original_node.items[0].item.func
    if isinstance(func_call, cst.Name):
        return func_call.value.lower()
    if isinstance(func_call, cst.Attribute):
        return func_call.attr.value.lower()
    return ""  # pragma: no cover
