(** Correspondence checkers for C19 (regex half).  A case carries the inputs, the graphs of the two oracles
    (re.sub per line, create_diff per candidate updated list) and what the implementation was observed to do. *)
From CM Require Import Harness.RunBase Base.Dict Model.RegexPipe Spec.RegexPipeSpec Generated.Tables.

Definition sub_of (g : list (str * str)) (l : str) : str :=
  match dget str_eqb l g with Some r => r | None => l end.
Definition lines_eqb : list str -> list str -> bool := list_eqb str_eqb.
Definition diff_of (g : list (list str * str)) (orig upd : list str) : option str := dget lines_eqb upd g.

Definition change_eqb (a b : change) : bool :=
  N.eqb (c_line a) (c_line b) && list_eqb N.eqb (c_findings a) (c_findings b).
Definition unfixed_eqb : unfixed -> unfixed -> bool := pair_eqb N.eqb N.eqb.

(** observation of one apply() call: None = it raised; else (returned ChangeSet or None, file content afterwards,
    unfixed findings, a failure was recorded for the file) *)
Definition obs := option (option (str * list change) * str * list unfixed * bool).

Record regex_case := {
  rc_sast : bool;
  rc_raw : str;               (* the file content: the decoded text, or a code for the bytes when they do not decode *)
  rc_decodes : bool;
  rc_lines : list str;        (* splitlines(keepends) of the decoded text; [] when not rc_decodes *)
  rc_graph : list (str * str);
  rc_fc : list result;
  rc_results : option (list result);
  rc_diffs : list (list str * str);
  rc_real : obs;
  rc_dry : obs }.

Definition out_eqb (m : apply_out (D := option str)) (o : option (str * list change) * str * list unfixed * bool) : bool :=
  let '(ret, file, unf, failed) := o in
  negb failed &&
  match ao_ret m, ret with
  | None, None => true
  | Some cs, Some (d, chs) => option_eqb str_eqb (cs_diff cs) (Some d) && list_eqb change_eqb (cs_changes cs) chs
  | _, _ => false
  end && str_eqb (ao_file m) file && list_eqb unfixed_eqb (ao_unfixed m) unf.

Definition model_run (c : regex_case) (dry : bool) : file_outcome (D := option str) :=
  let sub := sub_of (rc_graph c) in
  let decoded := if rc_decodes c then Some (rc_lines c) else None in
  if rc_sast c
  then sast_apply_file sub (rc_fc c) (diff_of (rc_diffs c)) regex_apply_isolation sast_regex_findings_index dry (rc_results c) decoded
  else regex_apply_file sub (rc_fc c) (diff_of (rc_diffs c)) regex_apply_isolation regex_findings_index dry decoded.

Definition obs_matches (c : regex_case) (m : file_outcome (D := option str)) (o : obs) : bool :=
  match m, o with
  | Raises, None => true
  | Done m, Some o => out_eqb m o
  | Failed _ unf, Some (ret, file, unf', failed) =>
      match ret with None => true | Some _ => false end && str_eqb file (rc_raw c) && list_eqb unfixed_eqb unf unf' && failed
  | _, _ => false
  end.

Definition regex_model_ok (c : regex_case) : bool :=
  obs_matches c (model_run c true) (rc_dry c) && obs_matches c (model_run c false) (rc_real c).

(** the spec, evaluated on the observation; each clause separately so that the harness can name what failed.
    A file that does not decode, and the SAST class handed results=None (its _apply raises), are the business of
    [regex_spec_isolation_ok]: the other clauses skip them. *)
Definition fails_expected (c : regex_case) : bool :=
  negb (rc_decodes c) || (rc_sast c && match rc_results c with None => true | Some _ => false end).
Definition no_opinion (c : regex_case) : bool := fails_expected c.
Definition on_obs (c : regex_case) (f : bool -> option (str * list change) * str * list unfixed * bool -> bool) : bool :=
  no_opinion c ||
  match rc_real c, rc_dry c with
  | Some r, Some d => f false r && f true d
  | _, _ => false
  end.

(** The non-SAST class has one reading (every line is a target, the targets that change are the lines the pattern
    matches): its file content is judged exactly.  The SAST class is judged by the property's words: the updated lines
    [_apply] produced (first entry of rc_diffs, an observation) must be an admissible update w.r.t. the lines that
    carry a finding of the results handed in; which of them are edited is the model's business (regex_model_ok). *)
Definition handed (c : regex_case) : list result := match rc_results c with Some rs => rs | None => [] end.
Definition cand (c : regex_case) : N -> bool := if rc_sast c then carries (handed c) else all_lines.
Definition obs_updated (c : regex_case) : list str :=
  if rc_sast c then match rc_diffs c with (u, _) :: _ => u | [] => rc_lines c end
  else spec_updated (sub_of (rc_graph c)) all_lines (rc_lines c).

(** file bytes: non-candidate lines identical, edited lines substituted, dry-run / no change writes nothing *)
Definition regex_spec_file_ok (c : regex_case) : bool :=
  on_obs c (fun dry o =>
    let '(ret, file, _, _) := o in
    match ret with
    | None => str_eqb file (concat (rc_lines c))
    | Some _ => str_eqb file (concat (if dry then rc_lines c else obs_updated c)) &&
                admissible (sub_of (rc_graph c)) (cand c) (rc_lines c) (obs_updated c)
    end).
(** None iff no edit; one change per edit, numbered, in order; diff = create_diff(original, updated) *)
Definition regex_spec_changes_ok (c : regex_case) : bool :=
  on_obs c (fun dry o =>
    let '(ret, _, _, _) := o in
    let upd := obs_updated c in
    match edited_lines (rc_lines c) upd, ret with
    | [], None => true
    | (_ :: _) as e, Some (d, chs) => list_eqb N.eqb (map c_line chs) e && option_eqb str_eqb (diff_of (rc_diffs c) (rc_lines c) upd) (Some d)
    | _, _ => false
    end).
(** every reported change carries exactly the findings whose range contains its line *)
Definition regex_spec_findings_ok (c : regex_case) : bool :=
  on_obs c (fun dry o =>
    let '(ret, _, _, _) := o in
    match ret with
    | None => true
    | Some (_, chs) => forallb (fun ch => list_eqb N.eqb (c_findings ch) (findings_for_location (rc_fc c) (c_line ch))) chs
    end).
(** an unfixed finding is reported for a candidate line that was not edited, and is a finding of that line
    (which unedited candidate lines are reported is the model's business) *)
Definition regex_spec_unfixed_ok (c : regex_case) : bool :=
  on_obs c (fun dry o =>
    let '(_, _, unf, _) := o in
    forallb (fun u => cand c (snd u) && negb (mem_N (snd u) (edited_lines (rc_lines c) (obs_updated c))) &&
                      mem_N (fst u) (findings_for_location (rc_fc c) (snd u))) unf).

(** nothing escapes apply(): a file that cannot be read or transformed is a recorded failure, left untouched, with
    every finding of the file reported unfixed at line 0; any other file is processed without a failure *)
Definition regex_spec_isolation_ok (c : regex_case) : bool :=
  let ok (o : obs) :=
    match o with
    | None => negb (fails_expected c)    (* an exception on a good file is a model mismatch (tie break), not judged here *)
    | Some (ret, file, unf, failed) =>
        if fails_expected c
        then match ret with None => true | Some _ => false end && str_eqb file (rc_raw c) && failed &&
             list_eqb unfixed_eqb unf (map (fun f => (f, 0%N)) (all_findings (rc_fc c)))
        else negb failed
    end in
  ok (rc_real c) && ok (rc_dry c).
