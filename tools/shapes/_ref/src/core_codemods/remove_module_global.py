from typing import Union

import libcst as cst
from libcst.metadata import GlobalScope, ScopeProvider

from codemodder.codemods.utils_mixin import NameResolutionMixin
from core_codemods.api import Metadata, ReviewGuidance, SimpleCodemod


class RemoveModuleGlobal(SimpleCodemod, NameResolutionMixin):
    metadata = Metadata(
        name="remove-module-global",
        summary="Remove `global` Usage at Module Level",
        review_guidance=ReviewGuidance.MERGE_WITHOUT_REVIEW,
        references=[],
    )
    change_description = "Remove `global` usage at module level."

    def leave_Global(
        self,
        original_node: cst.Global,
        updated_node: cst.Global,
    ) -> Union[
        cst.Global,
        cst.RemovalSentinel,
    ]:
        if not self.filter_by_path_includes_or_excludes(
            self.node_position(original_node)
        ):
            return updated_node
        scope = self.get_metadata(ScopeProvider, original_node)
        if isinstance(scope, GlobalScope):
            self.report_change(original_node)
            return cst.RemovalSentinel.REMOVE
        return original_node
