def positive_int(value):
    number = int(value)
    if number <= 0:
        raise argparse.ArgumentTypeError(f"invalid positive int value: {value!r}")
    return number
