from typing import Optional

import libcst as cst
from libcst import MaybeSentinel

from codemodder.codemods.utils import BaseType, infer_expression_type
from codemodder.codemods.utils_mixin import NameAndAncestorResolutionMixin
from core_codemods.api import Metadata, Reference, ReviewGuidance, SimpleCodemod


class FixAsyncTaskInstantiation(SimpleCodemod, NameAndAncestorResolutionMixin):
    metadata = Metadata(
        name="fix-async-task-instantiation",
        summary="Use High-Level `asyncio` API Functions to Create Tasks",
        review_guidance=ReviewGuidance.MERGE_AFTER_CURSORY_REVIEW,
        references=[
            Reference(
                url="https://docs.python.org/3/library/asyncio-task.html#asyncio.Task"
            ),
        ],
    )
    change_description = "Replace instantiation of `asyncio.Task` with higher-level functions to create tasks."
    _module_name = "asyncio"

    def leave_Call(self, original_node: cst.Call, updated_node: cst.Call) -> cst.Call:
        if not self.filter_by_path_includes_or_excludes(
            self.node_position(original_node)
        ):
            return updated_node

        if self.find_base_name(original_node) != "asyncio.Task":
            return updated_node
        coroutine_arg = original_node.args[0]
        loop_arg, eager_start_arg, other_args = self._split_args(original_node.args[1:])

        loop_type = (
            infer_expression_type(self.resolve_expression(loop_arg.value))
            if loop_arg
            else None
        )

        if (
            infer_expression_type(self.resolve_expression(eager_start_arg.value))
            if eager_start_arg
            else None
        ) == BaseType.TRUE:
            if not loop_arg or self._is_invalid_loop_value(loop_type):
                # asking for eager_start without a loop or incorrectly setting loop is bad.
                # We won't do anything.
                return updated_node

            loop_arg = loop_arg.with_changes(keyword=None, equal=MaybeSentinel.DEFAULT)
            return self.node_eager_task(
                original_node,
                updated_node,
                replacement_args=[loop_arg, coroutine_arg] + other_args,
            )

        if loop_arg:
            if loop_type == BaseType.NONE:
                return self.node_create_task(
                    original_node,
                    updated_node,
                    replacement_args=[coroutine_arg] + other_args,
                )
            if self._is_invalid_loop_value(loop_type):
                # incorrectly assigned loop kwarg to something that is not a loop.
                # We won't do anything.
                return updated_node

            return self.node_loop_create_task(
                original_node, coroutine_arg, loop_arg, other_args
            )
        return self.node_create_task(
            original_node, updated_node, replacement_args=[coroutine_arg] + other_args
        )

    def node_create_task(
        self,
        original_node: cst.Call,
        updated_node: cst.Call,
        replacement_args=list[cst.Arg],
    ) -> cst.Call:
        """Convert `asyncio.Task(...)` to `asyncio.create_task(...)`"""
        self.report_change(original_node)
        maybe_name = self.get_aliased_prefix_name(original_node, self._module_name)
        if (maybe_name := maybe_name or self._module_name) == self._module_name:
            self.add_needed_import(self._module_name)
        self.remove_unused_import(original_node)

        if len(replacement_args) == 1:
            replacement_args[0] = replacement_args[0].with_changes(
                comma=MaybeSentinel.DEFAULT
            )
        return self.update_call_target(
            updated_node, maybe_name, "create_task", replacement_args=replacement_args
        )

    def node_eager_task(
        self,
        original_node: cst.Call,
        updated_node: cst.Call,
        replacement_args=list[cst.Arg],
    ) -> cst.Call:
        """Convert `asyncio.Task(...)` to `asyncio.eager_task_factory(loop, coro...)`"""
        self.report_change(original_node)
        maybe_name = self.get_aliased_prefix_name(original_node, self._module_name)
        if (maybe_name := maybe_name or self._module_name) == self._module_name:
            self.add_needed_import(self._module_name)
        self.remove_unused_import(original_node)
        return self.update_call_target(
            updated_node,
            maybe_name,
            "eager_task_factory",
            replacement_args=replacement_args,
        )

    def node_loop_create_task(
        self,
        original_node: cst.Call,
        coroutine_arg: cst.Arg,
        loop_arg: cst.Arg,
        other_args: list[cst.Arg],
    ) -> cst.Call:
        """Convert `asyncio.Task(..., loop=loop,...)` to `loop.create_task(...)`"""
        self.report_change(original_node)
        coroutine_arg = coroutine_arg.with_changes(comma=cst.MaybeSentinel.DEFAULT)
        loop_attr = loop_arg.value
        new_call = cst.Call(
            func=cst.Attribute(value=loop_attr, attr=cst.Name("create_task")),
            args=[coroutine_arg] + other_args,
        )
        self.remove_unused_import(original_node)
        return new_call

    def _split_args(
        self, args: list[cst.Arg]
    ) -> tuple[Optional[cst.Arg], Optional[cst.Arg], list[cst.Arg]]:
        """Find the loop kwarg and the eager_start kwarg from a list of args.
        Return any args or non-None kwargs.
        """
        loop_arg, eager_start_arg = None, None
        other_args = []
        for arg in args:
            match arg:
                case cst.Arg(keyword=cst.Name(value="loop")):
                    loop_arg = arg
                case cst.Arg(keyword=cst.Name(value="eager_start")):
                    eager_start_arg = arg
                case cst.Arg(keyword=cst.Name() as k) if k.value != "None":
                    # keep kwarg that are not set to None
                    other_args.append(arg)
                case cst.Arg(keyword=None):
                    # keep post args
                    other_args.append(arg)

        return loop_arg, eager_start_arg, other_args

    def _is_invalid_loop_value(self, loop_type):
        return loop_type in (
            BaseType.NONE,
            BaseType.NUMBER,
            BaseType.LIST,
            BaseType.STRING,
            BaseType.BYTES,
            BaseType.TRUE,
            BaseType.FALSE,
        )
