# Fragments of the CodeTF report model (C15): coq/Model/Report.v.  exec'd inside tools/translate.py.
TABLE_IMPORTS.append("From CM Require Import Base.Types_Report.")

_C15 = ["C15"]

shape("report_libcst_apply", "src/codemodder/codemods/libcst_transformer.py", _C15,
      "report_libcst_apply", "libcst_apply_variant", "LibcstGuardChangesDiff",
      ["LibcstTransformerPipeline.apply", "LibcstResultTransformer.report_change_for_line"],
      doc="LibcstTransformerPipeline.apply (try parse / try transform / if not codemod_changes / if not diff / ChangeSet) + report_change_for_line")
shape("report_xml_apply", "src/codemodder/codemods/xml_transformer.py", _C15,
      "report_xml_apply", "xml_apply_variant", "XmlDescOrNoneDiffGuard",
      ["XMLTransformer.add_change", "XMLTransformerPipeline.apply"],
      doc="XMLTransformer.add_change (description or None) + XMLTransformerPipeline.apply (guards in front of ChangeSet)")
shape("report_regex_apply", "src/codemodder/codemods/regex_transformer.py", _C15,
      "report_regex_apply", "regex_apply_variant", "RegexFailureHandled",
      ["RegexTransformerPipeline._apply", "RegexTransformerPipeline.apply", "SastRegexTransformerPipeline._apply"],
      doc="RegexTransformerPipeline.apply (failure handling, `if not changes`, no diff guard) + _apply (Change(lineno + 1, change_description))")
shape("report_failure", "src/codemodder/file_context.py", _C15,
      "report_failure", "failure_variant", "FailureLineZero",
      ["FileContext.add_changeset", "FileContext.add_failure", "FileContext.add_unfixed_findings", "FileContext.get_all_findings"],
      doc="FileContext.add_failure: file failed + all its findings unfixed with line 0")
shape("report_compile", "src/codemodder/context.py", _C15,
      "report_compile", "compile_variant", "CompileOnePerCodemodInOrder",
      ["CodemodExecutionContext.add_changesets", "CodemodExecutionContext.add_failures",
       "CodemodExecutionContext.add_dependencies", "CodemodExecutionContext.add_unfixed_findings",
       "CodemodExecutionContext.get_changesets", "CodemodExecutionContext.get_failures",
       "CodemodExecutionContext.get_unfixed_findings", "CodemodExecutionContext.process_dependencies",
       "CodemodExecutionContext.add_description", "CodemodExecutionContext.process_results",
       "CodemodExecutionContext.compile_results", "CodemodExecutionContext._writable_package_stores"],
      doc="context.py aggregates keyed by codemod id, process_results, process_dependencies, add_description, compile_results")
shape("report_update_meta", "src/codemodder/utils/update_finding_metadata.py", _C15,
      "report_update_meta", "update_meta_variant", "UpdateByFindingId", ["update_finding_metadata"],
      doc="update_finding_metadata: rule name/url back-fill keyed by finding.id")
shape("report_build", "src/codemodder/codetf.py", _C15,
      "report_build", "build_variant", "BuildRunExcludeNone",
      ["CodeTF.build", "CodeTF.write_report", "Finding.to_unfixed_finding"],
      doc="CodeTF.build, write_report (model_dump_json(exclude_none=True)), Finding.to_unfixed_finding")
shape("report_apply_codemods", "src/codemodder/codemodder.py", _C15,
      "report_apply_codemods", "apply_codemods_variant", "ApplyEarlyReturnThenLoop", ["apply_codemods"],
      doc="apply_codemods: early return without files/codemods, then one codemod at a time in the given order")


# ---- codemodder.run: the report is built from compile_results(codemods_to_run) iff --output ----------------
_RUN_OUTPUT_FORMS = [
    # pinned tree: value of write_report dropped
    """if argv.output:
    codetf = CodeTF.build(context, elapsed_ms, original_args, context.compile_results(codemods_to_run))
    codetf.write_report(argv.output)
""",
    # fix abc422d
    """if argv.output:
    codetf = CodeTF.build(context, elapsed_ms, original_args, context.compile_results(codemods_to_run))
    if codetf.write_report(argv.output) == 2:
        return 2
""",
]


def _run_output(tree, repo):
    fn = find_def(tree, "run")
    if fn is None:
        raise Unrecognised("codemodder.run not found")
    blocks = [s for s in ast.walk(fn) if isinstance(s, ast.If) and ast.unparse(s.test) == "argv.output"]
    if len(blocks) != 1:
        raise Unrecognised(f"expected exactly one `if argv.output:` in run, found {len(blocks)}")
    got = norm_dump(blocks[0])
    known = [norm_dump(ast.parse(src).body[0]) for src in _RUN_OUTPUT_FORMS]
    if got not in known:
        raise Unrecognised("the `if argv.output:` block of run has an unknown shape")
    calls = [s for s in ast.walk(fn) if isinstance(s, ast.Call) and ast.unparse(s.func) == "apply_codemods"]
    if len(calls) != 1 or [ast.unparse(a) for a in calls[0].args] != ["context", "codemods_to_run"]:
        raise Unrecognised("run does not call apply_codemods(context, codemods_to_run) exactly once")
    sel = [s for s in fn.body if isinstance(s, ast.Assign) and ast.unparse(s.targets[0]) == "codemods_to_run"]
    if len(sel) != 1:
        raise Unrecognised("codemods_to_run is not assigned exactly once at the top level of run")
    return "ReportIffOutputCompileAllSelected"


custom("report_run_output", "src/codemodder/codemodder.py", _C15, "report_run_output", "run_output_variant",
       "ReportIffOutputCompileAllSelected", _run_output,
       doc="run: `if argv.output:` CodeTF.build(…, context.compile_results(codemods_to_run)) + write_report; same list given to apply_codemods")


# ---- codetf.py: the field table of every pydantic model, and the validators --------------------------------
_KNOWN_METHODS = {("Finding", "to_unfixed_finding"), ("CodeTF", "build"), ("CodeTF", "write_report")}
_KNOWN_VALIDATORS = {("Change", "validate_lineNumber"), ("Change", "validate_description"), ("Reference", "validate_description")}


def _is_model_validator(fn):
    if len(fn.decorator_list) != 1:
        return False
    return ast.unparse(fn.decorator_list[0]).replace('"', "'") == "model_validator(mode='after')"


def _classes(tree):
    return [s for s in tree.body if isinstance(s, ast.ClassDef)]


def _enum_members(tree):
    enums = {}
    for c in _classes(tree):
        if [ast.unparse(b) for b in c.bases] == ["Enum"]:
            mem = {}
            for s in c.body:
                if _is_docstring(s):
                    continue
                if isinstance(s, ast.Assign) and len(s.targets) == 1 and isinstance(s.targets[0], ast.Name) \
                        and isinstance(s.value, ast.Constant) and isinstance(s.value.value, str):
                    mem[s.targets[0].id] = s.value.value
                else:
                    raise Unrecognised(f"enum {c.name}: unknown member construct `{ast.unparse(s)[:60]}`")
            enums[c.name] = mem
    return enums


def _models(tree, repo):
    enums = _enum_members(tree)
    rows = []
    for c in _classes(tree):
        bases = [ast.unparse(b) for b in c.bases]
        if c.decorator_list or c.keywords:
            raise Unrecognised(f"class {c.name}: decorators/keywords are not modelled")
        if bases == ["Enum"]:
            rows.append((c.name, "Enum", [(k, v, False, ("NoDefault",)) for k, v in enums[c.name].items()]))
            continue
        if bases not in (["BaseModel"], ["Finding"]):
            raise Unrecognised(f"class {c.name}: unknown bases {bases}")
        fields = []
        for s in c.body:
            if _is_docstring(s):
                continue
            if isinstance(s, ast.AnnAssign) and isinstance(s.target, ast.Name) and s.simple:
                ann = ast.unparse(s.annotation)
                optional = False
                if isinstance(s.annotation, ast.Subscript) and ast.unparse(s.annotation.value) == "Optional":
                    optional, ann = True, ast.unparse(s.annotation.slice)
                elif "Optional" in ann or "None" in ann or "|" in ann:
                    raise Unrecognised(f"{c.name}.{s.target.id}: annotation `{ann}` is not modelled")
                if s.value is None:
                    default = ("NoDefault",)
                elif isinstance(s.value, ast.Constant) and s.value.value is None:
                    default = ("DefaultNone",)
                elif isinstance(s.value, ast.List) and not s.value.elts:
                    default = ("DefaultEmptyList",)
                elif isinstance(s.value, ast.Attribute) and isinstance(s.value.value, ast.Name) \
                        and s.value.value.id in enums and s.value.attr in enums[s.value.value.id]:
                    default = ("DefaultEnum", enums[s.value.value.id][s.value.attr])
                else:
                    raise Unrecognised(f"{c.name}.{s.target.id}: default `{ast.unparse(s.value)}` is not modelled")
                fields.append((s.target.id, ann, optional, default))
            elif isinstance(s, ast.FunctionDef):
                if _is_model_validator(s):
                    if (c.name, s.name) not in _KNOWN_VALIDATORS:
                        raise Unrecognised(f"{c.name}.{s.name}: a validator the model does not know")
                elif (c.name, s.name) not in _KNOWN_METHODS:
                    raise Unrecognised(f"{c.name}.{s.name}: a method the model does not know")
            else:
                raise Unrecognised(f"class {c.name}: unknown construct `{ast.unparse(s)[:60]}`")
        rows.append((c.name, bases[0], fields))
    return rows


def _coq_default(d):
    if d[0] == "DefaultEnum":
        return f"(DefaultEnum {coq_str(d[1])})"
    return d[0]


def _print_models(rows):
    out = []
    for name, base, fields in rows:
        fs = "; ".join(f"({coq_str(n)}, {coq_str(t)}, {'true' if o else 'false'}, {_coq_default(tuple(d))})" for n, t, o, d in fields)
        out.append(f"({coq_str(name)}, {coq_str(base)},\n    ({'[' + fs + ']' if fields else '[]'} : list field_row))")
    return "[" + ";\n   ".join(out) + "]"


custom("report_codetf_models", "src/codemodder/codetf.py", _C15, "report_codetf_models", "list model_row", [],
       _models, printer=_print_models,
       doc="every class of codetf.py: base, fields (name, type, Optional?, default) / enum members")


def _validator(tree, cls, name):
    c = find_def(tree, cls)
    if c is None:
        raise Unrecognised(f"class {cls} not found")
    fns = [s for s in c.body if isinstance(s, ast.FunctionDef) and _is_model_validator(s)]
    mine = [f for f in fns if f.name == name]
    if not mine:
        return None
    body = [s for s in mine[0].body if not _is_docstring(s)]
    if len(body) != 2 or ast.unparse(body[1]) != "return self":
        raise Unrecognised(f"{cls}.{name}: body is not `<statement>; return self`")
    return body[0]


def _line_validator(tree, repo):
    s = _validator(tree, "Change", "validate_lineNumber")
    if s is None:
        return ("LineUnchecked",)
    if isinstance(s, ast.If) and not s.orelse and len(s.body) == 1 and isinstance(s.body[0], ast.Raise) \
            and isinstance(s.test, ast.Compare) and ast.unparse(s.test.left) == "self.lineNumber" and len(s.test.ops) == 1 \
            and isinstance(s.test.comparators[0], ast.Constant) and type(s.test.comparators[0].value) is int:
        k = s.test.comparators[0].value
        if isinstance(s.test.ops[0], ast.Lt):
            return ("LineLt", k)
        if isinstance(s.test.ops[0], ast.LtE):
            return ("LineLt", k + 1)
    raise Unrecognised("Change.validate_lineNumber: not `if self.lineNumber < k: raise …`")


def _desc_validator(tree, repo):
    s = _validator(tree, "Change", "validate_description")
    if s is None:
        return ("DescUnchecked",)
    if isinstance(s, ast.If) and not s.orelse and len(s.body) == 1 and isinstance(s.body[0], ast.Raise) \
            and ast.unparse(s.test) == "self.description is not None and (not self.description)":
        return ("DescNonEmptyWhenGiven",)
    raise Unrecognised("Change.validate_description: not `if self.description is not None and not self.description: raise …`")


def _ref_backfill(tree, repo):
    s = _validator(tree, "Reference", "validate_description")
    if s is None:
        return ("RefNoBackfill",)
    if ast.unparse(s) == "self.description = self.description or self.url":
        return ("RefDescOrUrl",)
    raise Unrecognised("Reference.validate_description: not `self.description = self.description or self.url`")


def _print_ctor(v):
    v = tuple(v)
    return v[0] if len(v) == 1 else f"({v[0]} ({v[1]})%Z)"


custom("report_line_validator", "src/codemodder/codetf.py", _C15, "report_line_validator", "line_validator", ("LineLt", 1),
       _line_validator, printer=_print_ctor, doc="Change.validate_lineNumber")
custom("report_desc_validator", "src/codemodder/codetf.py", _C15, "report_desc_validator", "desc_validator", ("DescNonEmptyWhenGiven",),
       _desc_validator, printer=_print_ctor, doc="Change.validate_description")
custom("report_ref_backfill", "src/codemodder/codetf.py", _C15, "report_ref_backfill", "ref_backfill", ("RefDescOrUrl",),
       _ref_backfill, printer=_print_ctor, doc="Reference.validate_description")
