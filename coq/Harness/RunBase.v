(** Helpers for the correspondence check: the harness writes case lists, Coq evaluates model and spec
    on them with vm_compute and prints only the indices of disagreeing cases. *)
From CM Require Export Base.Str.

Definition pair_eqb {A B} (ea : A -> A -> bool) (eb : B -> B -> bool) (x y : A * B) : bool :=
  ea (fst x) (fst y) && eb (snd x) (snd y).
Definition option_eqb {A} (ea : A -> A -> bool) (x y : option A) : bool :=
  match x, y with Some a, Some b => ea a b | None, None => true | _, _ => false end.

Fixpoint bad_indices_from {A} (i : N) (ok : A -> bool) (l : list A) : list N :=
  match l with
  | [] => []
  | x :: r => if ok x then bad_indices_from (N.succ i) ok r else i :: bad_indices_from (N.succ i) ok r
  end.
Definition bad_indices {A} (ok : A -> bool) (l : list A) : list N := bad_indices_from 0 ok l.
