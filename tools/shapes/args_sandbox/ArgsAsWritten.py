class ProcessSandbox:
    def on_result_found(self, original_node, updated_node):
        self.add_needed_import("security", "safe_command")
        self.add_dependency(Security)
        return self.update_call_target(
            updated_node,
            "safe_command",
            new_func="run",
            replacement_args=[cst.Arg(original_node.func), *original_node.args],
        )

