import abc
from typing import Generic, Mapping, Sequence, Set, TypeVar, Union

import libcst as cst
from libcst import matchers
from libcst.codemod import CodemodContext, VisitorBasedCodemodCommand
from libcst.metadata import ParentNodeProvider, PositionProvider

from codemodder.codemods.base_visitor import UtilsMixin
from codemodder.codemods.utils_mixin import NameResolutionMixin
from codemodder.codetf import Change
from codemodder.file_context import FileContext
from codemodder.result import Result

# It seems to me like we actually want two separate bounds instead of a Union but this is what mypy wants
FunctionMatchType = TypeVar("FunctionMatchType", bound=Union[Mapping, Set])


class ImportedCallModifier(
    Generic[FunctionMatchType],
    VisitorBasedCodemodCommand,
    NameResolutionMixin,
    UtilsMixin,
    metaclass=abc.ABCMeta,
):
    METADATA_DEPENDENCIES = (ParentNodeProvider, PositionProvider)

    def __init__(
        self,
        codemod_context: CodemodContext,
        file_context: FileContext,
        matching_functions: FunctionMatchType,
        change_description: str,
        results: list[Result] | None = None,
    ):
        VisitorBasedCodemodCommand.__init__(self, codemod_context)
        self.line_exclude = file_context.line_exclude
        self.line_include = file_context.line_include
        self.matching_functions: FunctionMatchType = matching_functions
        self.change_description = change_description
        self.changes_in_file: list[Change] = []
        self.results = results
        self.file_context = file_context

    def updated_args(self, original_args: Sequence[cst.Arg]):
        return original_args

    @abc.abstractmethod
    def update_attribute(
        self,
        true_name: str,
        original_node: cst.Call,
        updated_node: cst.Call,
        new_args: Sequence[cst.Arg],
    ):
        """Callback to modify tree when the detected call is of the form a.call()"""

    @abc.abstractmethod
    def update_simple_name(
        self,
        true_name: str,
        original_node: cst.Call,
        updated_node: cst.Call,
        new_args: Sequence[cst.Arg],
    ):
        """Callback to modify tree when the detected call is of the form call()"""

    def leave_Call(self, original_node: cst.Call, updated_node: cst.Call):
        pos_to_match = self.node_position(original_node)
        line_number = pos_to_match.start.line
        if self.node_is_selected(
            original_node
        ) and self.filter_by_path_includes_or_excludes(pos_to_match):
            true_name = self.find_base_name(original_node.func)
            if (
                self.is_direct_call_from_imported_module(original_node)
                and true_name
                and true_name in self.matching_functions
            ):
                self.changes_in_file.append(
                    Change(
                        lineNumber=line_number,
                        description=self.change_description,
                        findings=self.file_context.get_findings_for_location(
                            line_number
                        ),
                    )
                )

                new_args = self.updated_args(updated_node.args)

                # has a prefix, e.g. a.call() -> a.new_call()
                if matchers.matches(original_node.func, matchers.Attribute()):
                    return self.update_attribute(
                        true_name, original_node, updated_node, new_args
                    )

                # it is a simple name, e.g. call() -> module.new_call()
                return self.update_simple_name(
                    true_name, original_node, updated_node, new_args
                )

        return updated_node
