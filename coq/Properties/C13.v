(** C13 — line-level include/exclude is honoured and change entries name the edited line.

    Full statement: for all codemods K, files with n single-line candidate sites at arbitrary lines, and all
    subsets E (excluded) or I (included) of those lines written as relative, globbed or absolute `path:line`
    patterns, alone or combined: lines rewritten == permitted sites and {change.lineNumber} == lines rewritten.

    Proved here, for all inputs, about the framework logic every conforming transformer goes through:
      - the decision rule of filter_by_path_includes_or_excludes / match_line: what every variant does
        ([C13_line_filter_common]) and whether it is what the property demands ([C13_line_filter_table], indexed by
        Tables.line_filter_rule; the rule as written is refuted for combined lists: [C13_refuted_exclude_shadows_include]);
      - which lines a pattern list yields for a file in `_process_file`, for the variant the source implements
        ([C13_pattern_reaches_file], indexed by Tables.line_pattern_path_form; the pinned variant is refuted by witness);
      - the default transformer path of Model/Location.v (the model that is run against the real LibcstResultTransformer
        by the C18 join correspondence) hands over exactly the single-line Call/Assign/ClassDef nodes on permitted lines
        and reports one change per node at its start line ([C13_excluded_never_reported], same index).
    NOT a theorem (it is a fact about ~65 transformer classes, each deciding on its own whether to call the filter):
    that codemod K does go through the filter. That is the per-codemod conformance search of harness/c13.py; the
    transformers found to skip the filter are listed in findings/C13.json. *)
From Coq Require Import Strings.String.
From CM Require Import Base.GlobLit Base.Types_Glob Model.Glob Model.LineFilter Spec.GlobSpec Spec.LineFilterSpec
     Proofs.GlobFacts Proofs.LineFilterFacts Generated.Tables.
From CM Require Import Base.Types_Location Proofs.LocationFacts.
From CM Require Model.Location.
Import Location(node, mknode, nid, nkind, nspan, span, mkspan, mkpos, pline, pcol, sstart, send, ltab, mkltab, lfr, line_filter,
  pos_of_span, on_result_found_nodes, reported_changes, ch_line, default_kind, FDefault, KCall).

(** ** The decision table.  What every variant of the rule does ... *)
Theorem C13_line_filter_common : forall v ex inc p,
  (* an excluded line is never selected *)
  (forall l, In l ex -> match_line p l = true -> filter_by_path_includes_or_excludes v ex inc p = false)
  (* no exclusions, some inclusions, the node on none of them: not selected *)
  /\ (ex = [] -> inc <> [] -> (forall l, In l inc -> match_line p l = false) ->
      filter_by_path_includes_or_excludes v ex inc p = false)
  (* no exclusions, the node on an included line: selected *)
  /\ (ex = [] -> forall l, In l inc -> match_line p l = true -> filter_by_path_includes_or_excludes v ex inc p = true)
  (* no line lists at all: selected *)
  /\ filter_by_path_includes_or_excludes v [] [] p = true
  (* a node spanning several lines matches no line *)
  /\ (start_line p <> end_line p -> forall l, match_line p l = false).
Proof.
  intros v ex inc p. split; [| split; [| split; [| split]]].
  - intros l Hin Hm. assert (E : existsb (match_line p) ex = true) by (apply existsb_exists; exists l; split; assumption).
    destruct ex as [| e ex]; [destruct Hin |]. destruct v; unfold filter_by_path_includes_or_excludes; rewrite E; reflexivity.
  - intros -> Hinc Hall. destruct inc as [| i inc]; [congruence |].
    assert (E : existsb (match_line p) (i :: inc) = false).
    { destruct (existsb (match_line p) (i :: inc)) eqn:E; [| reflexivity].
      apply existsb_exists in E. destruct E as [l [Hl Hm]]. rewrite (Hall l Hl) in Hm. discriminate. }
    destruct v; unfold filter_by_path_includes_or_excludes; exact E.
  - intros -> l Hin Hm. destruct inc as [| i inc]; [destruct Hin |].
    assert (E : existsb (match_line p) (i :: inc) = true) by (apply existsb_exists; exists l; split; assumption).
    destruct v; unfold filter_by_path_includes_or_excludes; exact E.
  - destruct v; reflexivity.
  - apply match_line_multiline.
Qed.
Print Assumptions C13_line_filter_common.

(** ... and whether it decides what the property demands: for a node confined to line n, selected <-> n is not excluded
    and (no line of the file is included or n is).  Indexed by the rule the source implements: the repaired rule does;
    the rule as written does only while one of the two lists is empty, and is refuted when they are combined. *)
Definition C13_line_filter_statement (v : lf_rule) : Prop :=
  match v with
  | ExcludeThenInclude =>
      forall ex inc p n, single_line p n -> (filter_by_path_includes_or_excludes v ex inc p = true <-> Permitted ex inc n)
  | ExcludeShadowsInclude =>
      (forall ex inc p n, ex = [] \/ inc = [] -> single_line p n ->
         (filter_by_path_includes_or_excludes v ex inc p = true <-> Permitted ex inc n))
      /\ (exists ex inc p n, single_line p n /\ filter_by_path_includes_or_excludes v ex inc p = true /\ ~ Permitted ex inc n)
  end.
(** the witness: `--path-include a.py:2 --path-exclude a.py:6`, a construct on line 4 *)
Definition w_line4 : pos := ((4, 0), (4, 9))%Z.
Lemma C13_line_filter_all v : C13_line_filter_statement v.
Proof.
  destruct v; cbv beta iota delta [C13_line_filter_statement].
  - split.
    + intros ex inc p n Hor Hs. rewrite (filter_single_shadow p n ex inc Hs), (shadow_permittedb_alone ex inc n Hor).
      apply permittedb_Permitted.
    + exists [6%Z], [2%Z], w_line4, 4%Z. split; [split; reflexivity |]. split; [vm_compute; reflexivity |].
      intros [_ [H | [H | []]]]; discriminate.
  - intros ex inc p n Hs. rewrite (filter_single p n ex inc Hs). apply permittedb_Permitted.
Qed.
Theorem C13_line_filter_table : C13_line_filter_statement line_filter_rule.
Proof. exact (C13_line_filter_all line_filter_rule). Qed.
Print Assumptions C13_line_filter_table.

(** The code as written (whatever the tree now holds): with an exclusion list given, a line that is not included is
    still selected. *)
Theorem C13_refuted_exclude_shadows_include :
  exists ex inc p n, single_line p n /\ ~ In n ex /\ inc <> [] /\ ~ In n inc /\
                     filter_by_path_includes_or_excludes ExcludeShadowsInclude ex inc p = true.
Proof.
  exists [6%Z], [2%Z], w_line4, 4%Z. split; [split; reflexivity |].
  split; [intros [H | []]; discriminate |]. split; [discriminate |]. split; [intros [H | []]; discriminate |].
  vm_compute. reflexivity.
Qed.
Print Assumptions C13_refuted_exclude_shadows_include.

(** ** `path:line` patterns reach the file when written relative to the target *)
Definition w_as_passed : str := lit "/t/proj/b.py".
Definition w_rel : str := lit "b.py".
Definition w_pats : list str := [lit "b.py:2"].

Definition C13_pattern_reaches_file_statement (v : path_form) : Prop :=
  match v with
  | Both =>
      (* exactly the lines denoted by the patterns, matched against the relative path or the path as passed *)
      (forall as_passed rel pats lines, process_file_lines v as_passed (Some rel) pats = Some lines ->
         forall n, In n lines <-> Denotes pats as_passed rel n)
      (* in particular `g:l` with g matching the target-relative path yields line l *)
      /\ (forall as_passed rel pats lines g l n,
            process_file_lines v as_passed (Some rel) pats = Some lines ->
            In (g ++ 58%N :: l) pats -> has_colon g = false -> has_colon l = false -> parse_int l = Some n ->
            GlobMatches g rel -> In n lines)
  | AsPassedAbsolute =>
      exists as_passed rel pats g l n,
        In (g ++ 58%N :: l) pats /\ has_colon g = false /\ has_colon l = false /\ parse_int l = Some n /\
        GlobMatches g rel /\ process_file_lines v as_passed (Some rel) pats = Some []
  end.
Lemma C13_pattern_reaches_file_all v : C13_pattern_reaches_file_statement v.
Proof.
  destruct v; simpl.
  - exists w_as_passed, w_rel, w_pats, (lit "b.py"), (lit "2"), 2%Z.
    repeat split; try (vm_compute; reflexivity).
    + left. vm_compute. reflexivity.
    + apply fnmatch_GlobMatches. vm_compute. reflexivity.
  - split.
    + exact process_file_lines_both.
    + intros as_passed rel pats lines g l n H Hin Hg Hl Hp Hm.
      apply (process_file_lines_both _ _ _ _ H n). exists (g ++ 58%N :: l), g, l.
      repeat split; [exact Hin | apply split_on_one_sep; assumption | exact Hp | right; exact Hm].
Qed.
Theorem C13_pattern_reaches_file : C13_pattern_reaches_file_statement line_pattern_path_form.
Proof. exact (C13_pattern_reaches_file_all line_pattern_path_form). Qed.
Print Assumptions C13_pattern_reaches_file.

(** Whatever the variant, no line appears that no pattern denotes (nothing is excluded/included by accident). *)
Theorem C13_no_spurious_line : forall v as_passed rel pats lines,
  process_file_lines v as_passed (Some rel) pats = Some lines -> forall n, In n lines -> Denotes pats as_passed rel n.
Proof.
  intros [] as_passed rel pats lines H n Hin.
  - apply (process_file_lines_aspassed _ _ _ _ H n) in Hin. destruct Hin as [p [g [l [H1 [H2 [H3 H4]]]]]].
    exists p, g, l. repeat split; try assumption. left. exact H4.
  - apply (process_file_lines_both _ _ _ _ H n). exact Hin.
Qed.
Print Assumptions C13_no_spurious_line.

(** ** A transformer on the default leave_Call/leave_Assign/leave_ClassDef path (Model/Location.v: the functions that are in
    correspondence with the real LibcstResultTransformer, C18 join_model_ok; `_new_or_updated_node` calls
    `node_is_selected`, shape transformer_join) without detector results: the nodes it hands to on_result_found are exactly
    the Call/Assign/ClassDef nodes on permitted lines, and it reports one change per such node, at the node's start line. *)
Definition one_line (n : node) : Prop := pline (sstart (nspan n)) = pline (send (nspan n)).
Definition C13_transformer_statement (v : lf_rule) : Prop :=
  forall T, lfr T = v -> forall a ex inc nodes, (forall n, In n nodes -> one_line n) ->
    (match v with ExcludeThenInclude => True | ExcludeShadowsInclude => ex = [] \/ inc = [] end) ->
    (forall n, In n (on_result_found_nodes T FDefault None ex inc nodes) <->
               In n nodes /\ default_kind (nkind n) = true /\ Permitted ex inc (pline (sstart (nspan n))))
    /\ map ch_line (reported_changes T a FDefault None ex inc nodes) =
       map (fun n => pline (sstart (nspan n))) (on_result_found_nodes T FDefault None ex inc nodes).
Lemma C13_transformer_all v : C13_transformer_statement v.
Proof.
  intros T HT a ex inc nodes Hone Hguard. split; [| apply changes_of_join].
  intros n. unfold on_result_found_nodes. rewrite filter_In, Bool.andb_true_iff, select_no_detector.
  assert (Hiff : In n nodes -> (line_filter T ex inc (nspan n) = true <-> Permitted ex inc (pline (sstart (nspan n))))).
  { intros Hin. unfold line_filter. rewrite HT.
    assert (Hs : single_line (pos_of_span (nspan n)) (pline (sstart (nspan n)))).
    { split; [reflexivity |]. unfold end_line, pos_of_span. simpl. symmetry. apply (Hone n Hin). }
    destruct v.
    - rewrite (filter_single_shadow _ _ ex inc Hs), (shadow_permittedb_alone ex inc _ Hguard). apply permittedb_Permitted.
    - rewrite (filter_single _ _ ex inc Hs). apply permittedb_Permitted. }
  split.
  - intros [Hin [Hk Hf]]. split; [exact Hin |]. split; [exact Hk |]. apply (Hiff Hin). exact Hf.
  - intros [Hin [Hk Hp]]. split; [exact Hin |]. split; [exact Hk |]. apply (Hiff Hin). exact Hp.
Qed.
Theorem C13_excluded_never_reported : C13_transformer_statement line_filter_rule.
Proof. exact (C13_transformer_all line_filter_rule). Qed.
Print Assumptions C13_excluded_never_reported.

(** ** Non-vacuity and the documented corner: a node spanning lines 2-3 is not excluded by `:2` and is reported at 2 *)
Example C13_example_table :
  let cands := [((2, 0), (2, 9)); ((4, 0), (4, 9)); ((6, 4), (6, 20))]%Z in
  forall v,
  reported v [4%Z] [] cands = [2; 6]%Z /\ reported v [] [4%Z] cands = [4%Z] /\ reported v [] [] cands = [2; 4; 6]%Z
  /\ reported v [2%Z] [] [((2, 0), (3, 5))]%Z = [2%Z]
  (* the combination: include line 2, exclude line 6 *)
  /\ reported ExcludeThenInclude [6%Z] [2%Z] cands = [2%Z] /\ reported ExcludeShadowsInclude [6%Z] [2%Z] cands = [2; 4]%Z.
Proof. intros cands v. destruct v; vm_compute; repeat split; reflexivity. Qed.

(** the transformer statement is not vacuous: three one-line calls, include 2, exclude 6, repaired rule *)
Example C13_example_transformer :
  let T := mkltab [-1; 0]%Z [-1; 0]%Z (-1, 1)%Z ExcludeThenInclude in
  let nodes := [mknode 1 KCall (mkspan (mkpos 2 5) (mkpos 2 16)); mknode 2 KCall (mkspan (mkpos 4 5) (mkpos 4 16));
                mknode 3 KCall (mkspan (mkpos 6 5) (mkpos 6 16))]%Z in
  (forall n, In n nodes -> one_line n) /\
  map nid (on_result_found_nodes T FDefault None [6]%Z [2]%Z nodes) = [1%N] /\
  map ch_line (reported_changes T ByLineRange FDefault None [6]%Z [2]%Z nodes) = [2]%Z.
Proof. split; [intros n [<- | [<- | [<- | []]]]; reflexivity | split; vm_compute; reflexivity]. Qed.

Example C13_example_patterns :
  process_file_lines Both (lit "/t/proj/sub/b.py") (Some (lit "sub/b.py"))
    [lit "sub/b.py:2"; lit "*/b.py:4"; lit "/t/proj/sub/b.py:6"; lit "a.py:8"; lit "sub/b.py"; lit "s*:2"; lit "sub/b.py:1:2"]
  = Some [4; 6; 2]%Z
  /\ process_file_lines AsPassedAbsolute (lit "/t/proj/sub/b.py") (Some (lit "sub/b.py"))
    [lit "sub/b.py:2"; lit "*/b.py:4"; lit "/t/proj/sub/b.py:6"; lit "a.py:8"]
  = Some [4; 6]%Z
  /\ process_file_lines Both (lit "/t/proj/b.py") (Some (lit "b.py")) [lit "b.py:x"] = None.
Proof. vm_compute. repeat split; reflexivity. Qed.
