From CM Require Import Model.JwtOpts Spec.JwtOptsSpec Proofs.ArgsFacts.
From Coq Require Import Lia.
From Coq Require Strings.String.
Import String.StringSyntax.

Lemma is_verify_keyword_spec d :
  is_verify_keyword d = if is_spread d then None else Some (is_verify d).
Proof. destruct d; reflexivity. Qed.

(** raises exactly when a spread entry is present; otherwise it is the documented edit, entry by entry *)
Lemma replace_opts_dict_spec els :
  replace_opts_dict els = if existsb is_spread els then None else Some (spec_opts els).
Proof.
  induction els as [|d r IH]; [reflexivity|].
  simpl. rewrite is_verify_keyword_spec, IH. unfold spec_elem.
  destruct (is_spread d); simpl; [reflexivity|].
  destruct (existsb is_spread r); reflexivity.
Qed.

Lemma replace_opts_dict_frame els r : replace_opts_dict els = Some r ->
  length r = length els /\
  (forall i d, nth_error els i = Some d -> nth_error r i = Some (spec_elem d)) /\
  (forall i d, nth_error els i = Some d -> is_verify d = false -> nth_error r i = Some d).
Proof.
  rewrite replace_opts_dict_spec. destruct (existsb is_spread els); [discriminate|].
  intros H. inversion H; subst. unfold spec_opts. split; [apply map_length|].
  assert (N : forall i d, nth_error els i = Some d -> nth_error (map spec_elem els) i = Some (spec_elem d)).
  { intros i d Hi. rewrite nth_error_map, Hi. reflexivity. }
  split; [exact N|]. intros i d Hi Hv. rewrite (N i d Hi). unfold spec_elem. rewrite Hv. reflexivity.
Qed.

Lemma cnt_cons1 x l t : cnt (x :: l) t = cnt [x] t + cnt l t.
Proof. change (x :: l) with ([x] ++ l). apply cnt_app. Qed.
Definition vv (d : delem) : list tok :=
  match d with DKey _ _ _ v => if is_verify d then toks v else [] | DSpread _ _ => [] end.
Lemma elem_count d t :
  cnt (toks_delem (spec_elem d)) t + cnt (vv d) t
  = cnt (toks_delem d) t + (if is_verify d then 1 else 0) * cnt [TId (S_ "True")] t.
Proof.
  destruct d as [s k l v|l e].
  - unfold spec_elem, vv, is_verify. destruct (s && contains (S_ "verify") k).
    + cbn [rebuilt toks_delem toks].
      rewrite (cnt_cons1 (TConst k) [TId (S_ "True")]), (cnt_cons1 (TConst k) (toks v)).
      set (a := cnt [TConst k] t). set (b := cnt [TId (S_ "True")] t). set (c := cnt (toks v) t). lia.
    + change (cnt [] t) with O. lia.
  - unfold spec_elem, vv, is_verify. change (cnt [] t) with O. lia.
Qed.
Lemma verify_values_cons d r : verify_values (d :: r) = vv d ++ verify_values r.
Proof. reflexivity. Qed.
Lemma n_verify_cons d r : n_verify (d :: r) = (if is_verify d then 1 else 0) + n_verify r.
Proof. unfold n_verify. simpl. destruct (is_verify d); reflexivity. Qed.

(** token delta of the documented edit: one `True` per verify key comes in, only old values of verify keys go out *)
Lemma spec_opts_count els t :
  cnt (toks_dict (spec_opts els)) t + cnt (verify_values els) t
  = cnt (toks_dict els) t + n_verify els * cnt [TId (S_ "True")] t.
Proof.
  induction els as [|d r IH]; [reflexivity|].
  change (toks_dict (spec_opts (d :: r))) with (toks_delem (spec_elem d) ++ toks_dict (spec_opts r)).
  change (toks_dict (d :: r)) with (toks_delem d ++ toks_dict r).
  rewrite verify_values_cons, n_verify_cons, !cnt_app. pose proof (elem_count d t) as E.
  set (b := cnt [TId (S_ "True")] t) in *. nia.
Qed.

Definition jother (j : jwt_arg) : bool := match j with JOther _ => true | _ => false end.
Lemma replace_options_arg_frame args : forall r, replace_options_arg args = Some r ->
  length r = length args /\
  (forall i a, nth_error args i = Some (JOther a) -> nth_error r i = Some (JOther a)) /\
  (forall i sp lay els, nth_error args i = Some (JOptions sp lay els) ->
     existsb is_spread els = false /\ nth_error r i = Some (JOptions sp 0 (spec_opts els))).
Proof.
  induction args as [|j l IH]; intros r H; simpl in H.
  - inversion H; subst. split; [reflexivity|]. split; intros i; destruct i; discriminate.
  - destruct j as [a|sp lay els].
    + destruct (replace_options_arg l) as [r'|]; [|discriminate]. inversion H; subst.
      destruct (IH r' eq_refl) as [L [A B]]. split; [simpl; f_equal; exact L|]. split.
      * intros [|i] b Hi; simpl in *; [exact Hi|apply A; exact Hi].
      * intros [|i] sp lay els Hi; simpl in *; [discriminate|apply (B i sp lay els Hi)].
    + rewrite replace_opts_dict_spec in H. destruct (existsb is_spread els) eqn:E; [discriminate|].
      destruct (replace_options_arg l) as [r'|]; [|discriminate]. inversion H; subst.
      destruct (IH r' eq_refl) as [L [A B]]. split; [simpl; f_equal; exact L|]. split.
      * intros [|i] b Hi; simpl in *; [discriminate|apply A; exact Hi].
      * intros [|i] sp' lay' els' Hi; simpl in *; [inversion Hi; subst; split; [exact E|reflexivity]|apply (B i sp' lay' els' Hi)].
Qed.
