from codemodder.codemods.libcst_transformer import NewArg
from core_codemods.api import Metadata, Reference, ReviewGuidance, SimpleCodemod


class HardenRuamel(SimpleCodemod):
    metadata = Metadata(
        name="harden-ruamel",
        summary="Use `typ='safe'` in ruamel.yaml() Calls",
        review_guidance=ReviewGuidance.MERGE_WITHOUT_REVIEW,
        references=[
            Reference(
                url="https://owasp.org/www-community/vulnerabilities/Deserialization_of_untrusted_data"
            ),
        ],
    )
    change_description = (
        "Ensures all unsafe calls to ruamel.yaml.YAML use `typ='safe'`."
    )
    detector_pattern = """
            rules:
                - pattern-either:
                  - patterns:
                    - pattern: ruamel.yaml.YAML(typ="unsafe", ...)
                    - pattern-inside: |
                        import ruamel
                        ...
                  - patterns:
                    - pattern: ruamel.yaml.YAML(typ="base", ...)
                    - pattern-inside: |
                        import ruamel
                        ...

        """

    def on_result_found(self, original_node, updated_node):
        new_args = self.replace_args(
            original_node, [NewArg(name="typ", value='"safe"', add_if_missing=False)]
        )
        return self.update_arg_target(updated_node, new_args)
