from typing import Optional, Union

import libcst as cst

from codemodder.codemods.utils_mixin import AncestorPatternsMixin, NameResolutionMixin
from codemodder.dependency import FlaskWTF
from core_codemods.api import Metadata, Reference, ReviewGuidance, SimpleCodemod


class FlaskEnableCSRFProtection(
    SimpleCodemod,
    NameResolutionMixin,
    AncestorPatternsMixin,
):
    metadata = Metadata(
        name="flask-enable-csrf-protection",
        summary="Enable CSRF protection globally for a Flask app.",
        review_guidance=ReviewGuidance.MERGE_AFTER_REVIEW,
        references=[
            Reference(url="https://owasp.org/www-community/attacks/csrf"),
            Reference(url="https://flask-wtf.readthedocs.io/en/1.2.x/csrf/"),
        ],
    )

    change_description = "Add CSRFProtect module to harden the app"

    def leave_SimpleStatementSuite(
        self,
        original_node: cst.SimpleStatementSuite,
        updated_node: cst.SimpleStatementSuite,
    ) -> cst.BaseSuite:
        if self.filter_by_path_includes_or_excludes(self.node_position(original_node)):
            new_stmts = self._get_new_stmts(original_node)
            if new_stmts:
                self.add_needed_import("flask_wtf.csrf", "CSRFProtect")
                self.add_dependency(FlaskWTF)
                self.report_change(original_node)
                return updated_node.with_changes(body=[*original_node.body, *new_stmts])
        return updated_node

    def leave_SimpleStatementLine(
        self,
        original_node: cst.SimpleStatementLine,
        updated_node: cst.SimpleStatementLine,
    ) -> Union[
        cst.BaseStatement, cst.FlattenSentinel[cst.BaseStatement], cst.RemovalSentinel
    ]:
        if self.filter_by_path_includes_or_excludes(self.node_position(original_node)):
            new_stmts = self._get_new_stmts(original_node)
            if new_stmts:
                self.add_needed_import("flask_wtf.csrf", "CSRFProtect")
                self.add_dependency(FlaskWTF)
                self.report_change(original_node)
                if len(original_node.body) > 1:
                    return updated_node.with_changes(
                        body=[*original_node.body, *new_stmts]
                    )
                return cst.FlattenSentinel(
                    (updated_node, cst.SimpleStatementLine(body=[new_stmts[0]]))
                )
        return updated_node

    def _get_new_stmts(self, original_node):
        new_stmts = []
        for stmt in original_node.body:
            if maybe_small_stmt := self._handle_statement(stmt):
                new_stmts.append(maybe_small_stmt)
        return new_stmts

    def _handle_statement(self, stmt) -> Optional[cst.BaseSmallStatement]:
        match stmt:
            case cst.Assign(value=cst.Call() as call) as assign:
                base_name = self.find_base_name(call)
                if base_name and base_name == "flask.Flask":
                    named_targets = self._find_named_targets(assign)
                    flows_into_csrf_protect = map(
                        self._flows_into_csrf_protect, named_targets
                    )
                    if named_targets and not all(flows_into_csrf_protect):
                        new_stmt = cst.parse_statement(
                            f"csrf_{named_targets[0].value} = CSRFProtect({named_targets[0].value})"
                        )
                        new_stmt = cst.ensure_type(new_stmt, cst.SimpleStatementLine)
                        return new_stmt.body[0]
        return None

    def _find_named_targets(self, node: cst.Assign) -> list[cst.Name]:
        all_names = []
        for at in node.targets:
            match at:
                case cst.AssignTarget(target=cst.Name() as target):
                    all_names.append(target)
        return all_names

    def _flows_into_csrf_protect(self, name: cst.Name) -> bool:
        accesses = self.find_accesses(name)
        for access in accesses:
            maybe_arg = self.is_argument_of_call(access.node)
            maybe_call = self.get_parent(maybe_arg) if maybe_arg else None
            if (
                maybe_call
                and self.find_base_name(maybe_call) == "flask_wtf.csrf.CSRFProtect"
            ):
                return True
        return False
