import libcst as cst
from libcst.codemod.visitors import GatherUnusedImportsVisitor
from libcst.metadata import (
    ParentNodeProvider,
    PositionProvider,
    QualifiedNameProvider,
    ScopeProvider,
)

from codemodder.codemods.check_annotations import is_disabled_by_annotations
from codemodder.codemods.transformations.remove_unused_imports import (
    RemoveUnusedImportsTransformer,
)
from core_codemods.api import Metadata, ReviewGuidance, SimpleCodemod


class RemoveUnusedImports(SimpleCodemod):
    metadata = Metadata(
        name="unused-imports",
        summary="Remove Unused Imports",
        review_guidance=ReviewGuidance.MERGE_WITHOUT_REVIEW,
    )
    change_description = "Unused import."

    METADATA_DEPENDENCIES = (
        PositionProvider,
        ScopeProvider,
        QualifiedNameProvider,
        ParentNodeProvider,
    )

    IGNORE_ANNOTATIONS = ["unused-import", "F401", "W0611"]

    def transform_module_impl(self, tree: cst.Module) -> cst.Module:
        # Do nothing in __init__.py files
        if self.file_context.file_path.name == "__init__.py":
            return tree
        gather_unused_visitor = GatherUnusedImportsVisitor(self.context)
        tree.visit(gather_unused_visitor)
        # filter the gathered imports by line excludes/includes
        filtered_unused_imports = set()
        for import_alias, importt in gather_unused_visitor.unused_imports:
            pos = self.get_metadata(PositionProvider, import_alias)
            if self.filter_by_path_includes_or_excludes(pos):
                if not is_disabled_by_annotations(
                    importt,
                    self.metadata,  # type: ignore
                    messages=self.IGNORE_ANNOTATIONS,
                ):
                    self.add_change_from_position(pos, self.change_description)
                    filtered_unused_imports.add((import_alias, importt))
        return tree.visit(RemoveUnusedImportsTransformer(filtered_unused_imports))

    def filter_by_path_includes_or_excludes(self, pos_to_match) -> bool:
        """
        Returns True if the node, whose position in the file is pos_to_match, matches any of the lines specified in the path-includes or path-excludes flags.
        """
        # excludes takes precedence if defined
        if self.line_exclude:
            return not any(match_line(pos_to_match, line) for line in self.line_exclude)
        if self.line_include:
            return any(match_line(pos_to_match, line) for line in self.line_include)
        return True


def match_line(pos, line):
    return pos.start.line == line and pos.end.line == line
