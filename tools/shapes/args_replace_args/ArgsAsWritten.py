class LibcstResultTransformer:
    def replace_args(self, original_node, args_info):
        """
        Iterate over the args in original_node and replace each arg
        with any matching arg in `args_info`.

        :param original_node: libcst node with args attribute.
        :param list args_info: List of NewArg
        """
        assert hasattr(original_node, "args")
        assert all(
            isinstance(arg, NewArg) for arg in args_info
        ), "`args_info` must contain `NewArg` types."
        new_args = []

        for arg in original_node.args:
            arg_name, replacement_val, idx = _match_with_existing_arg(arg, args_info)
            if arg_name is not None:
                new = self.make_new_arg(replacement_val, arg_name, arg)
                del args_info[idx]
            else:
                new = arg
            new_args.append(new)

        for arg_name, replacement_val, add_if_missing in args_info:
            if add_if_missing:
                new = self.make_new_arg(replacement_val, arg_name)
                new_args.append(new)

        return new_args

    def make_new_arg(self, value, name=None, existing_arg=None):
        if name is None:
            # Make a positional argument
            return cst.Arg(
                value=cst.parse_expression(value),
            )

        # make a keyword argument
        equal = (
            existing_arg.equal
            if existing_arg
            else cst.AssignEqual(
                whitespace_before=cst.SimpleWhitespace(""),
                whitespace_after=cst.SimpleWhitespace(""),
            )
        )
        return cst.Arg(
            keyword=cst.Name(value=name),
            value=cst.parse_expression(value),
            equal=equal,
        )

def _match_with_existing_arg(arg, args_info):
    """
    Given an `arg` and a list of arg info, determine if any of the names in arg_info match the arg.
    """
    for idx, (arg_name, replacement_val, _) in enumerate(args_info):
        if matchers.matches(arg.keyword, matchers.Name(arg_name)):
            return arg_name, replacement_val, idx
    return None, None, None

