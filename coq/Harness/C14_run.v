(** Checkers of the C14 correspondence: [*_model_ok] = the model reproduces what the implementation did,
    [*_spec_ok] = what the implementation did satisfies the reference spec. *)
From CM Require Import Harness.RunBase Model.Manifest Spec.ManifestSpec Generated.Tables.

Definition mkdeps (l : list (str * str)) : list dep := map (fun p => {| dname := fst p; dline := snd p |}) l.

(** observed result: kind 0 = None, 1 = exception, 2 = changeset (with the lineNumber of its changes) *)
Definition obs := (N * list N * str)%type.
Definition wres_matches (r : wres) (kind : N) (nums : list N) (check_nums : bool) : bool :=
  match r with
  | WNone => N.eqb kind 0
  | WCrash => N.eqb kind 1
  | WSome l => N.eqb kind 2 && (negb check_nums || list_eqb N.eqb l nums)
  end.

(* ---- requirements.txt ------------------------------------------------------------------------- *)
(** (text before, names the store holds, reference names, dependencies (name, line), dry_run, observed) *)
Definition req_case := (str * list str * list str * list (str * str) * bool * obs)%type.

Definition req_model_ok (c : req_case) : bool :=
  let '(text, declared, _, deps, dry, (kind, nums, after)) := c in
  let '(r, a) := req_write requirement_name_cmp req_writer_guard dry text declared (mkdeps deps) in
  wres_matches r kind nums true && str_eqb a after.

Definition req_spec_with (norm : str -> str) (c : req_case) : bool :=
  let '(text, _, declared_ref, deps, dry, (kind, _, after)) := c in
  let needed := needed_spec (map canon declared_ref) (mkdeps deps) in
  match needed with
  | [] => N.eqb kind 0 && str_eqb after text
  | _ => N.eqb kind 2 && str_eqb after (if dry then text else req_after_spec (norm text) needed)
  end.
Definition req_spec_ok : req_case -> bool := req_spec_with (fun t => t).
(** the same demand on the newline-normalised text: holds exactly when only the line endings were rewritten *)
Definition req_spec_ok_mod_nl : req_case -> bool := req_spec_with univ_nl.

(** str.splitlines + _clean_lines: (decoded text, the set the implementation computed) *)
Definition clean_case := (str * list str)%type.
Definition subset_str (a b : list str) : bool := forallb (fun x => mem_str x b) a.
Definition clean_model_ok (c : clean_case) : bool :=
  let '(text, observed) := c in
  let m := clean_lines (splitlines text) in subset_str m observed && subset_str observed m.

(* ---- setup.cfg -------------------------------------------------------------------------------- *)
(** (text, configparser's install_requires value, names the store holds, reference names, dependencies, dry_run,
     reference index of the last dependency line (newline-separated form), observed) *)
Definition cfg_case := (str * option str * list str * list str * list (str * str) * bool * option N * obs)%type.

Definition cfg_model_ok (c : cfg_case) : bool :=
  let '(text, defined, declared, _, deps, dry, _, (kind, _, after)) := c in
  let '(r, a) := cfg_write requirement_name_cmp cfg_last_line_form cfg_writer_guard dry text defined declared (mkdeps deps) in
  wres_matches r kind [] false && str_eqb a after.

Definition cfg_spec_with (norm : str -> str) (c : cfg_case) : bool :=
  let '(text, _, _, declared_ref, deps, dry, kref, (kind, _, after)) := c in
  let needed := needed_spec (map canon declared_ref) (mkdeps deps) in
  match needed, kref with
  | [], _ => N.eqb kind 0 && str_eqb after text
  | _, None => true    (* no newline-separated block located by the reference scan: judged by the re-parse only *)
  | _, Some k =>
      (* the new lines follow line k, everything else is untouched; a last line without newline may be terminated,
         and MUST be when it is line k itself (else the first new requirement is glued to it) *)
      let L := readlines_lf (norm text) in
      let T := match fix_last L with Some l => l | None => L end in
      N.eqb kind 2 &&
      (if dry then str_eqb after text
       else str_eqb after (writelines (cfg_after_spec T (N.to_nat k) needed))
            || ((S (N.to_nat k) <? length L)%nat && str_eqb after (writelines (cfg_after_spec L (N.to_nat k) needed))))
  end.
Definition cfg_spec_ok : cfg_case -> bool := cfg_spec_with (fun t => t).
Definition cfg_spec_ok_mod_nl : cfg_case -> bool := cfg_spec_with univ_nl.
(** the guard of C14_cfg_insert_after_last, evaluated on the case (for classification) *)
Definition cfg_guard_unique (c : cfg_case) : bool :=
  let '(text, _, _, _, _, _, kref, _) := c in
  match kref with Some k => unique_stripped (readlines text) (N.to_nat k) | None => true end.

(* ---- process_dependencies ---------------------------------------------------------------------- *)
(** (what each store's writer answers (changeset?), has dependencies, indices of the manifests that changed,
     notification observed: 0 none, 1 failed, 2+i added to store i) *)
Definition loop_case := (list bool * bool * list N * N)%type.
Definition note_code (n : notification) : N :=
  match n with NoNotice => 0 | FailedNotice => 1 | AddedTo s => 2 + N.of_nat s end.
Definition loop_model_ok (c : loop_case) : bool :=
  let '(outs, has, changed, note) := c in
  let '(recd, n) := process_dependencies dep_loop_form has outs in
  list_eqb N.eqb (map N.of_nat recd) changed && N.eqb (note_code n) note.
(** spec: at most one manifest changes — the first that can take it; none => failed notice *)
Definition loop_spec_ok (c : loop_case) : bool :=
  let '(outs, has, changed, note) := c in
  if has then
    match pd_loop FirstWinsBreak O outs with
    | [] => match changed with [] => N.eqb note 1 | _ => false end
    | s :: _ => list_eqb N.eqb changed [N.of_nat s] && N.eqb note (2 + N.of_nat s)
    end
  else match changed with [] => N.eqb note 0 | _ => false end.

(* ---- several codemods over the shared stores ---------------------------------------------------- *)
(** (stores: names held, does add_to_file ever yield a changeset, names refused although not held;
     the dependencies of each codemod, in execution order;
     observed per codemod: indices of the manifests that changed, notification code) *)
Definition run_case := (list (list str * bool * list str) * list (list (str * str)) * list (list N * N))%type.

Definition mkstores (l : list (list str * bool * list str)) : stores :=
  fun i => match nth_error l i with
           | Some (d, w, r) => {| st_declared := d; st_writable := w; st_refused := r |}
           | None => {| st_declared := []; st_writable := false; st_refused := [] |}
           end.

Definition run_model_ok (c : run_case) : bool :=
  let '(sts, cms, observed) := c in
  let deps := map mkdeps cms in
  let '(ls, _) := run_codemods requirement_name_cmp dep_loop_form (seq 0 (length sts)) deps (mkstores sts) in
  list_eqb (pair_eqb (list_eqb N.eqb) N.eqb)
           (map (fun dl => (map N.of_nat (recorded_of (snd dl)), note_code (notice_of (fst dl) (snd dl)))) (List.combine deps ls))
           observed.

(** spec (property text): a package declared anywhere in the project — at the start or added earlier in this run —
    is not added again and is not reported as a failure; otherwise exactly the first manifest able to take it
    changes and is named; when none can, nothing changes and the failed notice is given. *)
Fixpoint first_able (i : N) (sts : list (list str * bool * list str)) (needed : list dep) : option N :=
  match sts with
  | [] => None
  | (_, w, r) :: rest =>
      if w && forallb (fun d => negb (mem_str (dname d) r)) needed then Some i else first_able (N.succ i) rest needed
  end.
Fixpoint run_spec_from (sts : list (list str * bool * list str)) (seen : list str)
         (cms : list (list dep)) (observed : list (list N * N)) : bool :=
  match cms, observed with
  | [], [] => true
  | deps :: cr, (changed, note) :: orest =>
      let needed := needed_spec seen deps in
      match deps, needed with
      | [], _ => (match changed with [] => N.eqb note 0 | _ => false end) && run_spec_from sts seen cr orest
      | _, [] => (match changed with [] => negb (N.eqb note 1) | _ => false end) && run_spec_from sts seen cr orest
      | _, _ =>
          match first_able 0 sts needed with
          | Some i => list_eqb N.eqb changed [i] && N.eqb note (2 + i)
                      && run_spec_from sts (map (fun d => canon (dname d)) needed ++ seen) cr orest
          | None => (match changed with [] => N.eqb note 1 | _ => false end) && run_spec_from sts seen cr orest
          end
      end
  | _, _ => false
  end.
Definition run_spec_ok (c : run_case) : bool :=
  let '(sts, cms, observed) := c in
  run_spec_from sts (map canon (flat_map (fun s => fst (fst s)) sts)) (map mkdeps cms) observed.

(* ---- what the known-finding classes of setup.cfg PREDICT (classification is by observation, not by input shape) -- *)
(** kf_setupcfg_dupline: the new lines sit after the FIRST line whose stripped text equals that of line k, an earlier line. *)
Definition cfg_dupline_predicted (c : cfg_case) : bool :=
  let '(text, _, _, declared_ref, deps, _, kref, (_, _, after)) := c in
  let needed := needed_spec (map canon declared_ref) (mkdeps deps) in
  match kref with
  | Some k =>
      let L := cfg_lines cfg_last_line_form text in
      match index_of (strip (nth (N.to_nat k) L [])) (map strip L) with
      | Some j => (j <? N.to_nat k)%nat && str_eqb after (writelines (cfg_after_spec L j needed))
      | None => false
      end
  | None => false
  end.

(** kf_setupcfg_inline_list: the value is on the key line and the file now has `, dep1,[,dep2,]` appended to that line. *)
Definition cfg_inline_predicted (c : cfg_case) : bool :=
  let '(text, defined, declared, _, deps, _, _, (_, _, after)) := c in
  match defined with
  | Some df =>
      (length (split_on LF df) =? 1)%nat &&
      match cfg_build_new_lines (cfg_lines cfg_last_line_form text) df
                                (add_deps requirement_name_cmp (mkdeps deps) declared) with
      | BLines false nl => str_eqb after (writelines nl)
      | _ => false
      end
  | None => false
  end.
