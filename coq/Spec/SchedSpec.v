(** What C11 demands of one codemod over a list of files, said without any schedule:
    every listed file ends with what its own pipeline makes of its ORIGINAL text, every other path is
    untouched, and the aggregates are the per-file results concatenated in the order of the list. *)
From CM Require Export Model.Sched.

Definition final_content (T : transformer) (fnd : path -> findings) (fs0 : fsys) (p : path) : option content :=
  match fst (T p (fnd p) (lookup fs0 p)) with Some c => Some c | None => lookup fs0 p end.

Definition spec_fs (files : list path) (T : transformer) (fnd : path -> findings) (fs0 : fsys) (p : path) : option content :=
  if mem_str p files then final_content T fnd fs0 p else lookup fs0 p.

Definition spec_merged (files : list path) (T : transformer) (fnd : path -> findings) (fs0 : fsys) : fres :=
  fold_left fres_add (map (fun p => snd (T p (fnd p) (lookup fs0 p))) files) fres_empty.

(** a detector that looks at one file at a time *)
Definition sibling_independent (D : detector) : Prop :=
  forall fs fs' p, lookup fs p = lookup fs' p -> D fs p = D fs' p.

(** the project reduced to the single file [f] *)
Definition only_file (fs : fsys) (f : path) : fsys :=
  match lookup fs f with Some c => [(f, c)] | None => [] end.

(** default / SAST selection said over the entry-point sequence alone *)
Definition spec_run_order (eps : list entry_point) (excluded : list str) (sast_only : bool) : list str :=
  match_default excluded sast_only (flat_map snd (dedup_eps eps)).
