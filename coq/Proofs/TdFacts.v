(** Soundness of top-down transformers ([td f], Model/Rewrites.v): if the node function preserves evaluation at every node
    where it answers (under the per-node guard), so does the traversal; and the two kernels built on it:
    fix-empty-sequence-comparison and literal-or-new-object-identity. *)
From CM Require Import Model.MiniPy Model.PySem Model.Rewrites Spec.RewritesSpec Proofs.PySemFacts.

Lemma tvisit_list_fix f rho es :
  (fix vs (es : list expr) : list (env * expr) := match es with [] => [] | a :: t => tvisit f rho a ++ vs t end) es
  = flat_map (tvisit f rho) es.
Proof. induction es as [|a t IH]; cbn; [reflexivity|]. rewrite IH. reflexivity. Qed.
Lemma tvisit_cmp_fix f rho rest :
  (fix go (rs : list (cmpop * expr)) : list (env * expr) :=
     match rs with [] => [] | (_, b) :: t => tvisit f rho b ++ go t end) rest
  = flat_map (fun cb => tvisit f rho (snd cb)) rest.
Proof. induction rest as [|[o b] t IH]; cbn; [reflexivity|]. rewrite IH. reflexivity. Qed.

Section TdSound.
  Variable f : expr -> option expr.
  Variable ok : env -> expr -> bool.
  Hypothesis f_sound : forall rho n e', f n = Some e' -> ok rho n = true -> eval rho e' = eval rho n.
  Hypothesis f_gen : forall p elt x it, f (EGen p elt x it) = None.
  Hypothesis f_not_gen : forall n e', f n = Some e' -> is_gen n = false -> is_gen e' = false.

  Lemma td_is_gen e : is_gen (td f e) = is_gen e.
  Proof.
    destruct e; cbn [td]; try (destruct (f _) eqn:F; [apply (f_not_gen _ _ F); reflexivity|reflexivity]).
    rewrite f_gen. reflexivity.
  Qed.
  Lemma sole_gen_map_td args : sole_gen (map (td f) args) = sole_gen args.
  Proof.
    destruct args as [|a [|b t]]; try reflexivity; cbn [map sole_gen]; pose proof (td_is_gen a) as H;
      destruct (td f a), a; cbn in H; try discriminate; reflexivity.
  Qed.

  Definition td_parts (rho : env) (e : expr) : Prop :=
    match e with
    | EGen _ elt x it =>
        eval rho (td f it) = eval rho it /\
        (forall vi vals, eval rho it = Val vi -> to_seq vi = inr vals ->
                         forall v, List.In v vals -> eval (bind x v rho) (td f elt) = eval (bind x v rho) elt)
    | _ => True
    end.

  Lemma td_sound_strong : forall e rho, tguard f ok rho e = true -> eval rho (td f e) = eval rho e /\ td_parts rho e.
  Proof.
    unfold tguard.
    induction e as [x|c|t|es H|es H|es H|r m args H|g args H|par op e1 e2 IHe1 IHe2|par e IHe|par e rest IHe H|e1 x e2 IHe1 IHe2|par e1 x e2 IHe1 IHe2|e1 e2 IHe1 IHe2|n e IHe]
      using expr_ind'; intros rho G; cbn [td tvisit td_parts] in *;
      try (destruct (f _) as [e'|] eqn:F;
           [split; [apply (f_sound rho _ _ F); cbn [forallb fst snd] in G; rewrite andb_true_r in G; exact G | exact I] |]);
      rewrite ?tvisit_list_fix, ?tvisit_cmp_fix in G; try (split; [reflexivity|exact I]).
    - split; [|exact I]. rewrite forallb_flat_map in G. rewrite forallb_forall in G.
      rewrite !eval_tuple, (evals_map_ext rho (td f) es); [reflexivity|].
      apply Forall_forall. intros a Ha. rewrite Forall_forall in H. apply H; [exact Ha|apply G, Ha].
    - split; [|exact I]. rewrite forallb_flat_map in G. rewrite forallb_forall in G.
      rewrite !eval_list, (evals_map_ext rho (td f) es); [reflexivity|].
      apply Forall_forall. intros a Ha. rewrite Forall_forall in H. apply H; [exact Ha|apply G, Ha].
    - split; [|exact I]. rewrite forallb_flat_map in G. rewrite forallb_forall in G.
      rewrite !eval_set, (evals_map_ext rho (td f) es); [reflexivity|].
      apply Forall_forall. intros a Ha. rewrite Forall_forall in H. apply H; [exact Ha|apply G, Ha].
    - split; [|exact I]. rewrite forallb_flat_map in G. rewrite forallb_forall in G.
      rewrite !eval_meth, (evals_map_ext rho (td f) args); [reflexivity|].
      apply Forall_forall. intros a Ha. rewrite Forall_forall in H. apply H; [exact Ha|apply G, Ha].
    - (* ECall *)
      split; [|exact I]. rewrite forallb_flat_map in G. rewrite forallb_forall in G.
      destruct (sole_gen args) eqn:SG.
      + destruct args as [|a [|b t]]; try discriminate; [|destruct a; discriminate]. destruct a; try discriminate.
        inversion H as [|? ? Ha _]; subst. destruct (Ha rho (G _ (or_introl eq_refl))) as [_ Hp].
        cbn [map td]. rewrite f_gen. cbn [td_parts] in Hp. destruct Hp as [Hi He].
        rewrite !eval_call_gen, Hi. destruct (eval rho a2) as [vi|]; [|reflexivity]. unfold with_seq.
        destruct (to_seq vi) as [r|vals] eqn:Es; [reflexivity|]. apply consume_ext. intros v Hv. apply (He vi vals eq_refl Es v Hv).
      + rewrite !eval_call by (try rewrite sole_gen_map_td; exact SG).
        rewrite (evals_map_ext rho (td f) args); [reflexivity|].
        apply Forall_forall. intros a Ha. rewrite Forall_forall in H. apply H; [exact Ha|apply G, Ha].
    - split; [|exact I]. rewrite forallb_app in G. apply andb_true_iff in G as [G1 G2].
      rewrite !eval_bool, (proj1 (IHe1 rho G1)), (proj1 (IHe2 rho G2)). reflexivity.
    - split; [|exact I]. rewrite !eval_not, (proj1 (IHe rho G)). reflexivity.
    - split; [|exact I]. rewrite forallb_app in G. apply andb_true_iff in G as [G1 G2].
      rewrite !eval_cmp, (proj1 (IHe rho G1)). destruct (eval rho e) as [v|]; [|reflexivity].
      apply chain_map_ext. rewrite forallb_flat_map in G2. rewrite forallb_forall in G2.
      apply Forall_forall. intros cb Hcb. rewrite Forall_forall in H. apply (H cb Hcb rho). apply G2, Hcb.
    - split; [|exact I]. rewrite forallb_app in G. apply andb_true_iff in G as [G1 G2].
      rewrite !eval_listcomp, (proj1 (IHe2 rho G1)). destruct (eval rho e2) as [vi|] eqn:Ei; [|reflexivity].
      unfold with_seq. destruct (to_seq vi) as [r|vals] eqn:Es; [reflexivity|].
      rewrite (map_res_ext (fun v => eval (bind x v rho) (td f e1)) (fun v => eval (bind x v rho) e1) vals); [reflexivity|].
      intros v Hv. apply IHe1. exact (under_binder_forall _ rho x e2 _ vi vals Ei Es G2 v Hv).
    - (* EGen *) rewrite f_gen in *. cbn [td_parts]. rewrite forallb_app in G. apply andb_true_iff in G as [G1 G2].
      split; [reflexivity|]. split; [apply IHe2, G1|].
      intros vi vals Ei Es v Hv. apply IHe1. exact (under_binder_forall _ rho x e2 _ vi vals Ei Es G2 v Hv).
    - split; [|exact I]. rewrite forallb_app in G. apply andb_true_iff in G as [G1 G2].
      rewrite !eval_floordiv, (proj1 (IHe1 rho G1)), (proj1 (IHe2 rho G2)). reflexivity.
  Qed.
  Theorem td_sound : forall e rho, tguard f ok rho e = true -> eval rho (td f e) = eval rho e.
  Proof. intros e rho G. apply td_sound_strong, G. Qed.
End TdSound.

(** * fix-empty-sequence-comparison *)
Definition obs_at (in_test : bool) (r : result) : result := if in_test then test_obs r else r.

Lemma eq_empty_list_r vs : py_eq (VList vs) (VList []) = negb (truthy (VList vs)).
Proof. destruct vs; reflexivity. Qed.
Lemma eq_empty_list_l vs : py_eq (VList []) (VList vs) = negb (truthy (VList vs)).
Proof. destruct vs; reflexivity. Qed.
Lemma eq_empty_tuple_r vs : py_eq (VTuple vs) (VTuple []) = negb (truthy (VTuple vs)).
Proof. destruct vs; reflexivity. Qed.
Lemma eq_empty_tuple_l vs : py_eq (VTuple []) (VTuple vs) = negb (truthy (VTuple vs)).
Proof. destruct vs; reflexivity. Qed.

(** the comparison with the empty display, as a function of the other operand's value *)
Lemma empty_cmp_eval rho p l c o lt x :
  (o = Eq \/ o = NotEq) ->
  is_empty_seq l || is_empty_seq c = true ->
  x = (if is_empty_seq l then c else l) -> lt = (if is_empty_seq l then l else c) ->
  same_kind rho lt x = true ->
  eval rho (ECmp p l [(o, c)]) =
  match eval rho x with
  | Raise e => Raise e
  | Val v => Val (VBool (match o with Eq => negb (truthy v) | _ => truthy v end))
  end.
Proof.
  intros Ho He -> -> K. rewrite eval_cmp. cbn [chain]. unfold same_kind in K.
  destruct (is_empty_seq l) eqn:El.
  - (* the display is on the left *)
    destruct l as [| | |es|es| | | | | | | | | |]; try discriminate; destruct es; try discriminate; cbn [eval];
      rewrite ?eval_tuple, ?eval_list; cbn [evals];
      (destruct (eval rho c) as [w|]; [|reflexivity]); destruct w; try discriminate;
      destruct Ho as [-> | ->]; cbn [cmp_op]; rewrite ?eq_empty_list_l, ?eq_empty_tuple_l, ?negb_involutive; reflexivity.
  - cbn [orb] in He.
    destruct c as [| | |es|es| | | | | | | | | |]; try discriminate; destruct es; try discriminate;
      (destruct (eval rho l) as [v|]; [|reflexivity]); rewrite ?eval_tuple, ?eval_list; cbn [evals];
      destruct v; try discriminate;
      destruct Ho as [-> | ->]; cbn [cmp_op]; rewrite ?eq_empty_list_r, ?eq_empty_tuple_r, ?negb_involutive; reflexivity.
Qed.

Lemma eval_bool_call rho x : has_value_attr x = true ->
  eval rho (ECall BBool [x]) = match eval rho x with Raise e => Raise e | Val v => Val (VBool (truthy v)) end.
Proof.
  intros H. rewrite eval_call by (destruct x; try reflexivity; discriminate). cbn [evals].
  destruct (eval rho x); reflexivity.
Qed.

Lemma empty_seq_action_sound cfg rho in_test n :
  empty_seq_action_ok rho (empty_seq_action in_test n) = true ->
  obs_at in_test (eval rho (empty_seq_new cfg (empty_seq_action in_test n) n)) = obs_at in_test (eval rho n).
Proof.
  destruct n as [| | | | | | | | | |p l rest| | | |]; try reflexivity.
  destruct rest as [|[o c] [|? ?]]; try reflexivity.
  unfold empty_seq_action. destruct (is_empty_seq l || is_empty_seq c) eqn:He; [|reflexivity].
  destruct o; try reflexivity.
  - (* == *) cbn [empty_seq_action_ok empty_seq_new]. intros K.
    rewrite (empty_cmp_eval rho p l c Eq _ _ (or_introl eq_refl) He eq_refl eq_refl K), eval_not. reflexivity.
  - (* != *)
    destruct in_test.
    + cbn [empty_seq_action_ok empty_seq_new obs_at]. intros K.
      rewrite (empty_cmp_eval rho p l c NotEq _ _ (or_intror eq_refl) He eq_refl eq_refl K).
      destruct (eval rho (if is_empty_seq l then c else l)); reflexivity.
    + destruct (has_value_attr (if is_empty_seq l then c else l)) eqn:HV; [|reflexivity].
      cbn [empty_seq_action_ok empty_seq_new obs_at]. intros K.
      rewrite (empty_cmp_eval rho p l c NotEq _ _ (or_intror eq_refl) He eq_refl eq_refl K), (eval_bool_call rho _ HV). reflexivity.
Qed.

Lemma empty_seq_new_not_gen cfg a n : is_gen n = false -> (forall lt x, a <> ES_bare lt x) -> is_gen (empty_seq_new cfg a n) = false.
Proof. intros Hn Hb. destruct a; cbn; try assumption; try reflexivity. exfalso. eapply Hb. reflexivity. Qed.
Lemma empty_seq_action_not_bare n lt x : empty_seq_action false n <> ES_bare lt x.
Proof.
  destruct n as [| | | | | | | | | |p l rest| | | |]; try discriminate. destruct rest as [|[o c] [|? ?]]; try discriminate. unfold empty_seq_action.
  destruct (is_empty_seq l || is_empty_seq c); [|discriminate]. destruct o; try discriminate.
  destruct (has_value_attr _); discriminate.
Qed.

Theorem empty_seq_preserves cfg in_test rho e :
  empty_seq_guard cfg in_test rho e = true ->
  obs_at in_test (eval rho (rw_empty_seq cfg in_test e)) = obs_at in_test (eval rho e).
Proof.
  assert (General : tguard (empty_seq_f cfg) empty_seq_node_ok rho e = true -> eval rho (td (empty_seq_f cfg) e) = eval rho e).
  { apply (td_sound (empty_seq_f cfg) empty_seq_node_ok).
    - intros r n e' F Ok. destruct n; try discriminate. cbn [empty_seq_f] in F. injection F as <-.
      exact (empty_seq_action_sound cfg r false _ Ok).
    - reflexivity.
    - intros n e' F Hn. destruct n as [| | | | | | | | | |p l rest| | | |]; try discriminate. unfold empty_seq_f in F. injection F as <-.
      apply empty_seq_new_not_gen; [reflexivity|]. intros lt x. exact (empty_seq_action_not_bare (ECmp p l rest) lt x). }
  unfold empty_seq_guard, rw_empty_seq.
  destruct e; try (intros G; rewrite (General G); reflexivity).
  apply empty_seq_action_sound.
Qed.
Theorem empty_seq_file_preserves cfg in_test rho e :
  empty_seq_guard cfg in_test rho e = true ->
  obs_at in_test (eval rho (empty_seq_file cfg in_test e)) = obs_at in_test (eval rho e).
Proof. intros G. unfold empty_seq_file. destruct (empty_seq_crashes in_test e); [reflexivity|]. apply empty_seq_preserves, G. Qed.

(** * literal-or-new-object-identity *)
Lemma cres_eqb_eq a b : cres_eqb a b = true -> a = b.
Proof.
  destruct a, b; cbn; try discriminate; intros H.
  - apply Bool.eqb_prop in H. congruence.
  - destruct x, x0; try discriminate; reflexivity.
Qed.
Lemma identity_f_shape n e' : identity_f n = Some e' ->
  exists p l o c o', n = ECmp p l [(o, c)] /\ e' = ECmp p l [(o', c)].
Proof.
  destruct n as [| | | | | | | | | |p l rest| | | |]; try discriminate. destruct rest as [|[o c] [|? ?]]; try discriminate. cbn [identity_f].
  destruct (is_literal_or_new l || is_literal_or_new c); [|discriminate].
  destruct o; try discriminate; intros H; injection H as <-; eauto 10.
Qed.
Theorem identity_preserves rho e : identity_guard rho e = true -> eval rho (rw_identity e) = eval rho e.
Proof.
  apply (td_sound identity_f identity_node_ok).
  - intros r n e' F Ok. destruct (identity_f_shape n e' F) as (p & l & o & c & o' & -> & ->).
    unfold identity_node_ok in Ok. rewrite F in Ok. rewrite !eval_cmp. cbn [chain].
    destruct (eval r l) as [v|]; [|reflexivity]. destruct (eval r c) as [w|]; [|reflexivity].
    apply cres_eqb_eq in Ok. rewrite Ok. reflexivity.
  - reflexivity.
  - intros n e' F _. destruct (identity_f_shape n e' F) as (p & l & o & c & o' & -> & ->). reflexivity.
Qed.
