"""C12 — no finding is lost or altered between the tool result files and the codemods.

Implementation side: the public classes (ResultSet subclasses, `|`, `|=`, the process_*_findings loops, the
readers).  Model/spec side: coq/Model/ResultSet.v, coq/Spec/ResultSetSpec.v evaluated by vm_compute."""
from __future__ import annotations

import json
from pathlib import Path

from harness import core
from harness.core import cN, clist, cpair, cstr

META = {
    "rule": "families of result sets over a small alphabet of rule ids and files (overlapping/disjoint keys, empty sets, "
            "multi-location results) pushed through the real ResultSet classes with `|`, `|=` and the process_*_findings loops; "
            "non-trivial = at least two sets sharing a rule or a (rule,file) key, or disjoint keys; distinct by structure",
    "trusted": ["json/pathlib of CPython; dataclass plumbing of codemodder.result"],
    "assumptions": ["Result objects are identified by the integer id the harness gives them"],
}

RULES = ["python:S1", "python:S2", "r3", "pkg.sub.rule-4"]
FILES = ["a.py", "b.py", "src/c.py", "d/e/f.py"]

IMPORTS = "From CM Require Import Harness.RunBase Harness.C12_run Model.ResultSet.\n"


def impl_classes():
    from codemodder.result import LineInfo, Location, ResultSet, SASTResult  # noqa
    from core_codemods.sonar.results import SonarLocation, SonarResult, SonarResultSet
    return SonarLocation, SonarResult, SonarResultSet, LineInfo


def mk_result(rid, rule, files):
    SonarLocation, SonarResult, _, LineInfo = impl_classes()
    locs = [SonarLocation(file=Path(f), start=LineInfo(rid, 1), end=LineInfo(rid, 2)) for f in files]
    return SonarResult(finding_id=str(rid), rule_id=rule, locations=locs)


def mk_set(results):
    _, _, SonarResultSet, _ = impl_classes()
    rs = SonarResultSet()
    for (rid, rule, files) in results:
        rs.add_result(mk_result(rid, rule, files))
    return rs


def flat_of(rs):
    return [(k, [(str(f), [int(r.finding_id) for r in l]) for f, l in d.items()]) for k, d in rs.items()]


def c_res(r):
    rid, rule, files = r
    return "{| rid := %s; rrule := %s; rfiles := %s |}" % (cN(rid), cstr(rule), clist([cstr(f) for f in files], "str"))


def c_flat(F):
    return clist([cpair(cstr(k), clist([cpair(cstr(f), clist([cN(i) for i in l], "N")) for f, l in d], "str * list N")) for k, d in F],
                 "str * list (str * list N)")


def gen_results(rng, start_id, n, rules, files):
    out = []
    for i in range(n):
        nf = rng.choice([1, 1, 1, 2, 3, 0])
        out.append((start_id + i, rng.choice(rules), [rng.choice(files) for _ in range(nf)]))
    return out


def gen_family(rng, m):
    fam, nid = [], 1
    mode = rng.choice(["overlap", "overlap", "disjoint_rules", "disjoint_files", "mixed", "with_empty"])
    for j in range(m):
        if mode == "disjoint_rules":
            rules, files = [RULES[j % len(RULES)]], FILES
        elif mode == "disjoint_files":
            rules, files = RULES[:1], [FILES[j % len(FILES)]]
        elif mode == "overlap":
            rules, files = RULES[:2], FILES[:2]
        else:
            rules, files = RULES, FILES
        n = 0 if (mode == "with_empty" and rng.random() < 0.4) else rng.randint(1, 4)
        rs = gen_results(rng, nid, n, rules, files)
        nid += n
        fam.append(rs)
    return mode, fam


CORPUS = [
    # witnesses of C12_*_refuted (as-is code): disjoint rules, disjoint files, same rule different file
    ("corpus:disjoint_rules", [[(1, "r1", ["a"])], [(3, "r2", ["a"])]]),
    ("corpus:same_rule_other_file", [[(1, "r1", ["a"])], [(2, "r1", ["b"])]]),
    ("corpus:same_key", [[(1, "r1", ["a"])], [(2, "r1", ["a"])]]),
    ("corpus:three_files", [[(1, "r1", ["a"])], [(2, "r1", ["a", "b"])], [(3, "r2", ["a"]), (4, "r1", ["a"])]]),
    ("corpus:empty_left", [[], [(1, "r1", ["a"])]]),
    ("corpus:empty_right", [[(1, "r1", ["a"])], []]),
]


def run_or(a, b):
    A, B = mk_set(a), mk_set(b)
    before = (flat_of(A), flat_of(B))
    try:
        C = A | B
        obs = flat_of(C)
    except KeyError:
        obs = None
    assert (flat_of(A), flat_of(B)) == before, "`|` mutated an operand"
    return obs


def run_fold(fam):
    _, _, SonarResultSet, _ = impl_classes()
    acc = SonarResultSet()
    for r in fam:
        acc |= mk_set(r)
    return flat_of(acc), type(acc).__name__


def classify(kind, fam):
    """finding classes for known_findings.json"""
    return f"kf_resultset_{kind}"


def run(ctx: core.Ctx):
    rng = ctx.rng
    n = 150 if ctx.quick() else 1500
    if getattr(ctx, "deep", False):
        n *= 3
    fams = list(CORPUS)
    for i in range(n):
        m = rng.choice([2, 2, 2, 3, 4, 1])
        mode, fam = gen_family(rng, m)
        fams.append((mode, fam))
    # exhaustive small scope (thorough): all pairs of result sets over 2 rules x 2 files x <= 2 single-location results
    if not ctx.quick():
        atoms = [(r, f) for r in RULES[:2] for f in FILES[:2]]
        small = [[]] + [[x] for x in atoms] + [[x, y] for x in atoms for y in atoms]
        for A in small:
            for B in small:
                fa = [(i + 1, r, [f]) for i, (r, f) in enumerate(A)]
                fb = [(i + 10, r, [f]) for i, (r, f) in enumerate(B)]
                fams.append(("exhaustive", [fa, fb]))

    or_cases, fold_cases, add_cases, meta_or, meta_fold = [], [], [], [], []
    for mode, fam in fams:
        ctx.count(f"family_mode:{mode.split(':')[0]}")
        ctx.count(f"family_size:{len(fam)}")
        # add_result alone
        for rs in fam[:1]:
            add_cases.append(cpair(clist([c_res(r) for r in rs], "res"), c_flat(flat_of(mk_set(rs)))))
        if len(fam) >= 2:
            obs = run_or(fam[0], fam[1])
            ctx.count("or_outcome:" + ("KeyError" if obs is None else "ok"))
            or_cases.append(cpair(clist([c_res(r) for r in fam[0]], "res"), clist([c_res(r) for r in fam[1]], "res"),
                                  core.copt(None if obs is None else c_flat(obs), "flat")))
            meta_or.append((mode, fam[:2], obs))
        obs, tyname = run_fold(fam)
        if tyname != "SonarResultSet":
            ctx.violation("kf_ior_changes_type", f"`|=` turned the accumulator into {tyname}", {"family": fam})
        fold_cases.append(cpair(clist([clist([c_res(r) for r in rs], "res") for rs in fam], "list res"), c_flat(obs)))
        meta_fold.append((mode, fam, obs))
        keys = [set((r[1], f) for r in rs for f in r[2]) for rs in fam]
        shared = any(keys[i] & keys[j] for i in range(len(keys)) for j in range(i))
        nontrivial = len([k for k in keys if k]) >= 2
        ctx.case({"family": fam, "fold_observed": obs}, nontrivial_key=(repr(fam)) if nontrivial else None,
                 sample=nontrivial and shared)

    bad = core.eval_bad_indices(ctx, "c12_or", IMPORTS, "or_case", or_cases, ["or_model_ok", "or_spec_ok"])
    for i in bad["or_model_ok"]:
        mode, fam, obs = meta_or[i]
        ctx.mismatch("ResultSet.__or__ vs Model.ResultSet.rs_or", f"`A | B` differs from the model on {fam}",
                     {"family": fam, "observed": obs, "op": "or"})
    for i in bad["or_spec_ok"]:
        mode, fam, obs = meta_or[i]
        kind = "or_keyerror" if obs is None else "or_not_union"
        ctx.violation(classify(kind, fam), f"`A | B` is not the union: A={fam[0]} B={fam[1]} observed={obs}",
                      {"family": fam, "observed": obs, "op": "or", "expected": "per (rule,file): results of A then results of B"})
    bad = core.eval_bad_indices(ctx, "c12_fold", IMPORTS, "fold_case", fold_cases, ["fold_model_ok", "fold_spec_ok"])
    for i in bad["fold_model_ok"]:
        mode, fam, obs = meta_fold[i]
        ctx.mismatch("`|=` loop vs Model.ResultSet.combine_files", f"`acc |= R` loop differs from the model on {fam}",
                     {"family": fam, "observed": obs, "op": "ior-fold"})
    for i in bad["fold_spec_ok"]:
        mode, fam, obs = meta_fold[i]
        ctx.violation(classify("ior_loses", fam), f"`acc |= R` over {fam} loses or duplicates findings: observed {obs}",
                      {"family": fam, "observed": obs, "op": "ior-fold", "expected": "per (rule,file): concatenation over the family"})
    bad = core.eval_bad_indices(ctx, "c12_add", IMPORTS, "add_case", add_cases, ["add_model_ok"])
    for i in bad["add_model_ok"]:
        ctx.mismatch("ResultSet.add_result vs Model.ResultSet.add_result", f"add_result differs on case {i}", {"case": add_cases[i]})

    from harness import c12_e2e, c12_readers
    c12_readers.run(ctx)
    c12_e2e.run(ctx)


def replay(ctx, body):
    if "reader" in body:
        from harness import c12_readers
        return c12_readers.replay(ctx, body)
    fam = [[tuple(r) for r in rs] for rs in body["family"]]
    if body.get("op") == "or":
        print("observed now:", run_or(fam[0], fam[1]), "| recorded:", body.get("observed"))
    else:
        print("observed now:", run_fold(fam)[0], "| recorded:", body.get("observed"))
    print("expected:", body.get("expected"))
    return 0
