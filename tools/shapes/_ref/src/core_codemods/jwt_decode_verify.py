import libcst as cst
from libcst import matchers

from codemodder.codemods.libcst_transformer import (
    LibcstResultTransformer,
    LibcstTransformerPipeline,
    NewArg,
)
from codemodder.codemods.semgrep import SemgrepRuleDetector
from codemodder.result import fuzzy_column_match, same_line
from core_codemods.api import Metadata, Reference, ReviewGuidance
from core_codemods.api.core_codemod import CoreCodemod


class JwtDecodeVerifyTransformer(LibcstResultTransformer):
    change_description = "Enable all verifications in `jwt.decode` call."

    def _replace_opts_dict(self, opts_dict):
        new_dict_elements = []

        for element in opts_dict.elements:
            if is_verify_keyword(element):
                new_el = cst.DictElement(
                    key=cst.parse_expression(element.key.value),
                    value=cst.parse_expression("True"),
                )
            else:
                new_el = element
            new_dict_elements.append(new_el)
        return new_dict_elements

    def replace_options_arg(self, node_args):
        new_args = []
        for arg in node_args:
            if matchers.matches(arg.keyword, matchers.Name("options")) and isinstance(
                opts_dict := arg.value, cst.Dict
            ):
                new_dict_elements = self._replace_opts_dict(opts_dict)
                new = cst.Arg(
                    keyword=cst.parse_expression("options"),
                    value=cst.Dict(
                        elements=new_dict_elements,
                    ),
                    equal=arg.equal,
                )
            else:
                new = arg
            new_args.append(new)
        return new_args

    def replace_args(self, original_node, args_info):
        new_args = super().replace_args(original_node, args_info)
        return self.replace_options_arg(new_args)

    def on_result_found(self, original_node, updated_node):
        new_args = self.replace_args(
            original_node, [NewArg(name="verify", value="True", add_if_missing=False)]
        )
        return self.update_arg_target(updated_node, new_args)


class JwtDecodeVerifySASTTransformer(JwtDecodeVerifyTransformer):
    def filter_by_result(self, node) -> bool:
        """
        Special case result-matching for this rule because the SAST
        results returned have a start/end column for the verify keyword
        within the `decode` call, not for the entire `decode` call.
        """
        match node:
            case cst.Call():
                pos_to_match = self.node_position(node)
                return any(
                    self.match_location(pos_to_match, result)
                    for result in self.results or []
                )
        return False

    def match_location(self, pos, result):
        return any(
            same_line(pos, location) and fuzzy_column_match(pos, location)
            for location in result.locations
        )


def is_verify_keyword(element: cst.DictElement) -> bool:
    """Determine if DictElement is something like:
        DictElement(
            key=SimpleString(
                value='"verify_signature"',
                lpar=[],
                rpar=[],
            )
            ...
    where value should be anything with the word `verify`
    """
    return (
        matchers.matches(element.key, matchers.SimpleString())
        and "verify" in element.key.value
    )


JwtDecodeVerify = CoreCodemod(
    metadata=Metadata(
        name="jwt-decode-verify",
        summary="Verify JWT Decode",
        review_guidance=ReviewGuidance.MERGE_WITHOUT_REVIEW,
        references=[
            Reference(url="https://pyjwt.readthedocs.io/en/stable/api.html"),
            Reference(
                url="https://owasp.org/www-project-web-security-testing-guide/latest/4-Web_Application_Security_Testing/06-Session_Management_Testing/10-Testing_JSON_Web_Tokens"
            ),
        ],
    ),
    transformer=LibcstTransformerPipeline(JwtDecodeVerifyTransformer),
    detector=SemgrepRuleDetector(
        r"""
            rules:
                - pattern-either:
                  - patterns:
                      - pattern: jwt.decode(..., verify=False, ...)
                      - pattern-inside: |
                          import jwt
                          ...
                  - patterns:
                      - pattern: |
                          jwt.decode(..., options={..., "$KEY": False, ...}, ...)
                      - metavariable-regex:
                          metavariable: $KEY
                          regex: verify_
                      - pattern-inside: |
                          import jwt
                            ...
        """
    ),
)
