class ResultSet(dict):
    def add_result(self, result):
        for loc in result.locations:
            self.setdefault(result.rule_id, {}).setdefault(loc.file, []).append(result)

    def __or__(self, other):
        result = ResultSet(super().__or__(other))
        for k in result.keys():
            result[k] = list_dict_or(self.get(k, {}), other.get(k, {}))
        return result

    def __ior__(self, other):
        self.update(self | other)
        return self


def list_dict_or(dictionary, other):
    result_dict = other | dictionary
    for k in result_dict.keys():
        result_dict[k] = dictionary.get(k, []) + other.get(k, [])
    return result_dict
