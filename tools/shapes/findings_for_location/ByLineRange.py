# src/codemodder/file_context.py at the commit the model was written against (shape reference; not executed)
class FileContext:
    def get_findings_for_location(self, line_number: int):
        return [
            result.finding
            for result in (self.results or [])
            if any(
                location.start.line <= line_number <= location.end.line
                for location in result.locations
            )
            and result.finding is not None
        ]

