# src/codemodder/codemods/base_codemod.py at HEAD: FindAndFixCodemod.get_files_to_analyze, RemediationCodemod.get_files_to_analyze
class FindAndFixCodemod:
    def get_files_to_analyze(
        self,
        context: CodemodExecutionContext,
        results: ResultSet | None,
    ) -> list[Path]:
        """
        Determine which files to analyze based on find-and-fix paths

        Using `context.find_and_fix_paths` automatically accounts for any user-provided `path_include` and `path_exclude` settings
        as well as defaults for find-and-fix codemods, so there's no need for additional filtering logic.
        """
        del results
        return (
            [
                path
                for path in context.find_and_fix_paths
                if path.suffix in self.default_extensions
            ]
            if self.default_extensions
            else context.find_and_fix_paths
        )


class RemediationCodemod:
    def get_files_to_analyze(
        self,
        context: CodemodExecutionContext,
        results: ResultSet | None,
    ) -> list[Path]:
        """
        Get the list of files to analyze based on which files have findings associated with the requested rules

        Using `context.files_to_analyze` includes all files in the directory. These paths are filtered by locations that are
        associated with findings for the requested rules. Finally these paths are filtered according to user-provided `path_include`
        and `path_exclude` settings using `context.filter_paths`.
        """
        return context.filter_paths(
            [
                path
                for path in context.files_to_analyze
                if path.suffix in (self.default_extensions or [])
                and any(
                    results.results_for_rule_and_file(context, rule_id, path)
                    for rule_id in self.requested_rules
                )
            ]
            if results
            else []
        )
