class CodemodRegistry:
    def __init__(self):
        self._codemods_by_id = {}
        self._default_include_paths = set()

    @property
    def ids(self):
        return list(self._codemods_by_id.keys())

    @property
    def codemods(self):
        return list(self._codemods_by_id.values())

    def add_codemod_collection(self, collection):
        for codemod in collection.codemods:
            wrapper = codemod() if isinstance(codemod, type) else codemod
            if wrapper.id in self._codemods_by_id:
                raise KeyError(
                    f"Codemod with id {wrapper.id} is already registered. Consider changing the codemod name or origin."
                )

            self._codemods_by_id[wrapper.id] = wrapper
            self._default_include_paths.update(
                chain(
                    *[
                        (f"*{ext}", os.path.join("**", f"*{ext}"))
                        for ext in wrapper.default_extensions
                    ]
                )
            )
