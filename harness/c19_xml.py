"""C19, XML half: XMLTransformerPipeline with ElementAttributeXMLTransformer / NewElementXMLTransformer on generated
well-formed documents.  The SAX events of the input (recorded with the same defusedxml parser, with locator positions)
are the model's input; the written file is compared byte for byte with the model's text and re-read with expat to a
canonical content list compared with the expected one (coq/Harness/C19_xml_run.v)."""
from __future__ import annotations

import io
import json
from functools import partial
from pathlib import Path
from xml.sax.handler import ContentHandler, LexicalHandler, property_lexical_handler

from harness import core
from harness.core import cN, cZ, cbool, clist, copt, cpair, cstr

IMPORTS = "From CM Require Import Harness.RunBase Harness.C19_xml_run Model.XmlPipe.\n"
DESC = "verif xml change"
CORPUS_DIR = core.VERIF / "corpus" / "C19"


# ------------------------------------------------------------------------------------------------
# recording the SAX events
# ------------------------------------------------------------------------------------------------
class Recorder(ContentHandler, LexicalHandler):
    def __init__(self):
        super().__init__()
        self.events = []
        self.loc = None

    def setDocumentLocator(self, locator):
        self.loc = locator

    def _rec(self, *e):
        line = self.loc.getLineNumber() if self.loc is not None else None
        col = self.loc.getColumnNumber() if self.loc is not None else None
        self.events.append((line or 0, -1 if col is None else col, e))

    def startDocument(self): self._rec("StartDocument")
    def endDocument(self): self._rec("EndDocument")
    def startElement(self, name, attrs): self._rec("StartElement", name, list(attrs.items()))
    def endElement(self, name): self._rec("EndElement", name)
    def characters(self, content): self._rec("Characters", content)
    def ignorableWhitespace(self, content): self._rec("IgnorableWhitespace", content)
    def processingInstruction(self, target, data): self._rec("ProcessingInstruction", target, data)
    def skippedEntity(self, name): self._rec("SkippedEntity", name)
    def comment(self, content): self._rec("Comment", content)
    def startCDATA(self): self._rec("StartCDATA")
    def endCDATA(self): self._rec("EndCDATA")
    def startDTD(self, name, public_id, system_id): self._rec("StartDTD", name, public_id, system_id)
    def endDTD(self): self._rec("EndDTD")


def record(path: Path, defused: bool):
    """events [(line, col, event)] or None when the parser (or defusedxml) rejects the document"""
    if defused:
        from defusedxml.sax import make_parser
    else:
        from xml.sax import make_parser
    r = Recorder()
    p = make_parser()
    p.setContentHandler(r)
    p.setProperty(property_lexical_handler, r)
    try:
        p.parse(path)
    except Exception:  # noqa
        return None
    return r.events


def c_attrs(attrs):
    return clist([cpair(cstr(k), cstr(v)) for k, v in attrs], "str * str")


def c_event(e):
    k = e[0]
    if k in ("StartDocument", "EndDocument", "StartCDATA", "EndCDATA", "EndDTD"):
        return k
    if k == "StartElement":
        return f"(StartElement {cstr(e[1])} {c_attrs(e[2])})"
    if k == "ProcessingInstruction":
        return f"(ProcessingInstruction {cstr(e[1])} {cstr(e[2])})"
    if k == "StartDTD":
        return f"(StartDTD {cstr(e[1])} {copt(None if e[2] is None else cstr(e[2]), 'str')} {copt(None if e[3] is None else cstr(e[3]), 'str')})"
    return f"({k} {cstr(e[1])})"


def c_pevent(pe):
    line, col, e = pe
    return "{| pe_line := %s; pe_col := %s; pe_ev := %s |}" % (cN(line), cZ(col), c_event(e))


def c_xresults(spec):
    return clist(["{| x_locs := %s; x_finding := %s |}" % (
        clist([cpair(cN(a), cZ(ac), cN(b)) for a, ac, b, _ in locs], "N * Z * N"), copt(None if fid is None else cN(fid), "N"))
        for locs, fid in spec], "xresult")


def c_new(ne):
    name, parent, content, attrs = ne
    c = f"(NEText {cstr(content)})" if isinstance(content, str) else f"(NENested {c_new(content)})"
    return f"(NE {cstr(name)} {cstr(parent)} {c} {c_attrs(list(attrs.items()))})"


# ------------------------------------------------------------------------------------------------
# implementation
# ------------------------------------------------------------------------------------------------
def py_new(ne):
    from codemodder.codemods.xml_transformer import NewElement
    name, parent, content, attrs = ne
    return NewElement(name=name, parent_name=parent, content=content if isinstance(content, str) else py_new(content),
                      attributes=dict(attrs))


def run_once(ctx, kind, data: bytes, fc_spec, dry: bool, tag: str):
    from codemodder.codemods import xml_transformer as xt
    from codemodder.file_context import FileContext
    from harness.c19 import exec_context, mk_results, obs_changeset, obs_unfixed
    ectx = exec_context(ctx, dry)
    f = ectx.directory / f"xml_{tag}" / "d.xml"
    f.parent.mkdir(exist_ok=True)
    f.write_bytes(data)
    fc = FileContext(ectx.directory, f, results=mk_results(fc_spec, f))
    if kind[0] == "attr":
        _, amap, res_spec, line_only, described = kind
        base = xt.ElementAttributeXMLTransformer
        T = type("VerifAttr", (base,), {"change_description": DESC}) if described else base
        factory = partial(T, name_attributes_map={k: dict(v) for k, v in amap}, line_only_matching=line_only)
        results = None if res_spec is None else mk_results(res_spec, f)
    else:
        _, news = kind
        factory = partial(xt.NewElementXMLTransformer, new_elements=[py_new(n) for n in news])
        results = None
    try:
        cs = xt.XMLTransformerPipeline(factory).apply(ectx, fc, results)
    except Exception as e:  # noqa
        return None, type(e).__name__
    return {"ret": obs_changeset(cs), "file": f.read_bytes(), "failed": bool(fc.failures), "unfixed": obs_unfixed(fc),
            "unfixed_meta": sorted({(u.path, u.reason) for u in fc.unfixed_findings})}, None


def c_obs(o):
    if o is None:
        return "(None : option xobs)"
    ret = o["ret"]
    cret = copt(None if ret is None else cpair(cstr(ret["diff"]), clist(
        ["{| xc_line := %s; xc_findings := %s |}" % (cN(n), clist([cN(x) for x in fs], "N")) for n, fs in ret["changes"]], "xchange")),
        "str * list xchange")
    return "(Some %s : option xobs)" % cpair(cret, cstr(as_code(o["file"])), cbool(o["failed"]),
                                             clist([cpair(cN(i), cN(n or 0)) for i, n in o["unfixed"]], "N * N"))


def as_code(b: bytes) -> str:
    try:
        return b.decode("utf-8")
    except UnicodeDecodeError:
        return b.decode("latin-1")


def c_kind(kind):
    if kind[0] == "attr":
        _, amap, res_spec, line_only, _ = kind
        return "(KAttr %s %s %s)" % (
            clist([cpair(cstr(k), c_attrs(v)) for k, v in amap], "str * dict str str"),
            copt(None if res_spec is None else c_xresults(res_spec), "list xresult"), cbool(line_only))
    return "(KNew %s)" % clist([c_new(n) for n in kind[1]], "new_element")


def xml_case(ctx, kind, doc, fc_spec):
    """doc: str (written as UTF-8) or bytes (a document in another encoding)"""
    from codemodder.diff import create_diff
    data = doc.encode("utf-8") if isinstance(doc, str) else doc
    try:
        text, reread_ok = data.decode("utf-8"), True
    except UnicodeDecodeError:
        text, reread_ok = data.decode("latin-1"), False
    d = ctx.scratch / "proj"
    src = d / "xml_src.xml"
    src.write_bytes(data)
    events = record(src, defused=True)
    real, exc_r = run_once(ctx, kind, data, fc_spec, False, "real")
    dry, exc_d = run_once(ctx, kind, data, fc_spec, True, "dry")
    meta = {"half": "xml", "kind": kind, "doc": text, "data": None if reread_ok else list(data), "reread_ok": reread_ok,
            "fc_results": fc_spec, "raised": [exc_r, exc_d],
            "real": None if real is None else {**real, "file": as_code(real["file"])},
            "dry": None if dry is None else {**dry, "file": as_code(dry["file"])}}
    diffs, reparsed = [], None
    if reread_ok:
        diffs.append((text, create_diff(text.splitlines(keepends=True), io.StringIO(text).readlines())))
    if real is not None and real["file"] != data:
        new = as_code(real["file"])
        diffs.append((new, create_diff(text.splitlines(keepends=True), io.StringIO(new).readlines())))
        out = d / "xml_out.xml"
        out.write_bytes(real["file"])
        rp = record(out, defused=False)
        reparsed = None if rp is None else [e for _, _, e in rp]
        meta["second_run_parses"] = record(out, defused=True) is not None
    term = ("{| xk := %s; x_fc := %s; x_orig := %s; x_reread_ok := %s; x_parse := %s; x_diffs := %s; x_real := %s; x_dry := %s; "
            "x_reparsed := %s |}") % (
        c_kind(kind), c_xresults(fc_spec), cstr(text), cbool(reread_ok),
        copt(None if events is None else clist([c_pevent(pe) for pe in events], "pevent"), "list pevent"),
        clist([cpair(cstr(t), cstr(df)) for t, df in diffs], "str * str"),
        c_obs(real), c_obs(dry),
        copt(None if reparsed is None else clist([c_event(e) for e in reparsed], "event"), "list event"))
    return term, meta, events


def other_encoding(rng, doc: str):
    """the same document in ISO-8859-1 or UTF-16 (bytes that are not UTF-8), or None when it cannot be expressed"""
    import re as _re
    body = _re.sub(r"^(﻿)?<\?xml[^>]*\?>\s*", "", doc.lstrip("﻿"))
    if rng.random() < 0.7:
        body = body.replace("\U0001F600", "é").replace("中", "é")
        if "é" not in body:
            body = body.replace("</root>", "é</root>", 1)
        try:
            return ('<?xml version="1.0" encoding="ISO-8859-1"?>\n' + body).encode("latin-1")
        except UnicodeEncodeError:
            return None
    return ('<?xml version="1.0" encoding="UTF-16"?>\n' + body).encode("utf-16")


# ------------------------------------------------------------------------------------------------
# generators
# ------------------------------------------------------------------------------------------------
NAMES = ["e", "a", "item", "x:e", "ns:item", "b"]
ATTR_NAMES = ["id", "k", "z", "x:k", "class", "data-v"]
TEXT = ["t", "x y", " ", "\n  ", "&amp;", "&lt;", "&gt;", "&#x41;", "é", "]]&gt;", "\U0001F600", ">", "&quot;", "&apos;", "'", '"', "\t"]
CDATA = ["a", "<b>", "&", "&amp;", "]]", "x y", "\n", ">", " ", "é"]
COMMENT = [" c ", "a-b", "<x>", "&amp;", "", "é", " multi\n line "]
PIS = [("pi", ""), ("pi", "d"), ("xml-stylesheet", 'href="a.xsl" type="text/xsl"'), ("p", "a  b "), ("p", "x>y")]
AVALS = ["v", "1", " ", "&lt;", "&amp;", "&quot;", "'", "&#10;", "&#9;", "é", "&gt;", ">", "x y", "&#x41;", "", "&#13;"]


def gen_attrs(rng, feats):
    out = []
    for name in rng.sample(ATTR_NAMES, rng.choice([0, 0, 1, 1, 2, 3])):
        v = "".join(rng.choice(AVALS) for _ in range(rng.choice([0, 1, 1, 2, 3])))
        if "'" in v and rng.random() < 0.5:
            out.append(f'{name}="{v}"')
        else:
            v2 = v.replace("'", "&apos;")
            out.append(f"{name}='{v2}'" if rng.random() < 0.4 else f'{name}="{v2}"')
        if any(x in v for x in ("&quot;", "'", "&#10;", "&#9;", "&#13;", "&lt;", "&amp;")):
            feats.add("attr_needs_quoting")
    return out


def gen_content(rng, depth, feats, profile):
    parts = []
    for _ in range(rng.choice([0, 1, 2, 2, 3, 4] if depth < 3 else [0, 1])):
        r = rng.random()
        if r < 0.38:
            parts.append(gen_element(rng, depth + 1, feats, profile))
        elif r < 0.62:
            t = "".join(rng.choice(TEXT) for _ in range(rng.choice([1, 1, 2, 3])))
            if profile.get("cr") and rng.random() < 0.3:
                t += "&#13;" + rng.choice(["", "\n", "z"])
                feats.add("cr_charref")
            parts.append(t)
            if t.strip():
                feats.add("text")
            if "&" in t:
                feats.add("entities")
        elif r < 0.74:
            c = "".join(rng.choice(CDATA if profile.get("cdata_specials", True) else ["a", "x y", " ", "é", "\n"])
                        for _ in range(rng.choice([0, 1, 2, 3])))
            parts.append(f"<![CDATA[{c}]]>")
            feats.add("cdata")
            if any(x in c for x in "<&>"):
                feats.add("cdata_specials")
        elif r < 0.86:
            if profile.get("comments", True):
                parts.append(f"<!--{rng.choice(COMMENT)}-->")
                feats.add("comment")
        else:
            t, dta = rng.choice(PIS)
            parts.append(f"<?{t} {dta}?>" if dta or rng.random() < 0.5 else f"<?{t}?>")
            feats.add("pi")
    if profile.get("indent") and parts:
        parts = ["\n" + "  " * depth + p for p in parts] + ["\n" + "  " * (depth - 1)]
    return "".join(parts)


def gen_element(rng, depth, feats, profile):
    name = rng.choice(NAMES)
    if ":" in name:
        feats.add("namespaces")
    attrs = gen_attrs(rng, feats)
    sp = rng.choice(["", "", " ", "\n "])
    head = " ".join([name] + attrs)
    if rng.random() < 0.2:
        return f"<{head}{sp}/>"
    inner = gen_content(rng, depth, feats, profile)
    if inner and "<" in inner and any(t.strip() for t in [inner]):
        feats.add("nesting")
    return f"<{head}{sp}>{inner}</{name}{rng.choice(['', ' '])}>"


def gen_doc(rng):
    feats = set()
    profile = {"indent": rng.random() < 0.4, "cdata_specials": rng.random() < 0.5, "comments": rng.random() < 0.8,
               "cr": rng.random() < 0.06}
    decl = rng.choice(["", "", '<?xml version="1.0"?>\n', '<?xml version="1.0" encoding="UTF-8"?>\n',
                       '<?xml version="1.0" encoding="utf-8" standalone="yes"?>\n'])
    prolog = ""
    if rng.random() < 0.25:
        prolog += f"<!--{rng.choice(COMMENT)}-->\n"
        feats.add("comment")
    r = rng.random()
    if r < 0.10:
        prolog += "<!DOCTYPE root>\n"
        feats.add("doctype")
    elif r < 0.16:
        prolog += "<!DOCTYPE root [\n<!ELEMENT root ANY>\n<!ATTLIST e id CDATA #IMPLIED>\n]>\n"
        feats.add("doctype")
    elif r < 0.19:
        prolog += rng.choice(['<!DOCTYPE root SYSTEM "root.dtd">\n', '<!DOCTYPE root [<!ENTITY q "v">]>\n',
                              '<!DOCTYPE root PUBLIC "-//V//DTD//EN" "root.dtd">\n'])
        feats.add("doctype_forbidden")
    if rng.random() < 0.15:
        prolog += '<?xml-stylesheet href="s.css"?>\n'
        feats.add("pi")
    ns = rng.choice(["", ' xmlns:x="urn:x" xmlns:ns="urn:ns"', ' xmlns="urn:d" xmlns:x="urn:x" xmlns:ns="urn:ns"'])
    if ns:
        feats.add("namespaces")
    body = gen_content(rng, 1, feats, profile)
    root = f"<root{ns}>{body}</root>"
    epilog = rng.choice(["", "", "\n", "\n<!-- after -->", "\n<?pi end?>\n"])
    doc = decl + prolog + root + epilog
    if rng.random() < 0.12:
        doc = doc.replace("\n", "\r\n")
        feats.add("crlf")
    if rng.random() < 0.03:
        doc = "﻿" + doc
        feats.add("bom")
    return doc, feats


NEW_ATTRS = [("z", "9"), ("k", 'new<&"\''), ("id", ""), ("x:k", "v\n"), ("new", "é"), ("class", "a b"), ("q", 'only"dq'), ("t", "tab\there")]


def gen_kind(rng, events):
    """attribute map or new elements, aimed at the elements the document has"""
    starts = [(l, c, e) for l, c, e in (events or []) if e[0] == "StartElement"]
    present = list(dict.fromkeys(e[1] for _, _, e in starts)) or ["e"]
    if rng.random() < 0.62:
        names = rng.sample(present, min(len(present), rng.choice([1, 1, 2]))) + ([rng.choice(NAMES)] if rng.random() < 0.3 else [])
        amap = [(n, rng.sample(NEW_ATTRS, rng.choice([1, 1, 2, 3]))) for n in dict.fromkeys(names)]
        r = rng.random()
        if r < 0.3 or not starts:
            res = None
        else:
            res = []
            for i in range(rng.choice([1, 1, 2, 3])):
                l, c, _ = rng.choice(starts)
                hit = rng.random() < 0.7
                res.append(([(l, c + 1 if hit else c + rng.choice([0, 2, 5]), l + rng.choice([0, 0, 1]), c + 3)], None if rng.random() < 0.1 else i + 1))
            if rng.random() < 0.15:
                res.append(([], 9))
        return ("attr", amap, res, rng.random() < 0.3, rng.random() < 0.8)
    news = []
    for i in range(rng.choice([1, 1, 2])):
        content = rng.choice(["", "c", "c<&>", " x ", "é"])
        if rng.random() < 0.3:
            content = (rng.choice(["k", "e"]), "unused-parent", rng.choice(["", "in<"]), dict(rng.sample(NEW_ATTRS, rng.choice([0, 1]))))
        news.append((rng.choice(["n", "m", "x:new"]), rng.choice(present + ["nope"]), content, dict(rng.sample(NEW_ATTRS, rng.choice([0, 0, 1, 2])))))
    return ("new", news)


def gen_fc(rng, events, kind):
    lines = sorted({l for l, _, _ in (events or [(1, 0, None)])})
    out = []
    for i in range(rng.choice([0, 1, 2, 3])):
        a = rng.choice(lines + [0, max(lines) + 1])
        out.append(([(a, rng.randint(1, 9), a + rng.choice([0, 0, 1, 3]), 1)] + ([(rng.choice(lines), 1, rng.choice(lines), 1)] if rng.random() < 0.2 else []),
                    None if rng.random() < 0.1 else 20 + i))
    if kind[0] == "attr" and kind[2] and rng.random() < 0.6:
        out = [x for x in kind[2]] + out
    return out


def load_corpus():
    out = []
    f = CORPUS_DIR / "xml.json"
    if f.exists():
        for e in json.loads(f.read_text()):
            out.append((e["name"], kind_from_json(e["kind"]), bytes(e["bytes"]) if "bytes" in e else e["doc"],
                        fc_from_json(e.get("fc_results", []))))
    return out


def fc_from_json(j):
    return [([tuple(l) for l in locs], fid) for locs, fid in j]


def kind_from_json(k):
    def ne(n):
        return (n[0], n[1], n[2] if isinstance(n[2], str) else ne(n[2]), dict(n[3]))
    if k[0] == "attr":
        return ("attr", [(n, [tuple(p) for p in a]) for n, a in k[1]], None if k[2] is None else fc_from_json(k[2]), bool(k[3]), bool(k[4]))
    return ("new", [ne(n) for n in k[1]])


CLASS_OF = {
    "xml_content_ok_but_cdata": ("kf_xml_cdata_escaped", "character data inside a CDATA section is escaped (& < > become entity text): the CDATA content changes"),
    "xml_content_ok_but_doctype": ("kf_xml_doctype_rewritten", "the document type declaration is rewritten as PUBLIC \"None\" \"None\" (absent ids formatted with an f-string; internal subset lost)"),
    "xml_content_ok_but_comment": ("kf_xml_comment_newline_in_text", "a new line is written after every comment; inside mixed content it becomes character data"),
    "xml_content_ok_but_cr": ("kf_xml_cr_becomes_lf", "a carriage return in character data (&#13;) is written raw and comes back as a line feed"),
}


def run(ctx: core.Ctx):
    rng = ctx.rng
    n = 330 if ctx.quick() else 2600
    if getattr(ctx, "deep", False):
        n *= 2
    plan = [(name, kind, doc, fc, {"corpus"}) for name, kind, doc, fc in load_corpus()]
    d = ctx.scratch / "proj"
    d.mkdir(exist_ok=True)
    for i in range(n):
        doc, feats = gen_doc(rng)
        p = d / "xml_gen.xml"
        p.write_bytes(doc.encode("utf-8"))
        ev = record(p, defused=True)
        kind = gen_kind(rng, ev)
        plan.append((f"gen{i}", kind, doc, gen_fc(rng, ev, kind), feats))
        if rng.random() < 0.08:
            enc = other_encoding(rng, doc)
            if enc is not None:
                plan.append((f"gen{i}:other-encoding", kind, enc, gen_fc(rng, ev, kind), feats | {"not_utf8"}))
    terms, metas = [], []
    for name, kind, doc, fc, feats in plan:
        term, meta, events = xml_case(ctx, kind, doc, fc)
        meta["name"] = name
        ctx.count("xml_transformer:" + kind[0] + (":results=None" if kind[0] == "attr" and kind[2] is None else ""))
        for ft in sorted(feats):
            ctx.count("xml_feature:" + ft)
        if meta["real"] is None or meta["dry"] is None:
            ctx.count("xml_raised:" + str(meta["raised"]))
            # an exception on a document that re-reads as UTF-8 is a model mismatch (xml_model_ok), i.e. a tie break
            terms.append(term)
            metas.append(meta)
            ctx.case({"transformer": kind[0], "doc": repr(doc), "raised": meta["raised"]})
            continue
        ctx.count("xml_parse:" + ("ok" if events is not None else "rejected"))
        edited = bool(meta["real"]["ret"])
        ctx.count("xml_outcome:" + ("edited" if edited else "failed" if meta["real"]["failed"] else "no-target"))
        if edited and meta.get("second_run_parses") is False:
            ctx.count("xml_output_rejected_by_own_parser")
        if edited and None in meta["real"]["ret"]["descriptions"]:
            ctx.count("xml_change_description_None")
        if edited and kind[0] == "attr" and kind[4] and meta["real"]["ret"]["descriptions"] != [DESC]:
            ctx.violation("kf_xml_change_metadata", f"change description {meta['real']['ret']['descriptions']} != {DESC!r}", _js(meta))
        want_reason = "Failed to parse XML file" if events is None else "Failed to read XML file as UTF-8"
        if meta["real"]["failed"] and any(r != want_reason for _, r in meta["real"]["unfixed_meta"]):
            ctx.violation("kf_xml_change_metadata", f"failure reason {meta['real']['unfixed_meta']} (expected {want_reason!r})", _js(meta))
        other = feats - {"nesting", "text", "corpus"}
        nontrivial = edited and bool(other)
        ctx.case({"transformer": kind[0], "doc": doc, "kind": _js(kind), "returned": meta["real"]["ret"], "written": meta["real"]["file"]},
                 nontrivial_key=(doc, repr(kind), repr(fc)) if nontrivial else None, sample=nontrivial and len(other) >= 3 and len(doc) < 400)
        terms.append(term)
        metas.append(meta)

    checks = ["xml_model_ok", "xml_content_ok", "xml_content_ok_known", "xml_content_ok_but_cdata", "xml_content_ok_but_doctype",
              "xml_content_ok_but_comment", "xml_content_ok_but_cr", "xml_changes_ok", "xml_guards_ok", "xml_isolation_ok"]
    bad = core.eval_bad_indices(ctx, "c19_xml", IMPORTS, "xml_case", terms, checks, chunk=150)
    for i in bad["xml_model_ok"]:
        m = metas[i]
        ctx.mismatch("XMLTransformerPipeline.apply vs Model.XmlPipe", f"apply() differs from the model on {m['doc']!r} kind={m['kind']} "
                     f"fc_results={m['fc_results']}: observed={m['real']}", _js(m))
    known_bad = set(bad["xml_content_ok_known"])
    for i in bad["xml_content_ok"]:
        m = metas[i]
        if i in known_bad:
            ctx.violation("kf_xml_content_changed", f"content of the written document is not the input with the targeted edits (and not "
                          f"one of the listed deviations): doc={m['doc']!r} kind={m['kind']} written={m['real']['file']!r}", _js(m))
            continue
        hit = [c for c in CLASS_OF if i in set(bad[c])]
        if not hit:
            ctx.violation("kf_xml_content_changed", f"content differs and no single listed deviation explains it: doc={m['doc']!r} "
                          f"written={m['real']['file']!r}", _js(m))
        for c in hit:
            cls, text = CLASS_OF[c]
            ctx.violation(cls, f"{text}; doc={m['doc']!r} kind={m['kind']} written={m['real']['file']!r}", _js(m))
    for i in bad["xml_changes_ok"]:
        m = metas[i]
        ctx.violation("kf_xml_changes_wrong", f"changes are not one per edited element (in order, findings of its line): doc={m['doc']!r} "
                      f"kind={m['kind']} fc_results={m['fc_results']} returned={m['real']['ret']}", _js(m))
    for i in bad["xml_guards_ok"]:
        m = metas[i]
        ctx.violation("kf_xml_guard_broken", f"dry-run / no-edit / unparsable document did not leave the file alone: doc={m['doc']!r} "
                      f"real={m['real']} dry={m['dry']}", _js(m))

    for i in bad["xml_isolation_ok"]:
        m = metas[i]
        ctx.violation("kf_xml_reread_no_isolation", f"a well-formed document that is not UTF-8 is not isolated: raised={m['raised']} "
                      f"(expected: apply returns None, failure recorded, file untouched, findings unfixed at line 0) "
                      f"bytes={bytes(m['data'] or b'')!r} kind={m['kind']} real={m['real']}", _js(m))
    if ctx.dist.get("xml_output_rejected_by_own_parser"):
        ctx.notes.append("Every rewritten document that had a DOCTYPE is rejected by the pipeline's own defusedxml parser afterwards "
                         "(PUBLIC \"None\" \"None\" is an external reference): a second run fails to parse it.")
    if ctx.dist.get("xml_change_description_None"):
        ctx.notes.append("Transformers that do not override change_description report description=None (DESIGN §6 #19, third item); "
                         "the CodeTF model allows it, not counted as a violation.")


def _js(o):
    return json.loads(json.dumps(o, default=lambda x: sorted(x) if isinstance(x, (set, frozenset)) else str(x)))


def replay(ctx, body):
    kind = kind_from_json(body["kind"])
    fc = fc_from_json(body.get("fc_results") or [])
    for dry in (False, True):
        data = bytes(body["data"]) if body.get("data") else body["doc"].encode("utf-8")
        o, exc = run_once(ctx, kind, data, fc, dry, "replay")
        if o:
            o = {**o, "file": o["file"].decode("utf-8", errors="replace")}
        print(f"dry_run={dry}: raised={exc} observed now: {o}")
    print("input document:", repr(body["doc"]))
    print("recorded written document:", repr((body.get("real") or {}).get("file")))
    print("expected: the input's elements, attributes, character data (CDATA content included), comments, PIs and DOCTYPE with only "
          "the targeted attribute/element edits; one change per edit; dry-run writes nothing")
    return 0
