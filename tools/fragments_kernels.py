# Fragments of the rewrite kernels (coq/Model/Rewrites.v).  exec'd inside tools/translate.py.
#
#   invert_boolean_check._invert_comparisons      -> the operator table (pairs of libcst class names) and the form of the
#                                                    default branch are EXTRACTED; the rest of the transformer
#                                                    (leave_UnaryOperation, report_new_comparison, the loop skeleton) is
#                                                    shape-compared (Pinned / ParensOnly / Repaired: chains inverted?, parentheses kept?)
#   combine_calls_base                            -> three matchers + two folds + combine_calls/combine_args:
#                                                    Pinned (inner operator not tested, parentheses dropped) / Repaired
#   combine_startswith_endswith / _isinstance_issubclass -> make_call_matcher, check_calls_same_instance, the four class attributes
#   use_generator.leave_Call                      -> Pinned (args[0], other arguments dropped) / Repaired (exactly one argument) /
#                                                    Nested (`return updated_node`) / NestedUpdated (+ comprehension of the updated node)
#   use_set_literal.leave_Call, fix_hasattr_call.on_result_found + detector_pattern -> one known shape each
import copy as _copy

TABLE_IMPORTS.append("From CM Require Import Base.Types_Kernels.")

_KPROPS = ["C08", "C01", "C02", "C07"]
_CST_OPS = {"Equal": "Eq", "NotEqual": "NotEq", "LessThan": "Lt", "LessThanEqual": "LtE", "GreaterThan": "Gt",
            "GreaterThanEqual": "GtE", "Is": "Is", "IsNot": "IsNot", "In": "In", "NotIn": "NotIn"}


def _class_attr(cls_node, name):
    for s in cls_node.body:
        if isinstance(s, ast.Assign) and len(s.targets) == 1 and isinstance(s.targets[0], ast.Name) and s.targets[0].id == name:
            return ast.dump(s.value)
        if isinstance(s, ast.AnnAssign) and isinstance(s.target, ast.Name) and s.target.id == name:
            return ast.dump(s.value) if s.value is not None else "<no value>"
    return "<absent>"


def _class_dump(tree, cls, methods, attrs, rewrite=None):
    """normalised dump of selected methods and class-level attributes of one class"""
    c = find_def(tree, cls)
    if c is None:
        return f"{cls}=<absent>"
    parts = []
    for m in methods:
        d = find_def(tree, f"{cls}.{m}")
        if d is not None and rewrite is not None:
            d = rewrite(_copy.deepcopy(d))
        parts.append(f"{cls}.{m}=" + (norm_dump(d) if d is not None else "<absent>"))
    for a in attrs:
        parts.append(f"{cls}.{a}=" + _class_attr(c, a))
    # methods of the class that are not part of the fragment but would change its behaviour if added/overridden
    parts.append("methods=" + ",".join(sorted(s.name for s in c.body if isinstance(s, (ast.FunctionDef, ast.AsyncFunctionDef)))))
    parts.append("bases=" + ",".join(ast.dump(b) for b in c.bases))
    return "\n".join(parts)


def _variant(shape_dir, tree, cls, methods, attrs, rewrite=None):
    got = _class_dump(tree, cls, methods, attrs, rewrite)
    for f in sorted((SHAPES / shape_dir).glob("*.py")):
        if _class_dump(ast.parse(f.read_text()), cls, methods, attrs, rewrite) == got:
            return f.stem.split("__")[0]
    raise Unrecognised(f"shape of {cls} ({', '.join(methods + attrs)}) matches no known variant under tools/shapes/{shape_dir}")


# ---- invert_boolean_check ----------------------------------------------------------------------
def _strip_cases(fn):
    for n in ast.walk(fn):
        if isinstance(n, ast.Match):
            n.cases = []
    return fn


def _invert_table(tree):
    fn = find_def(tree, "InvertedBooleanCheckTransformer._invert_comparisons")
    if fn is None:
        raise Unrecognised("InvertedBooleanCheckTransformer._invert_comparisons not found")
    matches = [n for n in ast.walk(fn) if isinstance(n, ast.Match)]
    if len(matches) != 1:
        raise Unrecognised("_invert_comparisons: expected exactly one match statement")
    mt = matches[0]
    if ast.dump(mt.subject) != ast.dump(ast.parse("comparison_op.operator", mode="eval").body):
        raise Unrecognised("_invert_comparisons: match subject is not comparison_op.operator")
    pairs, default = [], None
    for i, case in enumerate(mt.cases):
        if case.guard is not None:
            raise Unrecognised("_invert_comparisons: guarded case")
        p = case.pattern
        if isinstance(p, ast.MatchAs) and p.pattern is None and p.name is None:
            if i != len(mt.cases) - 1:
                raise Unrecognised("_invert_comparisons: default case is not last")
            body = [ast.dump(s) for s in case.body]
            if body == [ast.dump(ast.parse("new_operator = comparison_op").body[0])]:
                default = "KeepTarget"
            elif body == [ast.dump(ast.parse("return None").body[0])]:
                default = "LeaveUnchanged"
            else:
                raise Unrecognised("_invert_comparisons: unknown default branch")
            continue
        ok = (isinstance(p, ast.MatchClass) and not p.patterns and not p.kwd_patterns and isinstance(p.cls, ast.Attribute)
              and isinstance(p.cls.value, ast.Name) and p.cls.value.id == "cst" and p.cls.attr in _CST_OPS)
        if not ok or len(case.body) != 1:
            raise Unrecognised("_invert_comparisons: case is not `case cst.<Operator>(): new_operator = cst.<Operator>()`")
        s = case.body[0]
        ok = (isinstance(s, ast.Assign) and len(s.targets) == 1 and isinstance(s.targets[0], ast.Name)
              and s.targets[0].id == "new_operator" and isinstance(s.value, ast.Call) and not s.value.args
              and not s.value.keywords and isinstance(s.value.func, ast.Attribute) and isinstance(s.value.func.value, ast.Name)
              and s.value.func.value.id == "cst" and s.value.func.attr in _CST_OPS)
        if not ok:
            raise Unrecognised("_invert_comparisons: case body is not `new_operator = cst.<Operator>()`")
        pairs.append((_CST_OPS[p.cls.attr], _CST_OPS[s.value.func.attr]))
    if default is None:
        raise Unrecognised("_invert_comparisons: no default case")
    return pairs, default


def _invert_fn(tree, repo):
    pairs, default = _invert_table(tree)
    variant = _variant("kernel_invert", tree, "InvertedBooleanCheckTransformer",
                       ["leave_UnaryOperation", "report_new_comparison", "_invert_comparisons", "leave_FormattedStringExpression"], [],
                       rewrite=_strip_cases)
    # (Repaired__3: with the leave_FormattedStringExpression of proposed_fixes/invert-boolean-check-fstring-field.diff, which only
    #  adds a space inside an f-string replacement field: the expression-level kernel is the same)
    # module level: the transformer must be the one wired into the codemod
    wired = find_assign(tree, "InvertedBooleanCheck")
    if wired is None or "InvertedBooleanCheckTransformer" not in ast.dump(wired):
        raise Unrecognised("InvertedBooleanCheck is not built from InvertedBooleanCheckTransformer")
    return {"table": [list(p) for p in pairs], "default": default,
            "chains": variant in ("Pinned", "ParensOnly"), "parens": variant in ("ParensOnly", "Repaired"), "skeleton": variant}


def _invert_print(v):
    if isinstance(v, str):
        return v
    # constructors are qualified: `In` would otherwise be read as List.In inside Generated/Tables.v
    tbl = "[" + "; ".join(f"(Types_Kernels.{a}, Types_Kernels.{b})" for a, b in v["table"]) + "]" if v["table"] else "([] : list (cmpop * cmpop))"
    return ("{| iv_table := %s; iv_default := %s; iv_chains := %s; iv_parens := %s |}"
            % (tbl, v["default"], "true" if v["chains"] else "false", "true" if v["parens"] else "false"))


custom("kernel_invert", "src/core_codemods/invert_boolean_check.py", _KPROPS, "invert_cfg_v", "invert_cfg", "repaired_invert",
       _invert_fn, printer=_invert_print,
       doc="_invert_comparisons: operator table + default branch (extracted); leave_UnaryOperation / report_new_comparison (shape)")


# ---- combine_calls_base and its two subclasses ------------------------------------------------------
_COMBINE_METHODS = ["leave_BooleanOperation", "matches_call_or_call", "matches_call_or_boolop", "matches_boolop_or_call",
                    "combine_calls", "combine_args", "combine_call_or_boolop_fold_right", "combine_boolop_or_call_fold_left"]


def _combine_fn(tree, repo):
    v = _variant("kernel_combine_base", tree, "CombineCallsBaseCodemod", _COMBINE_METHODS, [])
    return {"Pinned": "pinned_combine", "ParensOnly": "{| cc_inner_or := false; cc_parens := true |}", "Repaired": "repaired_combine"}[v]


custom("kernel_combine_base", "src/core_codemods/combine_calls_base.py", _KPROPS, "combine_cfg_v", "combine_cfg",
       "repaired_combine", _combine_fn,
       doc="combine_calls_base: the three matchers (inner operator tested?), the two folds (parentheses kept?), combine_calls, combine_args")


def _known(shape_dir, cls, methods, attrs):
    def fn(tree, repo):
        _variant(shape_dir, tree, cls, methods, attrs)
        return "true"
    return fn


_SUB_ATTRS = ["combinable_funcs", "dedupilcation_attr", "args_to_combine", "args_to_keep_as_is"]
custom("kernel_combine_sw", "src/core_codemods/combine_startswith_endswith.py", _KPROPS, "combine_sw_recognised", "bool", "true",
       _known("kernel_combine_sw", "CombineStartswithEndswith", ["make_call_matcher", "check_calls_same_instance"], _SUB_ATTRS),
       doc="CombineStartswithEndswith: call matcher, same-instance test, combinable_funcs / dedup attribute / argument indices")
custom("kernel_combine_inst", "src/core_codemods/combine_isinstance_issubclass.py", _KPROPS, "combine_inst_recognised", "bool", "true",
       _known("kernel_combine_inst", "CombineIsinstanceIssubclass", ["make_call_matcher", "check_calls_same_instance"], _SUB_ATTRS),
       doc="CombineIsinstanceIssubclass: call matcher, same-instance test, combinable_funcs / dedup attribute / argument indices")


# ---- use_generator / use_set_literal / fix_hasattr_call --------------------------------------------
def _generator_fn(tree, repo):
    v = _variant("kernel_generator", tree, "UseGenerator", ["leave_Call"], [])
    return {"Pinned": "pinned_generator", "Repaired": "repaired_generator", "Nested": "nested_generator",
            "NestedUpdated": "nested_updated_generator"}[v]


custom("kernel_generator", "src/core_codemods/use_generator.py", _KPROPS, "generator_cfg_v", "generator_cfg", "repaired_generator",
       _generator_fn, doc="UseGenerator.leave_Call: which calls are rewritten, what the new argument list is, what is returned otherwise")
def _set_literal_fn(tree, repo):
    # FStringSpaced: leave_FormattedStringExpression puts a space before a display that became the expression of a replacement
    # field (f"{{1, 2}}" would be an escaped brace); Known: the pinned form and the starred-argument repair, without it
    v = _variant("kernel_set_literal", tree, "UseSetLiteral", ["leave_Call", "leave_FormattedStringExpression"], [])
    return {"Known": "false", "FStringSpaced": "true"}[v]


custom("kernel_set_literal", "src/core_codemods/use_set_literal.py", _KPROPS, "set_literal_fstring_spaced", "bool", "true", _set_literal_fn,
       doc="UseSetLiteral.leave_Call (+ leave_FormattedStringExpression: is a display kept apart from the brace of an f-string field?)")


def _hasattr_fn(tree, repo):
    v = _variant("kernel_hasattr", tree, "TransformFixHasattrCall", ["on_result_found"], ["detector_pattern"])
    return {"Pinned": "pinned_hasattr", "Repaired": "repaired_hasattr"}[v]


custom("kernel_hasattr", "src/core_codemods/fix_hasattr_call.py", _KPROPS, "hasattr_cfg_v", "hasattr_cfg", "repaired_hasattr", _hasattr_fn,
       doc="TransformFixHasattrCall.on_result_found (any number of arguments / exactly two) + the semgrep detector pattern")


# ---- fix_empty_sequence_comparison / literal_or_new_object_identity ------------------------------------
def _empty_seq_fn(tree, repo):
    v = _variant("kernel_empty_seq", tree, "FixEmptySequenceComparison", ["leave_Comparison", "_is_empty_sequence"], [])
    return {"Pinned": "pinned_empty_seq", "Repaired": "repaired_empty_seq"}[v]


custom("kernel_empty_seq", "src/core_codemods/fix_empty_sequence_comparison.py", _KPROPS, "empty_seq_cfg_v", "empty_seq_cfg",
       "repaired_empty_seq", _empty_seq_fn,
       doc="FixEmptySequenceComparison.leave_Comparison (works on the original node; `not x` keeps the comparison's parentheses?) + _is_empty_sequence")


def _identity_fn(tree, repo):
    _variant("kernel_identity", tree, "LiteralOrNewObjectIdentityTransformer", ["_is_object_creation_or_literal", "leave_Comparison"], [])
    wired = find_assign(tree, "LiteralOrNewObjectIdentity")
    if wired is None or "LiteralOrNewObjectIdentityTransformer" not in ast.dump(wired):
        raise Unrecognised("LiteralOrNewObjectIdentity is not built from LiteralOrNewObjectIdentityTransformer")
    return "true"


custom("kernel_identity", "src/core_codemods/literal_or_new_object_identity.py", _KPROPS, "identity_recognised", "bool", "true", _identity_fn,
       doc="LiteralOrNewObjectIdentityTransformer: which operands count as literal / new object; `is` -> `==` on the original node")


# ---- str_concat_in_seq_literal ---------------------------------------------------------------------------
def _str_concat_fn(tree, repo):
    v = _variant("kernel_str_concat", tree, "StrConcatInSeqLiteral",
                 ["leave_List", "leave_Tuple", "leave_Set", "process_node_elements", "_process_elements", "_flatten_concatenated_strings"], [])
    return {"Pinned": "pinned_str_concat", "Repaired": "repaired_str_concat"}[v]


custom("kernel_str_concat", "src/core_codemods/str_concat_in_seq_literal.py", _KPROPS, "str_concat_cfg_v", "str_concat_cfg",
       "repaired_str_concat", _str_concat_fn,
       doc="StrConcatInSeqLiteral: which displays are processed, from the elements of which node (original: pinned / updated: repaired)")
