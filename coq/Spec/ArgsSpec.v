(** What C16 demands of an argument-list edit, stated without the loop of [replace_args]:
    position by position, as a function of the arguments to the left and of the documented NewArg list. *)
From CM Require Export Model.Args.
From Coq Require Strings.String.
Import String.StringSyntax.

Definition names (info : list newarg) : list str := map na_name info.
Definition has_kw (k : str) (l : list arg) : bool := existsb (kw_is k) l.
Definition find_info (k : str) (info : list newarg) : option newarg :=
  find (fun n => str_eqb k (na_name n)) info.

(** The argument [a], with [pre] the arguments to its left, is the one the list documents an edit for:
    it is a keyword argument, the first one with that keyword, and the keyword is listed. *)
Definition touched (pre : list arg) (a : arg) (info : list newarg) : option newarg :=
  match kw a with
  | Some k => if has_kw k pre then None else find_info k info
  | None => None
  end.
(** documented replacement: value replaced; keyword and its `=` token kept; no star; default comma *)
Definition repl (n : newarg) (a : arg) : arg := mkArg (Some (na_name n)) 0 (sp a) 0 (na_value n).
Definition spec_at (pre : list arg) (a : arg) (info : list newarg) : arg :=
  match touched pre a info with Some n => repl n a | None => a end.
(** the add_if_missing entries whose keyword does not occur among the arguments, in list order *)
Definition missing (args : list arg) (info : list newarg) : list newarg :=
  filter (fun n => na_add n && negb (has_kw (na_name n) args)) info.
Definition fresh (n : newarg) : arg := mkArg (Some (na_name n)) 0 0 0 (na_value n).

(** an argument the list says nothing about *)
Definition unlisted (a : arg) (info : list newarg) : bool :=
  match kw a with Some k => match find_info k info with Some _ => false | None => true end | None => true end.

(** multiset inclusion of token lists, by counting *)
Definition tok_eq_dec (x y : tok) : {x = y} + {x <> y}.
Proof. decide equality; apply (list_eq_dec N.eq_dec). Defined.
Definition cnt (l : list tok) (t : tok) : nat := count_occ tok_eq_dec l t.
(** [sub_multiset a b]: every token occurs in [a] at most as often as in [b] (checked on the tokens of [a]) *)
Definition sub_multiset (a b : list tok) : bool :=
  forallb (fun t => Nat.leb (cnt a t) (cnt b t)) a.

(** old values that a NewArg list may overwrite: the values of the arguments whose keyword is listed *)
Definition listed_values (args : list arg) (info : list newarg) : list tok :=
  flat_map (fun a => toks_arg a) (filter (fun a => negb (unlisted a info)) args).

Fixpoint nodupb (l : list str) : bool :=
  match l with [] => true | x :: r => negb (mem_str x r) && nodupb r end.

(** The codemods that only edit the argument list of the selected call, and their documented token delta. *)
Definition arg_kind (k : hkind) : bool :=
  match k with
  | HReplace _ | HCookie | HAddArg _ _ | HSslTls _ | HPyyaml _ _ | HLimitReadline _ => true
  | _ => false
  end.
Definition cookie_full : list newarg := choose_new_args [].
Definition delta_kind (k : hkind) : list tok :=
  match k with
  | HReplace info => delta_info info
  | HCookie => delta_info cookie_full
  | HAddArg name v => TKw name :: toks v
  | HSslTls safe => delta_info (ssl_protocol safe)
  | HPyyaml _ safe => TKw (S_ "Loader") :: toks safe
  | HLimitReadline lim => toks lim
  | _ => []
  end.

(** * The documented edit of one selected call, written without reference to the code *)
Fixpoint spec_map (pre args : list arg) (info : list newarg) : list arg :=
  match args with
  | [] => []
  | a :: r => spec_at pre a info :: spec_map (pre ++ [a]) r info
  end.
Definition spec_replace (args : list arg) (info : list newarg) : list arg :=
  spec_map [] args info ++ map fresh (missing args info).

Definition spec_call (k : hkind) (u : expr) : expr :=
  match k with
  | HReplace info => with_args u (spec_replace (args_of u) info)
  | HCookie => with_args u (spec_replace (args_of u) (choose_new_args (args_of u)))
  | HAddArg name v => with_args u (args_of u ++ [mkArg (Some name) 0 0 0 v])
  | HSslTls safe => with_args u (set_param (S_ "protocol") 0 safe (args_of u))
  | HPyyaml _ safe => with_args u (set_param (S_ "Loader") 1 safe (args_of u))
  | HLimitReadline lim => match args_of u with [] => with_args u [mkArg None 0 0 0 lim] | _ => u end
  | HSendFile _ p0 p1 m =>
      (* documented: the arguments after the path keep their order; plain positionals before any `*a`/`**k` get their
         parameter name; starred arguments and everything after them are carried over untouched *)
      match positional_to_keyword P2kCarriesOver false (tl (args_of u)) m with
      | Some r => with_func (with_args u (mkArg None 0 0 0 p0 :: mkArg None 0 0 0 p1 :: r))
                            (EAttr (EName (S_ "flask")) (S_ "send_from_directory"))
      | None => u
      end
  | _ => on_result_found_upd k u
  end.
Fixpoint rw_spec (k : hkind) (e : expr) : expr :=
  match e with
  | ECall m f args =>
      let u := ECall m (rw_spec k f) (map (fun a => set_value a (rw_spec k (value a))) args) in
      if m then spec_call k u else u
  | EAttr v a => EAttr (rw_spec k v) a
  | _ => e
  end.

(** * "Nothing disappears": what the documented edit of one selected call may remove *)
Fixpoint first_kw_value (name : str) (args : list arg) : option expr :=
  match args with
  | [] => None
  | a :: r => if kw_is name a then Some (value a) else first_kw_value name r
  end.
(** the old value of the argument that binds parameter [name] (see [set_param]) *)
Definition set_param_lost (name : str) (pos : nat) (args : list arg) : list tok :=
  match first_kw_value name args with
  | Some old => toks old
  | None =>
      match nth_error args pos with
      | Some a => if is_plain_positional a && forallb is_plain_positional (firstn pos args) then toks (value a) else []
      | None => []
      end
  end.
(** kinds for which the lower bound is stated: every argument-editing kind except limit-readline (which replaces the
    whole list by design; the detector only reports `readline()`) and the pinned harden-pyyaml (positional indexing) *)
Definition lower_kind (k : hkind) : bool :=
  match k with
  | HReplace _ | HCookie | HAddArg _ _ | HSslTls _ | HPyyaml PyyamlByParameter _ => true
  | _ => false
  end.
Definition lost_kind (k : hkind) (args : list arg) : list tok :=
  match k with
  | HReplace info => listed_values args info
  | HCookie => listed_values args cookie_full
  | HSslTls safe =>
      listed_values args (ssl_protocol safe) ++
      match args with
      | [a] => match kw a with None => toks (value a) | Some _ => [] end
      | _ => []
      end
  | HPyyaml _ _ => set_param_lost (S_ "Loader") 1 args
  | _ => []
  end.
(** over a tree: for each selected call, what its edit may remove from its arguments as they stand after the inner edits *)
Fixpoint lost_tree (k : hkind) (e : expr) : list tok :=
  match e with
  | ECall m f args =>
      lost_tree k f ++ flat_map (fun a => lost_tree k (value a)) args ++
      (if m then lost_kind k (map (fun a => set_value a (rw_upd k (value a))) args) else [])
  | EAttr v _ => lost_tree k v
  | _ => []
  end.

(** kinds whose model IS the documented edit ([spec_call], written without reference to the code) on every call *)
Definition documented_kind (k : hkind) : bool :=
  match k with
  | HReplace info => nodupb (names info)
  | HCookie | HAddArg _ _ | HPyyaml PyyamlByParameter _ => true
  | _ => false
  end.

(** * Classification by observation of the nested-selected-call defect:
    [a] and [b] (two outputs for input [e]) agree everywhere except at or below a selected call of [e] *)
Fixpoint differs_only_below (eqb : expr -> expr -> bool) (e a b : expr) : bool :=
  match e with
  | ECall true _ _ => true
  | ECall false f args =>
      match a, b with
      | ECall _ fa xa, ECall _ fb xb =>
          differs_only_below eqb f fa fb &&
          (fix go (l : list arg) (la lb : list arg) : bool :=
             match l, la, lb with
             | [], [], [] => true
             | x :: r, y :: ra, z :: rb => differs_only_below eqb (value x) (value y) (value z) && go r ra rb
             | _, _, _ => false
             end) args xa xb
      | _, _ => false
      end
  | EAttr v _ =>
      match a, b with
      | EAttr va _, EAttr vb _ => differs_only_below eqb v va vb
      | _, _ => false
      end
  | _ => eqb a b
  end.
