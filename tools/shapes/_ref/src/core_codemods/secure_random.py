from codemodder.codemods.libcst_transformer import (
    LibcstResultTransformer,
    LibcstTransformerPipeline,
)
from codemodder.codemods.semgrep import SemgrepRuleDetector
from codemodder.codemods.utils_mixin import NameResolutionMixin
from core_codemods.api import CoreCodemod, Metadata, Reference, ReviewGuidance


class SecureRandomTransformer(LibcstResultTransformer, NameResolutionMixin):
    change_description = (
        "Replace random.{func} with more secure secrets library functions."
    )

    def on_result_found(self, original_node, updated_node):
        self.remove_unused_import(original_node)
        self.add_needed_import("secrets")

        if self.find_base_name(original_node.func) == "random.choice":
            return self.update_call_target(updated_node, "secrets")
        return self.update_call_target(updated_node, "secrets.SystemRandom()")


SecureRandom = CoreCodemod(
    metadata=Metadata(
        name="secure-random",
        review_guidance=ReviewGuidance.MERGE_AFTER_CURSORY_REVIEW,
        summary="Secure Source of Randomness",
        references=[
            Reference(
                url="https://owasp.org/www-community/vulnerabilities/Insecure_Randomness",
            ),
            Reference(
                url="https://docs.python.org/3/library/random.html",
            ),
        ],
    ),
    detector=SemgrepRuleDetector(
        """
            - patterns:
              - pattern: random.$F(...)
              - pattern-not: random.SystemRandom()
              - pattern-inside: |
                  import random
                  ...
        """
    ),
    transformer=LibcstTransformerPipeline(SecureRandomTransformer),
)
