(** C06 — SAST-driven fixes land exactly on the reported findings and carry them.

    Full statement: for every remediation codemod K (Sonar / Semgrep / CodeQL / DefectDojo results), every program with
    candidate sites and every subset S of sites reported in the result file, the sites rewritten are exactly S; results of
    other rules, other files, closed issues or an empty result file change nothing; each rewritten site has a change entry
    carrying exactly the finding(s) reported for that site, and no entry carries a foreign finding.

    What is proved here is the join between result locations and syntax nodes (Model/Location.v), for all spans, locations,
    result lists and line filters (unbounded), with the tolerances and the Sonar tuple widening taken from the source
    (Generated/Tables.v).  Which nodes a transformer visits and what it writes for a selected node is the transformer's
    business (C16/C18/C01); the default leave_Call/leave_Assign/leave_ClassDef path is covered by C18_join.
    Hypotheses that are syntactic facts about programs (span discipline) are decidable predicates, tested on every
    generated program by the harness.  The reader's status filter (closed issues) belongs to C12's reader model; the
    end-to-end correspondence exercises it with RESOLVED/CLOSED decoys.

    Reading guide (review A16).  C06_select_iff* are CHARACTERISATIONS: they unfold the model's matching functions into
    arithmetic (same lines, column offsets in the extracted tolerance sets, containment) - useful as lemmas, definitional in
    content.  The statements with content are: C06_unique_site* (a location determines its node under a decidable
    discipline), C06_subset_exact_any (all three filter overrides, the result list being the site reports followed by any
    stale/unmatched results: selected <-> in S), C06_foreign_ignored + C06_no_findings_short_circuit (the per-file list, over
    the nested-dict model of ResultSet), C06_findings_by_line / C06_findings_own_lines (which findings an entry carries,
    incl. DefectDojo), C06_no_foreign_finding.  C06_finding_identity speaks about `finding_of`, a two-line transcription of
    `Finding(id=...)` in SonarResult.from_result whose variant is extracted by the translator (sonar_finding_id); its tie is
    the end-to-end check that compares findings[].id with the issue key.

    Refuted on the code as written (genuine, listed in findings/C06.json):
      C06_results_not_consulted_refuted (kf_results_not_consulted:<codemod>)    three SAST transformers never look at the results
      C06_fuzzy_enclosing_refuted (kf_fuzzy_enclosing_call_selected:<codemod>)  the fuzzy override also selects every call
                                                           that encloses the reported call on the same line
      C06_same_line_refuted   (kf_same_line_sites)        findings are attached by line
      C06_dd_same_line_refuted (kf_dd_same_line_sites)    DefectDojo results select every candidate on the line
      C06_dd_inner_line_refuted (kf_dd_inner_line_finding_dropped)  a DefectDojo result on an inner line of a node selects
                                                           the node but the change entry (start line) carries no finding
      C06_finding_identity    (kf_finding_id_is_rule_id)   negative branch: the finding id in the report is the rule id *)
From CM Require Import Base.Dict Model.Location Spec.LocationSpec Proofs.LocationFacts Generated.Tables.
Local Open Scope Z_scope.

Definition T_now : ltab := mkltab loc_tol_start loc_tol_end sonar_tuple_widen line_filter_rule.

(** selected <=> some result location reports the node (same lines, both columns within the tabulated tolerance; widened
    for a Sonar result on a Tuple; line containment for DefectDojo) /\ the line filter admits the node *)
Theorem C06_select_iff : forall rs excl inc n,
  node_is_selected T_now FDefault (Some rs) excl inc n = true <->
  (exists r l, In r rs /\ In l (rlocs r) /\ reports T_now (rcls r) (nkind n) (nspan n) l) /\
  line_filter T_now excl inc (nspan n) = true.
Proof. exact (select_iff T_now). Qed.
Print Assumptions C06_select_iff.

(** the per-codemod overrides *)
Theorem C06_select_iff_fuzzy_call : forall results excl inc n,
  node_is_selected T_now FFuzzyCall results excl inc n = true <->
  nkind n = KCall /\
  (exists r l, In r (or_nil results) /\ In l (rlocs r) /\
     pline (sstart (nspan n)) = pline (lstart l) /\ pline (send (nspan n)) = pline (lend l) /\
     pcol (sstart (nspan n)) <= pcol (lstart l) <= pcol (send (nspan n)) + 1 /\
     pcol (sstart (nspan n)) <= pcol (lend l) <= pcol (send (nspan n)) + 1) /\
  line_filter T_now excl inc (nspan n) = true.
Proof. exact (select_fuzzy_iff T_now). Qed.
Print Assumptions C06_select_iff_fuzzy_call.

Theorem C06_select_iff_stmt_line : forall rs excl inc n,
  node_is_selected T_now FSameLineStmt (Some rs) excl inc n = true <->
  nkind n = KStmtLine /\
  (exists r l, In r rs /\ In l (rlocs r) /\
     pline (sstart (nspan n)) = pline (lstart l) /\ pline (send (nspan n)) = pline (lend l)) /\
  line_filter T_now excl inc (nspan n) = true.
Proof. exact (select_mktemp_iff T_now). Qed.
Print Assumptions C06_select_iff_stmt_line.

(** Under the span discipline a location determines its node.  Indexed by the tolerance tables: if two admitted offsets
    can differ by two columns, two separated spans can answer to one location (negative branch, with witness). *)
Definition C06_unique_site_statement (T : ltab) : Prop :=
  if unique_ok T then
    forall c cands, c <> RDefectDojo -> span_discipline T c cands = true ->
    forall n m l, In n cands -> In m cands ->
      match_loc T c (nkind n) (nspan n) l = true -> match_loc T c (nkind m) (nspan m) l = true -> n = m
  else
    nonempty (tol_s T) = true -> nonempty (tol_e T) = true ->
    exists p q l, separated p q = true /\ base_match_loc T p l = true /\ base_match_loc T q l = true.
Lemma C06_unique_site_all T : C06_unique_site_statement T.
Proof.
  unfold C06_unique_site_statement. destruct (unique_ok T) eqn:E.
  - intros c cands Hc Hd. now apply unique_site.
  - now apply not_unique_when_loose.
Qed.
Theorem C06_unique_site : C06_unique_site_statement T_now.
Proof. exact (C06_unique_site_all T_now). Qed.
Print Assumptions C06_unique_site.

Theorem C06_unique_site_defectdojo : forall cands, line_discipline cands = true ->
  forall n m l, In n cands -> In m cands ->
    match_loc T_now RDefectDojo (nkind n) (nspan n) l = true -> match_loc T_now RDefectDojo (nkind m) (nspan m) l = true -> n = m.
Proof. exact (unique_site_dd T_now). Qed.
Print Assumptions C06_unique_site_defectdojo.

(** the same for the two per-codemod overrides: a location inside a call (fuzzy), a statement on the location's lines *)
Theorem C06_unique_site_fuzzy_call : forall cands, fuzzy_discipline cands = true ->
  forall n m l, In n cands -> In m cands ->
    same_line (nspan n) l && fuzzy_column_match (nspan n) l = true ->
    same_line (nspan m) l && fuzzy_column_match (nspan m) l = true -> n = m.
Proof. exact unique_site_fuzzy. Qed.
Print Assumptions C06_unique_site_fuzzy_call.

Theorem C06_unique_site_stmt_line : forall cands, line_discipline cands = true ->
  forall n m l, In n cands -> In m cands -> pline (sstart (nspan n)) <= pline (send (nspan n)) ->
    same_line (nspan n) l = true -> same_line (nspan m) l = true -> n = m.
Proof. exact unique_site_stmt_line. Qed.
Print Assumptions C06_unique_site_stmt_line.

(** Subset exactness: for every n, every list of candidate nodes and every sub-list S of sites whose results rs report
    exactly them (one result per site, one location each), a candidate is selected iff it is in S. *)
Theorem C06_subset_exact : forall c cands S rs excl inc,
  discipline T_now c cands = true ->
  Forall2 (site_report T_now c) S rs -> incl S cands ->
  forall n, In n cands -> line_filter T_now excl inc (nspan n) = true ->
    (node_is_selected T_now FDefault (Some rs) excl inc n = true <-> In n S).
Proof. exact (subset_exact T_now). Qed.
Print Assumptions C06_subset_exact.

(** The same for every filter override (default / fuzzy-call / statement-line), with any number of stale or unmatched
    results after the site reports: [discipline_for] is the decidable hypothesis of the override (span discipline over all
    Call/Assign/ClassDef and tested nodes; column-apart calls; line-apart statements). *)
Theorem C06_subset_exact_any : forall o c cands tested S rs U excl inc,
  discipline_for T_now o c cands tested = true -> incl tested cands -> (forall n, In n tested -> wf_lines n) ->
  Forall2 (site_report_o T_now o c) S rs -> incl S tested -> Forall (unmatched T_now o tested) U ->
  forall n, In n tested -> line_filter T_now excl inc (nspan n) = true ->
    (node_is_selected T_now o (Some (rs ++ U)) excl inc n = true <-> In n S).
Proof. exact (subset_exact_any T_now). Qed.
Print Assumptions C06_subset_exact_any.

(** The hypothesis fails as soon as the reported call sits inside another call on the same line, and then the fuzzy
    override selects both: `v = str(jwt.decode(t, "k", verify=False))` with the issue on `verify=False`. *)
Definition z_inner := mknode 1 KCall (mkspan (mkpos 2 9) (mkpos 2 43)).
Definition z_outer := mknode 2 KCall (mkspan (mkpos 2 5) (mkpos 2 44)).
Definition z_r := mkresult 1 RSonar [114]%N [mkloc [97]%N (mkpos 2 30) (mkpos 2 42)] None.
Theorem C06_fuzzy_enclosing_refuted :
  exists inner outer r, inner <> outer /\ site_report_o T_now FFuzzyCall RSonar inner r /\
    fuzzy_discipline [inner; outer] = false /\
    node_is_selected T_now FFuzzyCall (Some [r]) [] [] inner = true /\
    node_is_selected T_now FFuzzyCall (Some [r]) [] [] outer = true.
Proof.
  exists z_inner, z_outer, z_r. split; [discriminate |].
  split; [split; [discriminate | split; [eexists; reflexivity | vm_compute; reflexivity]] |].
  repeat split; vm_compute; reflexivity.
Qed.
Print Assumptions C06_fuzzy_enclosing_refuted.

(** Results of another rule, in another file, or absent from the result set never reach the transformer of this file:
    the per-file list holds exactly the results of the requested rules with a location in that file ... *)
Theorem C06_foreign_ignored : forall l rules file x,
  In x (or_nil (findings_for_rule (Some (of_results l)) rules file)) <->
  In x l /\ In (rrule_id x) rules /\ In file (map lfile (rlocs x)).
Proof.
  intros l rules file x. rewrite findings_for_rule_In. split.
  - intros [k [Hk H]]. apply lookup_of_results in H. destruct H as [H1 [H2 H3]]. subst k. auto.
  - intros [H1 [H2 H3]]. exists (rrule_id x). split; auto. apply lookup_of_results. auto.
Qed.
Print Assumptions C06_foreign_ignored.

(** ... a file for which that list is empty is not analysed at all, and is short-circuited if it is reached ... *)
Theorem C06_no_findings_short_circuit : forall R rules file,
  (process_file R rules file = ShortCircuit <->
     exists R', R = Some R' /\ forall k, In k rules -> results_for_rule_and_file R' k file = []) /\
  (forall T a o excl inc nodes, process_file R rules file = ShortCircuit ->
     run_file T a o R rules file excl inc nodes = ([], [])) /\
  (forall R' files, R = Some R' -> In file (files_to_analyze R' rules files) ->
     process_file R rules file <> ShortCircuit).
Proof.
  intros R rules file. split; [apply short_circuit_iff|]. split.
  - intros. now apply run_file_short_circuit.
  - intros R' files -> Hin Hsc. apply files_to_analyze_In in Hin. destruct Hin as [_ [k [Hk Hne]]].
    apply short_circuit_iff in Hsc. destruct Hsc as [R'' [HR H]]. injection HR as <-. apply Hne. now apply H.
Qed.
Print Assumptions C06_no_findings_short_circuit.

(** ... and results that are in the list but point at no candidate node select nothing. *)
Theorem C06_unmatched_ignored : forall a rs excl inc nodes,
  (forall n, In n nodes -> default_kind (nkind n) = true ->
     forall r l, In r rs -> In l (rlocs r) -> ~ reports T_now (rcls r) (nkind n) (nspan n) l) ->
  on_result_found_nodes T_now FDefault (Some rs) excl inc nodes = [] /\
  reported_changes T_now a FDefault (Some rs) excl inc nodes = [].
Proof. exact (nonnode_dropped T_now). Qed.
Print Assumptions C06_unmatched_ignored.

(** A change entry carries exactly the findings of the results one of whose locations covers the change line. *)
Definition C06_findings_by_line_statement (a : attach_rule) : Prop :=
  match a with
  | ByLineRange =>
      (forall results n f,
         In f (ch_findings (report_change a results n)) <->
         exists r, In r (or_nil results) /\ rfinding r = Some f /\ covers r (pline (sstart (nspan n)))) /\
      (* hence exactly its own finding when no other reported site shares its lines *)
      (forall c S1 n S2 rs1 r rs2, c <> RDefectDojo ->
         Forall2 (site_report T_now c) S1 rs1 -> site_report T_now c n r -> Forall2 (site_report T_now c) S2 rs2 ->
         pline (sstart (nspan n)) <= pline (send (nspan n)) ->
         (forall m, In m (S1 ++ S2) -> lines_apart (nspan n) (nspan m) = true) ->
         report_change a (Some (rs1 ++ r :: rs2)) n = mkchange (pline (sstart (nspan n))) (finding_list r))
  end.
Lemma C06_findings_by_line_all a : C06_findings_by_line_statement a.
Proof.
  destruct a. split.
  - intros. apply findings_by_line.
  - intros. eapply own_finding; eauto.
Qed.
Theorem C06_findings_by_line : C06_findings_by_line_statement findings_attach_rule.
Proof. exact (C06_findings_by_line_all findings_attach_rule). Qed.
Print Assumptions C06_findings_by_line.

(** For every class, DefectDojo included: when each location lies within the lines of its site, the reported location of
    n starts on n's start line, and no other reported site shares n's lines, the entry of n carries exactly r's finding. *)
Theorem C06_findings_own_lines : forall S1 n S2 rs1 r rs2,
  wf_lines n -> Forall2 within_lines S1 rs1 -> on_start_line n r -> Forall2 within_lines S2 rs2 ->
  (forall m, In m (S1 ++ S2) -> lines_apart (nspan n) (nspan m) = true) ->
  report_change findings_attach_rule (Some (rs1 ++ r :: rs2)) n = mkchange (pline (sstart (nspan n))) (finding_list r).
Proof. destruct findings_attach_rule. exact own_finding_lines. Qed.
Print Assumptions C06_findings_own_lines.

(** No change entry of a file carries a finding of a rule the codemod did not ask for (readers' invariant: the finding
    of a result names the result's rule - Finding(rule=Rule(id=rule_id)) in every reader). *)
Theorem C06_no_foreign_finding : forall l rules file n f,
  (forall r, In r l -> wf_finding r) ->
  In f (ch_findings (report_change findings_attach_rule (findings_for_rule (Some (of_results l)) rules file) n)) ->
  In (frule f) rules.
Proof. exact (no_foreign_finding findings_attach_rule). Qed.
Print Assumptions C06_no_foreign_finding.

(** Witnesses.  Two reported sites on one line `v1 = f(); v2 = f()` (Sonar offsets): separated spans, each selected by
    its own result only, but both change entries carry both findings. *)
Definition w_file : str := [97; 46; 112; 121]%N.
Definition w_rule : str := [114]%N.
Definition w_n1 := mknode 1 KCall (mkspan (mkpos 3 5) (mkpos 3 8)).
Definition w_n2 := mknode 2 KCall (mkspan (mkpos 3 15) (mkpos 3 18)).
Definition w_f1 := mkfinding [75; 49]%N w_rule.
Definition w_f2 := mkfinding [75; 50]%N w_rule.
Definition w_r1 := mkresult 1 RSonar w_rule [mkloc w_file (mkpos 3 5) (mkpos 3 8)] (Some w_f1).
Definition w_r2 := mkresult 2 RSonar w_rule [mkloc w_file (mkpos 3 15) (mkpos 3 18)] (Some w_f2).

Theorem C06_same_line_refuted :
  exists n1 n2 r1 r2 f1 f2,
    span_discipline T_now RSonar [n1; n2] = true /\
    site_report T_now RSonar n1 r1 /\ site_report T_now RSonar n2 r2 /\
    rfinding r1 = Some f1 /\ rfinding r2 = Some f2 /\ f1 <> f2 /\
    ch_findings (report_change findings_attach_rule (Some [r1; r2]) n1) = [f1; f2] /\
    ch_findings (report_change findings_attach_rule (Some [r1; r2]) n2) = [f1; f2].
Proof.
  exists w_n1, w_n2, w_r1, w_r2, w_f1, w_f2.
  split; [vm_compute; reflexivity|].
  split; [split; [reflexivity|eexists; split; [reflexivity|vm_compute; reflexivity]]|].
  split; [split; [reflexivity|eexists; split; [reflexivity|vm_compute; reflexivity]]|].
  repeat split; try reflexivity. discriminate.
Qed.
Print Assumptions C06_same_line_refuted.

(** DefectDojo results have no column: one result on a line with two candidate calls selects both. *)
Definition w_dd := mkresult 3 RDefectDojo w_rule [mkloc w_file (mkpos 3 (-1)) (mkpos 3 (-1))] (Some w_f1).
Theorem C06_dd_same_line_refuted :
  exists n1 n2 r, n1 <> n2 /\ span_discipline T_now RBase [n1; n2] = true /\ rlocs r = [mkloc w_file (mkpos 3 (-1)) (mkpos 3 (-1))] /\
    node_is_selected T_now FDefault (Some [r]) [] [] n1 = true /\ node_is_selected T_now FDefault (Some [r]) [] [] n2 = true.
Proof.
  exists w_n1, w_n2, w_dd. split; [discriminate|]. repeat split; vm_compute; reflexivity.
Qed.
Print Assumptions C06_dd_same_line_refuted.

(** A DefectDojo result on an inner line of a multi-line node selects the node (line containment), but the change entry is
    attached to the node's start line, which the result's one-line range does not cover: the entry carries no finding. *)
Definition w_multi := mknode 4 KCall (mkspan (mkpos 4 4) (mkpos 6 1)).
Definition w_dd5 := mkresult 5 RDefectDojo w_rule [mkloc w_file (mkpos 5 (-1)) (mkpos 5 (-1))] (Some w_f1).
Theorem C06_dd_inner_line_refuted :
  exists n r f, rfinding r = Some f /\ site_report T_now RDefectDojo n r /\
    node_is_selected T_now FDefault (Some [r]) [] [] n = true /\
    ch_findings (report_change findings_attach_rule (Some [r]) n) = [].
Proof.
  exists w_multi, w_dd5, w_f1. split; [reflexivity|].
  split; [split; [reflexivity|eexists; split; [reflexivity|vm_compute; reflexivity]]|].
  split; vm_compute; reflexivity.
Qed.
Print Assumptions C06_dd_inner_line_refuted.

(** The identity of the finding in the report.  SonarResult.from_result / SemgrepResult.from_sarif build
    Finding(id=rule_id): two issues of one rule are indistinguishable in the report. *)
Definition finding_of (v : finding_id_source) (key rule : str) : finding :=
  match v with IdIsRuleId => mkfinding rule rule | IdIsFindingKey => mkfinding key rule end.
Definition C06_finding_identity_statement (v : finding_id_source) : Prop :=
  match v with
  | IdIsFindingKey => forall k1 k2 rule, finding_of v k1 rule = finding_of v k2 rule -> k1 = k2
  | IdIsRuleId => exists k1 k2 rule, k1 <> k2 /\ finding_of v k1 rule = finding_of v k2 rule
  end.
Lemma C06_finding_identity_all v : C06_finding_identity_statement v.
Proof.
  destruct v; simpl.
  - exists [75; 49]%N, [75; 50]%N, w_rule. split; [discriminate|reflexivity].
  - intros k1 k2 rule H. now injection H.
Qed.
Theorem C06_finding_identity : C06_finding_identity_statement sonar_finding_id.
Proof. exact (C06_finding_identity_all sonar_finding_id). Qed.
Print Assumptions C06_finding_identity.

(** Non-vacuity: three sites at shifted columns (semgrep convention, 1-based columns), the middle one not reported. *)
Definition x_T := mkltab [-1; 0] [-1; 0] (-1, 1) ExcludeThenInclude.
Definition x_n1 := mknode 1 KCall (mkspan (mkpos 3 4) (mkpos 3 19)).
Definition x_n2 := mknode 2 KCall (mkspan (mkpos 5 15) (mkpos 5 30)).
Definition x_n3 := mknode 3 KCall (mkspan (mkpos 7 8) (mkpos 7 23)).
Definition x_a2 := mknode 4 KAssign (mkspan (mkpos 5 11) (mkpos 5 30)).
Definition x_r1 := mkresult 1 RBase w_rule [mkloc w_file (mkpos 3 5) (mkpos 3 20)] (Some w_f1).
Definition x_r3 := mkresult 3 RBase w_rule [mkloc w_file (mkpos 7 9) (mkpos 7 24)] (Some w_f2).
Example C06_subset_example :
  discipline x_T RBase [x_n1; x_a2; x_n2; x_n3] = true /\
  Forall2 (site_report x_T RBase) [x_n1; x_n3] [x_r1; x_r3] /\
  map nid (on_result_found_nodes x_T FDefault (Some [x_r1; x_r3]) [] [] [x_n1; x_a2; x_n2; x_n3]) = [1; 3]%N /\
  reported_changes x_T ByLineRange FDefault (Some [x_r1; x_r3]) [] [] [x_n1; x_a2; x_n2; x_n3] =
    [mkchange 3 [w_f1]; mkchange 7 [w_f2]] /\
  process_file (Some (of_results [x_r1; x_r3])) [[111]%N] w_file = ShortCircuit.
Proof.
  split; [vm_compute; reflexivity|]. split.
  - repeat constructor; try reflexivity; eexists; (split; [reflexivity|vm_compute; reflexivity]).
  - repeat split; vm_compute; reflexivity.
Qed.

(** Non-vacuity of C06_subset_exact_any: fuzzy override, two calls on different lines, the second reported through a
    location on one of its keywords, plus a stale result that answers to neither. *)
Definition u_c1 := mknode 1 KCall (mkspan (mkpos 3 5) (mkpos 3 40)).
Definition u_c2 := mknode 2 KCall (mkspan (mkpos 5 9) (mkpos 5 44)).
Definition u_r2 := mkresult 2 RSonar w_rule [mkloc w_file (mkpos 5 30) (mkpos 5 42)] (Some w_f2).
Definition u_stale := mkresult 9 RSonar w_rule [mkloc w_file (mkpos 8 1) (mkpos 8 4)] (Some w_f1).
Example C06_subset_any_example :
  discipline_for T_now FFuzzyCall RSonar [u_c1; u_c2] [u_c1; u_c2] = true /\
  Forall2 (site_report_o T_now FFuzzyCall RSonar) [u_c2] [u_r2] /\
  Forall (unmatched T_now FFuzzyCall [u_c1; u_c2]) [u_stale] /\
  map nid (List.filter (node_is_selected T_now FFuzzyCall (Some ([u_r2] ++ [u_stale])) [] []) [u_c1; u_c2]) = [2%N].
Proof.
  split; [vm_compute; reflexivity |]. split.
  - constructor; [| constructor]. split; [discriminate | split; [eexists; reflexivity | vm_compute; reflexivity]].
  - split; [| vm_compute; reflexivity].
    constructor; [| constructor]. intros n [<- | [<- | []]]; vm_compute; reflexivity.
Qed.

(** A transformer that never calls filter_by_result / node_is_selected (no-csrf-exempt, django-model-without-dunder-str,
    break-or-continue-out-of-loop) behaves as the default filter does without detector results: once the file is processed,
    a node no result reports is selected. *)
Theorem C06_results_not_consulted_refuted :
  exists n rs, (forall r l, In r rs -> In l (rlocs r) -> ~ reports T_now (rcls r) (nkind n) (nspan n) l) /\
    node_is_selected T_now FDefault (Some rs) [] [] n = false /\ node_is_selected T_now FDefault None [] [] n = true.
Proof.
  exists x_n2, [x_r1]. split.
  - intros r l [<- | []] [<- | []] H. apply match_loc_iff in H. vm_compute in H. discriminate.
  - split; destruct line_filter_rule eqn:E; unfold T_now; rewrite E; vm_compute; reflexivity.
Qed.
Print Assumptions C06_results_not_consulted_refuted.

(** CodeQL results (Result.match_location, SARIF columns).  A region always denotes a location when the start column
    defaults to 1 as SARIF says; as written (`region.get("startColumn")`) a region without startColumn - what CodeQL
    writes for column 1 - has the column None and the join raises.  A result without region (whole file, line 0) points
    at no node. *)
Definition C06_codeql_location_statement (d : sc_default) : Prop :=
  match d with
  | ScOne => forall file r, exists l, codeql_loc d file r = Some l
  | ScNone => exists file r, codeql_loc d file (Some r) = None
  end.
Lemma C06_codeql_location_all d : C06_codeql_location_statement d.
Proof.
  destruct d; simpl.
  - exists w_file, (mkregion 4 None None (Some 21)). reflexivity.
  - intros file [r |]; [| eexists; reflexivity]. destruct r as [sl [sc |] el ec]; eexists; reflexivity.
Qed.
Theorem C06_codeql_location : C06_codeql_location_statement codeql_start_column.
Proof. exact (C06_codeql_location_all codeql_start_column). Qed.
Print Assumptions C06_codeql_location.

Theorem C06_codeql_no_region_selects_nothing : forall d file k p,
  1 <= pline (sstart p) ->
  exists l, codeql_loc d file None = Some l /\ match_loc T_now RBase k p l = false.
Proof.
  intros d file k p Hp. eexists. split; [reflexivity |].
  unfold match_loc, base_match_loc, eff_span, same_line. simpl.
  assert (E : (pline (sstart p) =? 0) = false) by lia. rewrite E. reflexivity.
Qed.
Print Assumptions C06_codeql_no_region_selects_nothing.

(** a CodeQL region as CodeQL writes it (no endLine on one line, 1-based columns) gives the location semgrep would give *)
Example C06_codeql_region_example :
  codeql_loc ScNone w_file (Some (mkregion 3 (Some 6) None (Some 21))) = Some (mkloc w_file (mkpos 3 6) (mkpos 3 21)) /\
  codeql_loc ScOne w_file (Some (mkregion 4 None None (Some 21))) = Some (mkloc w_file (mkpos 4 1) (mkpos 4 21)).
Proof. split; reflexivity. Qed.
