(** The manifest writers of Model/Manifest.v packaged as the writer oracle [W] of the orchestration model (Model/Run.v):
    [W k (content of the manifest) (new dependencies) = Some (new content, reported diff, changes)].
    Only requirements.txt and setup.cfg are modelled (pyproject.toml / setup.py: tomlkit / libcst oracles -> [None] here,
    i.e. runs whose stores are of those two kinds are NOT covered).  The writer answers only inside the decidable guard the
    C14 refutations need: an LF manifest (no "\r": kf_manifest_crlf), requirement strings without line boundary, and for
    setup.cfg the newline-separated list whose rewritten lines are LF-clean (excludes the inline list
    kf_setupcfg_inline_list, a glued last line kf_setupcfg_no_final_newline in the pinned variant, and a phantom line
    from a whitespace-only target line).  Outside the guard [W_manifest] answers [None]: there the real writers DO write,
    with the defects listed in findings/C14.json - those inputs are excluded from what is proved with this oracle.
    The reported diff is diff.py's create_diff over difflib's grouped opcodes of (lines read, lines written): [matcher]
    is the difflib oracle (contract: it is a script between the two line lists). *)
From CM Require Import Model.Manifest Spec.ManifestSpec.
From CM Require Import Model.Run Spec.DiffSpec.

Section WManifest.
  Variable matcher : list str -> list str -> script.
  Variable line_of : str -> str.              (* str(requirement) of the dependency with canonical name n *)
  Variable defined_of : str -> option str.    (* configparser oracle: options.install_requires of a setup.cfg text *)
  Variable lv : cfg_last_line.

  Definition mdeps (ds : list str) : list Manifest.dep := map (fun n => {| dname := n; dline := line_of n |}) ds.
  Definition changes_of (nums : list N) : list change := map (fun n => (n, @nil finding)) nums.
  Definition lines_guard (ds : list str) : bool :=
    forallb (fun n => no_nl (line_of n) && negb (has_exotic (line_of n))) ds.

  Definition W_manifest (k : skind) (ob : option bytes) (ds : list str) : option (bytes * str * list change) :=
    match ob with
    | None => None
    | Some b =>
        if no_cr b && lines_guard ds then
          match k with
          | SReqTxt =>
              match fix_last (readlines b) with
              | None => None       (* empty file: the real writer raises IndexError; the parser offers no store for it *)
              | Some orig =>
                  let upd := orig ++ req_lines (mdeps ds) in
                  Some (writelines upd, create_diff (matcher orig upd),
                        changes_of (linenums_from (N.of_nat (length orig)) (mdeps ds)))
              end
          | SSetupCfg =>
              match defined_of b with
              | None => None
              | Some df =>
                  let orig := cfg_lines lv b in
                  match cfg_build_new_lines orig df (mdeps ds) with
                  | BLines true new =>
                      if negb (is_nil df) && negb (is_nil new) && lf_clean orig && lf_clean new && negb (has_exotic (concat new))
                      then Some (writelines new, create_diff (matcher orig new), @nil change)
                      else None
                  | _ => None
                  end
              end
          | _ => None
          end
        else None
    end.
End WManifest.

(** The names a fresh parse of a requirements.txt holds: RequirementsTxtParser = str.splitlines, _clean_lines, then
    packaging's Requirement on every cleaned line (invalid lines are dropped).  [req_cname] is the packaging oracle composed
    with canonicalize_name: cleaned line -> canonical name, or None when the line is not a requirement. *)
Section NamesReq.
  Variable req_cname : str -> option str.
  Fixpoint filter_names (ls : list str) : list str :=
    match ls with
    | [] => []
    | l :: r => match req_cname l with Some n => n :: filter_names r | None => filter_names r end
    end.
  Definition names_req (b : str) : list str := filter_names (clean_lines (splitlines b)).
End NamesReq.
