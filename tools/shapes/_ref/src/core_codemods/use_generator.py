import libcst as cst
from libcst import matchers as m

from codemodder.codemods.utils_mixin import NameResolutionMixin
from core_codemods.api import Metadata, Reference, ReviewGuidance, SimpleCodemod


class UseGenerator(SimpleCodemod, NameResolutionMixin):
    metadata = Metadata(
        name="use-generator",
        summary="Use Generator Expressions Instead of List Comprehensions",
        review_guidance=ReviewGuidance.MERGE_WITHOUT_REVIEW,
        references=[
            Reference(
                url="https://pylint.readthedocs.io/en/latest/user_guide/messages/refactor/use-a-generator.html"
            ),
            Reference(
                url="https://docs.python.org/3/glossary.html#term-generator-expression"
            ),
            Reference(
                url="https://docs.python.org/3/glossary.html#term-list-comprehension"
            ),
        ],
    )
    change_description = "Replace list comprehension with generator expression"

    def leave_Call(self, original_node: cst.Call, updated_node: cst.Call):
        if not self.filter_by_path_includes_or_excludes(
            self.node_position(original_node)
        ):
            return updated_node

        match original_node.func:
            # NOTE: could also support things like `list` and `tuple`
            # but it's a less compelling use case
            case cst.Name("any" | "all" | "sum" | "min" | "max"):
                if (
                    len(original_node.args) == 1
                    # `any(*[...])` passes the elements, not the list
                    and original_node.args[0].star == ""
                    and self.is_builtin_function(original_node)
                ):
                    match updated_node.args[0].value:
                        case cst.ListComp(elt=elt, for_in=for_in) if not m.findall(
                            updated_node.args[0].value, m.Await()
                        ) and not m.findall(
                            updated_node.args[0].value, m.CompFor(asynchronous=m.Asynchronous())
                        ):
                            # (an `await` would turn the generator into an async generator)
                            self.add_change(original_node, self.change_description)
                            return updated_node.with_changes(
                                args=[
                                    cst.Arg(
                                        value=cst.GeneratorExp(
                                            elt=elt,  # type: ignore
                                            for_in=for_in,  # type: ignore
                                            # No parens necessary since they are
                                            # already included by the call expr itself
                                            lpar=[],
                                            rpar=[],
                                        )
                                    )
                                ],
                            )

        return updated_node
