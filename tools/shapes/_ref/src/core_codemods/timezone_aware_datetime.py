import libcst as cst
from libcst import matchers

from codemodder.codemods.libcst_transformer import (
    LibcstResultTransformer,
    LibcstTransformerPipeline,
    NewArg,
)
from codemodder.codemods.utils_mixin import NameResolutionMixin
from core_codemods.api import CoreCodemod, Metadata, Reference, ReviewGuidance


class TransformDatetimeWithTimezone(LibcstResultTransformer, NameResolutionMixin):

    change_description = "Add `tz=datetime.timezone.utc` to datetime call"
    need_kwarg = (
        "datetime.datetime",
        "datetime.datetime.now",
        "datetime.datetime.fromtimestamp",
    )
    _module_name = "datetime"

    def leave_Call(self, original_node: cst.Call, updated_node: cst.Call):
        if not self.node_is_selected(original_node):
            return updated_node

        match self.find_base_name(original_node):
            case "datetime.datetime.utcnow":
                self.report_change(original_node)
                maybe_name, kwarg_val, module = self._determine_module_and_kwarg(
                    original_node
                )
                new_args = self.replace_args(
                    original_node,
                    [
                        NewArg(
                            name="tz",
                            value=kwarg_val,
                            add_if_missing=True,
                        )
                    ],
                )
                return self.update_call_target(
                    updated_node, module, "now", replacement_args=new_args
                )
            case "datetime.datetime.utcfromtimestamp":
                self.report_change(original_node)
                maybe_name, kwarg_val, module = self._determine_module_and_kwarg(
                    original_node
                )
                if len(original_node.args) != 2 and not self._has_timezone_arg(
                    original_node, "tz"
                ):
                    new_args = self.replace_args(
                        original_node,
                        [
                            NewArg(
                                name="tz",
                                value=kwarg_val,
                                add_if_missing=True,
                            )
                        ],
                    )
                else:
                    new_args = original_node.args

                return self.update_call_target(
                    updated_node,
                    module,
                    "fromtimestamp",
                    replacement_args=new_args,
                )

        return updated_node

    def _determine_module_and_kwarg(self, original_node: cst.Call):

        if maybe_name := self.get_aliased_prefix_name(original_node, self._module_name):
            # it's a regular import OR alias import
            if maybe_name == self._module_name:
                module = "datetime.datetime"
            else:
                module = f"{maybe_name}.datetime"
            kwarg_val = f"{maybe_name}.timezone.utc"
        else:
            # it's from import so timezone should also be from import
            self.add_needed_import("datetime", "timezone")
            kwarg_val = "timezone.utc"
            module = (
                "datetime"
                if (curr_module := original_node.func.value.value)
                in (self._module_name, "date")
                else curr_module
            )

        return maybe_name, kwarg_val, module

    def _has_timezone_arg(self, original_node: cst.Call, name: str) -> bool:
        return any(
            matchers.matches(arg, matchers.Arg(keyword=matchers.Name(name)))
            for arg in original_node.args
        )


TimezoneAwareDatetime = CoreCodemod(
    metadata=Metadata(
        name="timezone-aware-datetime",
        summary="Make `datetime` Calls Timezone-Aware",
        review_guidance=ReviewGuidance.MERGE_AFTER_REVIEW,
        references=[
            Reference(url="https://docs.python.org/3/library/datetime.html"),
        ],
    ),
    transformer=LibcstTransformerPipeline(TransformDatetimeWithTimezone),
)
