@dataclass
class NewElement:
    name: str
    parent_name: str
    content: str = ""
    attributes: dict[str, str] = field(default_factory=dict)


class NewElementXMLTransformer(XMLTransformer):
    """
    Adds new elements to the XML file at specified locations.
    """

    def __init__(
        self,
        out,
        file_context: FileContext,
        encoding: str = "utf-8",
        short_empty_elements: bool = False,
        results: list[Result] | None = None,
        new_elements: list[NewElement] | None = None,
    ) -> None:
        super().__init__(out, file_context, encoding, short_empty_elements, results)
        self.new_elements = new_elements or []

    def startElement(self, name, attrs):
        super().startElement(name, attrs)

    def endElement(self, name):
        for new_element in self.new_elements:
            if new_element.parent_name == name:
                self.add_new_element(new_element)
                self.add_change(self._my_locator.getLineNumber())
        super().endElement(name)

    def add_new_element(self, new_element: NewElement):
        attrs = AttributesImpl(new_element.attributes or {})
        super().startElement(new_element.name, attrs)
        if isinstance(new_element.content, NewElement):
            self.add_new_element(new_element.content)
        else:
            super().characters(new_element.content)
        super().endElement(new_element.name)
