(** Reference semantics for C05: what a glob pattern denotes, which files a pattern list selects. *)
From CM Require Export Model.Glob.
From Coq Require Export Sorting.Sorted.

(** A name matches a tokenised pattern: the usual declarative glob semantics (no reference to how a matcher searches). *)
Inductive Matches : list item -> str -> Prop :=
| M_nil : Matches [] []
| M_one i p c s : item_ok i c = true -> Matches p s -> Matches (i :: p) (c :: s)
| M_star p s1 s2 : Matches p s2 -> Matches (IStar :: p) (s1 ++ s2).

Definition GlobMatches (pat name : str) : Prop := Matches (parse_pat pat) name.

(** Selection demanded by the property, per file: some include pattern (its part before `:line`) matches the
    target-relative path and no file-level exclude pattern (one without `:`) does. *)
Definition Selected (inc exc : list str) (f : str) : Prop :=
  (exists p, In p inc /\ GlobMatches (before_colon p) f) /\
  ~ (exists p, In p exc /\ has_colon p = false /\ GlobMatches p f).

(** The same, decidable (used by the correspondence check as the spec oracle). *)
Definition selectedb (inc exc : list str) (f : str) : bool :=
  existsb (fun p => fnmatch f (before_colon p)) inc &&
  negb (existsb (fun p => negb (has_colon p) && fnmatch f p) exc).

(** Strict lexicographic order on strings. *)
Definition str_lt (a b : str) : Prop := str_cmp a b = Lt.

(** Shapes of patterns without `?`/`[`: used to say what the default lists mean. *)
Inductive shape := Exact (l : str) | Prefix (l : str) | Suffix (l : str) | Infix (l : str).
Definition shape_items (sh : shape) : list item :=
  match sh with
  | Exact l => map ILit l
  | Prefix l => map ILit l ++ [IStar]
  | Suffix l => IStar :: map ILit l
  | Infix l => IStar :: map ILit l ++ [IStar]
  end.
Definition shape_holds (sh : shape) (s : str) : Prop :=
  match sh with
  | Exact l => s = l
  | Prefix l => exists r, s = l ++ r
  | Suffix l => exists r, s = r ++ l
  | Infix l => exists a b, s = a ++ l ++ b
  end.
