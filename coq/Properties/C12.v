(** C12 — no finding is lost or altered between the tool result files and the codemods.
    Full statement (merging half): for every finite family R1..Rm of result sets, in any order,
    merge(R1..Rm) is the multiset union, for both the `|` and the `|=` form.
    Statements are indexed by the table value extracted from /repo's result.py (Generated/Tables.v):
    the positive branch is the law; the negative branch is its refutation by a concrete witness. *)
From CM Require Import Base.Dict Model.ResultSet Spec.ResultSetSpec Proofs.ResultSetFacts Generated.Tables.
From Coq Require Import Permutation.

Definition C12_or_statement (v : rs_variant) : Prop :=
  match v with
  | TotalOrWithIor => forall A B, exists C, rs_or v A B = Ok C /\ forall k p, lookup C k p = union_spec A B k p
  | AsIsNoIor => exists A B, rs_or v A B = KeyErr
  end.
Lemma C12_or_all v : C12_or_statement v.
Proof.
  destruct v; simpl.
  - exists (of_results [w_r1]), (of_results [w_r3]). exact or_asis_disjoint_rules_keyerr.
  - intros A B. exists (or_total A B). split; [reflexivity|]. intros k p. apply lookup_or_total.
Qed.
Theorem C12_or_total_union : C12_or_statement resultset_variant.
Proof. exact (C12_or_all resultset_variant). Qed.
Print Assumptions C12_or_total_union.

Definition C12_ior_statement (v : rs_variant) : Prop :=
  match v with
  | TotalOrWithIor => forall A B k p, lookup (rs_ior v A B) k p = union_spec A B k p
  | AsIsNoIor => exists A B k p, lookup (rs_ior v A B) k p <> union_spec A B k p
  end.
Lemma C12_ior_all v : C12_ior_statement v.
Proof.
  destruct v; simpl.
  - exists (of_results [w_r1]), (of_results [w_r2]), [114; 49]%N, [97]%N. exact ior_asis_loses.
  - intros. apply lookup_ior_total.
Qed.
Theorem C12_ior_union : C12_ior_statement resultset_variant.
Proof. exact (C12_ior_all resultset_variant). Qed.
Print Assumptions C12_ior_union.

(** Any number of files, combined the way process_*_findings does, in any order: nothing lost, nothing duplicated. *)
Definition C12_family_statement (v : rs_variant) : Prop :=
  match v with
  | TotalOrWithIor =>
      (forall Rs k p, lookup (combine_files v Rs) k p = family_spec Rs k p) /\
      (forall Rs Rs' k p, Permutation Rs Rs' ->
         Permutation (lookup (combine_files v Rs) k p) (lookup (combine_files v Rs') k p))
  | AsIsNoIor => exists Rs k p, lookup (combine_files v Rs) k p <> family_spec Rs k p
  end.
Lemma C12_family_all v : C12_family_statement v.
Proof.
  destruct v; simpl.
  - exists [of_results [w_r1]; of_results [w_r2]], [114; 49]%N, [97]%N. vm_compute. discriminate.
  - split.
    + intros. apply lookup_combine_total.
    + intros Rs Rs' k p HP. rewrite !lookup_combine_total. now apply family_spec_perm.
Qed.
Theorem C12_family_union_any_order : C12_family_statement resultset_variant.
Proof. exact (C12_family_all resultset_variant). Qed.
Print Assumptions C12_family_union_any_order.

(** add_result files a result under its rule once per location, and touches nothing else. *)
Theorem C12_add_result : forall R r k p, lookup (add_result R r) k p = lookup R k p ++ occs r k p (rfiles r).
Proof. exact lookup_add_result. Qed.
Print Assumptions C12_add_result.

(** Non-vacuity: a non-trivial family on which the law is computed. *)
Example C12_family_example :
  family_spec [of_results [w_r1; w_r3]; of_results [w_r2; w_r1]] [114; 49]%N [97]%N = [w_r1; w_r1].
Proof. vm_compute. reflexivity. Qed.
