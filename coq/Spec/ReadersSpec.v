(** Reference extraction C12 demands: every open issue AND hotspot that carries a location. *)
From CM Require Import Model.Readers.

Definition arr_or_empty (j : json) : list json := match j with JArr l => l | _ => [] end.

Definition is_open (e : json) : bool :=
  match jget s_status e with
  | Some (JStr s) => let l := lower_ascii s in str_eqb l s_open || str_eqb l s_to_review
  | _ => false
  end.

Definition sonar_rule (e : json) : str :=
  match jget s_rule e with
  | Some (JStr (c :: r)) => c :: r
  | _ => match jget s_ruleKey e with Some (JStr r) => r | _ => [] end
  end.

Definition sonar_finding_of (e : json) : list finding :=
  match jget s_textRange e, jget s_component e with
  | Some (JObj ((k, v) :: t)), Some (JStr comp) =>
      let tr := JObj ((k, v) :: t) in
      [{| f_rule := sonar_rule e;
          f_id := match jget s_key e with Some k => k | None => JStr (sonar_rule e) end;
          f_file := last_part 58%N comp;
          f_sl := jget_or_null s_startLine tr; f_sc := jget_or_null s_startOffset tr;
          f_el := jget_or_null s_endLine tr; f_ec := jget_or_null s_endOffset tr |}]
  | _, _ => []
  end.

Definition sonar_spec (doc : json) : list finding :=
  flat_map (fun e => if is_open e then sonar_finding_of e else [])
           (arr_or_empty (jget_or_null s_issues doc) ++ arr_or_empty (jget_or_null s_hotspots doc)).

(** Well-formed Sonar document: an object whose issues/hotspots are arrays (or absent/null) of entries that are
    objects with a string status, a non-empty string rule (or ruleKey) containing ':', and — when a textRange is
    present — an object textRange (or a falsy one) and a string component. *)
Definition wf_entry (e : json) : bool :=
  match e with
  | JObj _ =>
      match jget s_status e with
      | Some (JStr _) =>
          (match jget s_rule e with
           | Some (JStr (c :: r)) => rule_has_colon (c :: r)
           | Some (JStr []) | Some JNull | None =>
               match jget s_ruleKey e with Some (JStr (c :: r)) => rule_has_colon (c :: r) | _ => false end
           | _ => false
           end) &&
          (match jget s_textRange e with
           | None | Some JNull => true
           | Some (JObj []) => true
           | Some (JObj _) => match jget s_component e with Some (JStr _) => true | _ => false end
           | _ => false
           end)
      | _ => false
      end
  | _ => false
  end.
Definition wf_list (j : json) : bool :=
  match j with JNull => true | JArr l => forallb wf_entry l | _ => false end.
Definition wf_sonar (doc : json) : bool :=
  match doc with
  | JObj _ => wf_list (jget_or_null s_issues doc) && wf_list (jget_or_null s_hotspots doc)
  | _ => false
  end.
