# src/codemodder/codemods/libcst_transformer.py at the commit the model was written against (shape reference; not executed)
class LibcstResultTransformer:
    def _new_or_updated_node(self, original_node, updated_node):
        if self.node_is_selected(original_node):
            if (attr := getattr(self, "on_result_found", None)) is not None:
                new_node = attr(original_node, updated_node)
                self.report_change(original_node)
                return new_node
        return updated_node

    def leave_Call(self, original_node: cst.Call, updated_node: cst.Call):
        return self._new_or_updated_node(original_node, updated_node)

    def leave_Assign(self, original_node, updated_node):
        return self._new_or_updated_node(original_node, updated_node)

    def leave_ClassDef(
        self, original_node: cst.ClassDef, updated_node: cst.ClassDef
    ) -> cst.ClassDef:
        return self._new_or_updated_node(original_node, updated_node)

    def report_change(self, original_node, description: str | None = None):
        line_number = self.lineno_for_node(original_node)
        self.report_change_for_line(line_number, description)

    def report_change_for_line(
        self,
        line_number,
        description: str | None = None,
        findings: list[Finding] | None = None,
    ):
        self.file_context.codemod_changes.append(
            Change(
                lineNumber=line_number,
                description=description or self.change_description,
                findings=findings
                or self.file_context.get_findings_for_location(line_number),
            )
        )

    def lineno_for_node(self, node):
        return self.node_position(node).start.line

