import libcst as cst
from libcst import matchers as m

from core_codemods.api import Metadata, ReviewGuidance

from .combine_calls_base import CombineCallsBaseCodemod


class CombineIsinstanceIssubclass(CombineCallsBaseCodemod):
    metadata = Metadata(
        name="combine-isinstance-issubclass",
        summary="Simplify Boolean Expressions Using `isinstance` and `issubclass`",
        review_guidance=ReviewGuidance.MERGE_WITHOUT_REVIEW,
        references=[],
    )
    change_description = "Use tuple of matches instead of boolean expression with `isinstance` or `issubclass`"

    combinable_funcs = ["isinstance", "issubclass"]
    dedupilcation_attr = "value"
    args_to_combine = [1]
    args_to_keep_as_is = [0]

    def make_call_matcher(self, func_name: str) -> m.Call:
        return m.Call(
            func=m.Name(func_name),
            args=[
                m.Arg(value=m.Name(), star=""),
                m.Arg(value=m.Name() | m.Tuple(), star=""),
            ],
        )

    def check_calls_same_instance(
        self, left_call: cst.Call, right_call: cst.Call
    ) -> bool:
        return left_call.args[0].value.value == right_call.args[0].value.value
