(** What C20 documents: the status for the first applicable condition, and when a report exists. *)
From CM Require Export Model.Exit.   (* the [world] record only *)

Definition sarif_refused (s : sarif_outcome) : bool :=
  match s with SarifDuplicate | SarifNotFound => true | _ => false end.

Definition documented (w : world) : Z :=
  match w_argparse w with
  | ParseErr => 3                                    (* invalid or conflicting arguments *)
  | EarlyExit0 => 0                                  (* --list, --describe, --version, --help *)
  | Args =>
      if w_bad_workers w || w_bad_line w then 3      (* invalid arguments that argparse's syntax check lets through *)
      else if negb (w_dir_exists w) then 1           (* target directory does not exist *)
      else if sarif_refused (w_sarif w) then 1       (* a SARIF file does not exist / two SARIF inputs from one tool *)
      else if w_miss_issues w || w_miss_hotspots w || w_miss_dd w || w_miss_contrast w then 1   (* a supplied result file does not exist *)
      else if negb (w_ai_consistent w) then 3        (* inconsistent AI-client configuration *)
      else if w_output w && negb (w_write_ok w) then 2   (* the report cannot be written *)
      else 0
  end.

(** a (complete) report exists exactly when a run with --output completed: status 0 and --output => the report;
    in every other case no complete report (a truncated file is not a report) *)
Definition report_due (w : world) : bool :=
  match w_argparse w with Args => Z.eqb (documented w) 0 && w_output w | _ => false end.
Definition is_full (r : report_state) : bool := match r with RFull => true | _ => false end.
Definition report_conforms (w : world) (r : report_state) : bool := Bool.eqb (is_full r) (report_due w).

(** input classes for which no status is documented and an exception escapes (known findings): the statement of
    [C20_exit_table] is about the worlds outside them *)
(* [w_unreadable_target] plays no role in [documented]: a file that cannot be read does not change what the caller is told
   (the run completes; C10 says what happens to that file). *)
Definition in_scope (w : world) : bool :=
  negb (w_bad_line w) && match w_sarif w with SarifMalformed => false | _ => true end.
