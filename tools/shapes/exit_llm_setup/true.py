def setup_openai_llm_client() -> OpenAI | None:
    """Configure either the Azure OpenAI LLM client or the OpenAI client, in that order."""
    if not AzureOpenAI:
        logger.info("Azure OpenAI API client not available")
        return None

    azure_openapi_key = os.getenv("CODEMODDER_AZURE_OPENAI_API_KEY")
    azure_openapi_endpoint = os.getenv("CODEMODDER_AZURE_OPENAI_ENDPOINT")
    if bool(azure_openapi_key) ^ bool(azure_openapi_endpoint):
        raise MisconfiguredAIClient(
            "Azure OpenAI API key and endpoint must both be set or unset"
        )

    if azure_openapi_key and azure_openapi_endpoint:
        logger.info("Using Azure OpenAI API client")
        return AzureOpenAI(
            api_key=azure_openapi_key,
            api_version=os.getenv(
                "CODEMODDER_AZURE_OPENAI_API_VERSION",
                DEFAULT_AZURE_OPENAI_API_VERSION,
            ),
            azure_endpoint=azure_openapi_endpoint,
        )

    if not OpenAI:
        logger.info("OpenAI API client not available")
        return None

    if not (api_key := os.getenv("CODEMODDER_OPENAI_API_KEY")):
        logger.info("OpenAI API key not found")
        return None

    logger.info("Using OpenAI API client")
    return OpenAI(api_key=api_key)


def setup_azure_llama_llm_client() -> ChatCompletionsClient | None:
    """Configure the Azure Llama LLM client."""
    if not ChatCompletionsClient:
        logger.info("Azure API client not available")
        return None

    azure_llama_key = os.getenv("CODEMODDER_AZURE_LLAMA_API_KEY")
    azure_llama_endpoint = os.getenv("CODEMODDER_AZURE_LLAMA_ENDPOINT")
    if bool(azure_llama_key) ^ bool(azure_llama_endpoint):
        raise MisconfiguredAIClient(
            "Azure Llama API key and endpoint must both be set or unset"
        )

    if azure_llama_key and azure_llama_endpoint:
        logger.info("Using Azure Llama API client")
        return ChatCompletionsClient(
            credential=AzureKeyCredential(azure_llama_key),
            endpoint=azure_llama_endpoint,
        )
    return None
