(** Models of the result-file readers: SonarResultSet.from_json, SemgrepResultSet/CodeQLResultSet.from_sarif,
    DefectDojoResultSet.from_json — up to the findings they file (rule id, identity, file, range).
    A Python exception is [None]. Definitions only. *)
From CM Require Export Model.Json Base.Types_Readers.

Record finding := {
  f_rule : str; f_id : json;              (* identity as given by the tool: string or number *)
  f_file : str;
  f_sl : json; f_sc : json; f_el : json; f_ec : json   (* line/column values exactly as read (numbers or null) *)
}.

Definition s_issues := [105;115;115;117;101;115]%N.                 (* "issues" *)
Definition s_hotspots := [104;111;116;115;112;111;116;115]%N.        (* "hotspots" *)
Definition s_status := [115;116;97;116;117;115]%N.
Definition s_open := [111;112;101;110]%N.
Definition s_to_review := [116;111;95;114;101;118;105;101;119]%N.
Definition s_rule := [114;117;108;101]%N.
Definition s_ruleKey := [114;117;108;101;75;101;121]%N.
Definition s_textRange := [116;101;120;116;82;97;110;103;101]%N.
Definition s_startLine := [115;116;97;114;116;76;105;110;101]%N.
Definition s_endLine := [101;110;100;76;105;110;101]%N.
Definition s_startOffset := [115;116;97;114;116;79;102;102;115;101;116]%N.
Definition s_endOffset := [101;110;100;79;102;102;115;101;116]%N.
Definition s_component := [99;111;109;112;111;110;101;110;116]%N.
Definition s_flows := [102;108;111;119;115]%N.
Definition s_locations := [108;111;99;97;116;105;111;110;115]%N.
Definition s_message := [109;101;115;115;97;103;101]%N.
Definition s_key := [107;101;121]%N.

Definition jget_or_null k j := match jget k j with Some v => v | None => JNull end.

(** `x or y` on loaded values *)
Definition j_or (a b : json) : json := if jtruthy a then a else b.

(** `a + b` on lists (TypeError otherwise) *)
Definition j_add (a b : json) : option json :=
  match a, b with JArr x, JArr y => Some (JArr (x ++ y)) | _, _ => None end.

(** the iterable of the `for result in ...` loop *)
Definition sonar_entries (v : sonar_select) (doc : json) : option (list json) :=
  let issues := jget_or_null s_issues doc in
  let hotspots := jget_or_null s_hotspots doc in
  match doc with
  | JObj _ =>
      match v with
      | IssuesPlusHotspots | IssuesPlusHotspotsPerEntry =>
          match j_add (j_or issues (JArr [])) (j_or hotspots (JArr [])) with
          | Some r => jarr r | None => None end
      | IssuesOrElse =>
          (* issues or ([] + hotspots) or [] *)
          if jtruthy issues then jarr issues
          else match j_add (JArr []) hotspots with
               | Some r => jarr (j_or r (JArr []))
               | None => None
               end
      end
  | _ => None   (* data.get on a non-dict raises *)
  end.

(** sonar_url_from_id raises IndexError when the rule id has no ':' *)
Definition rule_has_colon (r : str) : bool := match split_sep 58%N r with _ :: _ :: _ => true | _ => false end.

(** Python iteration over a loaded JSON value (a dict yields its keys -- duplicates of the JSON text are not collapsed
    here, the callers only depend on the items being strings and on emptiness --, a str its characters); None = TypeError *)
Definition py_iter (j : json) : option (list json) :=
  match j with
  | JArr l => Some l
  | JObj kvs => Some (map (fun kv => JStr (fst kv)) kvs)
  | JStr cs => Some (map (fun c => JStr [c]) cs)
  | _ => None
  end.

(** SonarLocation.from_json_location on a flow location, up to raising: the location must be a dict whose
    textRange is a dict (`.get` on it) and whose component is a str (`.split`) *)
Definition flow_location (l : json) : option unit :=
  match l with
  | JObj _ =>
      match jget_or_null s_textRange l, jget s_component l with
      | JObj _, Some (JStr _) => Some tt
      | _, _ => None
      end
  | _ => None
  end.

(** [ ... for json_location in flow.get("locations", {}) ] *)
Definition flow_locations (f : json) : option (list unit) :=
  match f with
  | JObj _ =>
      match jget s_locations f with
      | None => Some []
      | Some ls => match py_iter ls with Some its => mapM flow_location its | None => None end
      end
  | _ => None
  end.

(** all_flows = [ [...] for flow in result.get("flows", []) ]: built (and able to raise) for every open entry,
    although the code flows themselves are not findings *)
Definition all_flows (e : json) : option (list (list unit)) :=
  match jget s_flows e with
  | None => Some []
  | Some fl => match py_iter fl with Some its => mapM flow_locations its | None => None end
  end.

(** name = result.get("message", None) or rule_id ; Rule(name=name) is validated by pydantic: a str *)
Definition message_ok (e : json) : bool :=
  match jget s_message e with
  | None => true
  | Some m => negb (jtruthy m) || match m with JStr _ => true | _ => false end
  end.

(** SonarResult.from_result: Some [] when the entry has no textRange *)
Definition sonar_from_result (e : json) : option (list finding) :=
  match e with
  | JObj _ =>
      if negb (match all_flows e with Some _ => true | None => false end && message_ok e) then None else
      let rule := j_or (jget_or_null s_rule e) (jget_or_null s_ruleKey e) in
      if negb (jtruthy rule) then None else
      match jstr rule with
      | None => None
      | Some r =>
          if negb (rule_has_colon r) then None else
          let fid := match jget s_key e with Some k => k | None => JStr r end in
          let tr := jget_or_null s_textRange e in
          if jtruthy tr then
            match tr, jget s_component e with
            | JObj _, Some (JStr comp) =>
                Some [{| f_rule := r; f_id := fid; f_file := last_part 58%N comp;
                         f_sl := jget_or_null s_startLine tr; f_sc := jget_or_null s_startOffset tr;
                         f_el := jget_or_null s_endLine tr; f_ec := jget_or_null s_endOffset tr |}]
            | _, _ => None
            end
          else Some []
      end
  | _ => None
  end.

Definition status_open (e : json) : option bool :=
  match jget s_status e with
  | Some (JStr s) => let l := lower_ascii s in Some (str_eqb l s_open || str_eqb l s_to_review)
  | _ => None       (* KeyError / AttributeError *)
  end.

Definition sonar_entry (e : json) : option (list finding) :=
  match status_open e with
  | Some true => sonar_from_result e
  | Some false => Some []
  | None => None
  end.

(** SonarResultSet.from_json after json.load: any exception drops the WHOLE file (returns an empty set); in the
    per-entry form an exception in the loop body only skips that entry. *)
Definition sonar_reader (v : sonar_select) (doc : json) : list finding :=
  match sonar_entries v doc with
  | None => []
  | Some es =>
      match v with
      | IssuesPlusHotspotsPerEntry => flat_map (fun e => match sonar_entry e with Some fs => fs | None => [] end) es
      | _ => match mapM sonar_entry es with Some ls => concat ls | None => [] end
      end
  end.

(** DefectDojoResultSet.from_json *)
Definition s_results := [114;101;115;117;108;116;115]%N.
Definition s_id := [105;100]%N.
Definition s_title := [116;105;116;108;101]%N.
Definition s_file_path := [102;105;108;101;95;112;97;116;104]%N.
Definition s_line := [108;105;110;101]%N.

Definition dd_entry (e : json) : option finding :=
  match jget s_id e, jget s_title e, jget s_file_path e, jget s_line e with
  | Some i, Some (JStr t), Some (JStr p), Some l =>
      Some {| f_rule := t; f_id := i; f_file := p; f_sl := l; f_sc := JNum (-1); f_el := l; f_ec := JNum (-1) |}
  | _, _, _, _ => None
  end.
Definition dd_reader (doc : json) : option (list finding) :=
  match jget s_results doc with
  | Some (JArr es) => mapM dd_entry es
  | _ => None
  end.
