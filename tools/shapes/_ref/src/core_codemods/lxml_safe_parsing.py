from codemodder.codemods.libcst_transformer import NewArg
from core_codemods.api import Metadata, Reference, ReviewGuidance, SimpleCodemod


class LxmlSafeParsing(SimpleCodemod):
    metadata = Metadata(
        name="safe-lxml-parsing",
        summary="Use Safe Parsers in `lxml` Parsing Functions",
        review_guidance=ReviewGuidance.MERGE_WITHOUT_REVIEW,
        references=[
            Reference(
                url="https://lxml.de/apidoc/lxml.etree.html#lxml.etree.XMLParser"
            ),
            Reference(
                url="https://owasp.org/www-community/vulnerabilities/XML_External_Entity_(XXE)_Processing"
            ),
            Reference(
                url="https://cheatsheetseries.owasp.org/cheatsheets/XML_External_Entity_Prevention_Cheat_Sheet.html"
            ),
        ],
    )
    change_description = (
        "Call `lxml.etree.parse` and `lxml.etree.fromstring` with a safe parser."
    )
    detector_pattern = """
            rules:
                - pattern-either:
                  - patterns:
                    - pattern: lxml.etree.$FUNC(...)
                    - pattern-not: lxml.etree.$FUNC(...,parser=..., ...)
                    - metavariable-pattern:
                        metavariable: $FUNC
                        patterns:
                          - pattern-either:
                            - pattern: parse
                            - pattern: fromstring
                    - pattern-inside: |
                        import lxml.etree
                        ...
                  - patterns:
                    - pattern: lxml.etree.$FUNC(..., parser=None, ...)
                    - metavariable-pattern:
                        metavariable: $FUNC
                        patterns:
                          - pattern-either:
                            - pattern: parse
                            - pattern: fromstring
                    - pattern-inside: |
                        import lxml.etree
                        ...
        """

    def on_result_found(self, original_node, updated_node):
        self.remove_unused_import(original_node)
        self.add_needed_import("lxml.etree")
        safe_parser = "lxml.etree.XMLParser(resolve_entities=False)"
        new_args = self.replace_args(
            original_node,
            [NewArg(name="parser", value=safe_parser, add_if_missing=True)],
        )
        return self.update_arg_target(updated_node, new_args)
