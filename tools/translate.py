#!/usr/bin/env python3
"""Fail-closed translator: /repo source  ->  coq/Generated/Tables.v  (+ tables.json for the harness).

It does not translate Python in general.  For a fixed list of source *fragments* (functions, methods,
module-level literals) it either
  * reads a literal value (lists of strings, numbers) and prints it as a Coq term, or
  * compares the normalised AST of the fragment with the known shapes under tools/shapes/<fragment>/<variant>.py
    and emits the Coq constructor naming the variant the source implements.
A fragment whose shape is none of the known ones is *unrecognised*: the tie between model and source is
broken for every property that depends on it.  Tables.v is then still written (with the fragment's
`expected` variant, i.e. the behaviour the property demands) so that the development builds and the
search for a failing input can use model and spec; the breakage is recorded in tables.json and turned
into a VIOLATION by the checks.

Usage: translate.py [--repo /repo] [--out /verif/coq/Generated]
Exit status: 0 all fragments recognised; 3 some fragment unrecognised; 2 internal error.
"""
from __future__ import annotations

import argparse
import ast
import json
import os
import sys
from pathlib import Path

HERE = Path(__file__).resolve().parent
SHAPES = HERE / "shapes"


# ----------------------------------------------------------------------------------------------
# AST helpers
# ----------------------------------------------------------------------------------------------
def _is_docstring(stmt):
    return isinstance(stmt, ast.Expr) and isinstance(stmt.value, ast.Constant) and isinstance(stmt.value.value, str)


def _is_log_call(stmt):
    """logger.debug(...)/logger.info(...)/... expression statements are not behaviour we model."""
    if not isinstance(stmt, ast.Expr) or not isinstance(stmt.value, ast.Call):
        return False
    f = stmt.value.func
    if isinstance(f, ast.Attribute) and isinstance(f.value, ast.Name) and f.value.id == "logger":
        return f.attr in ("debug", "info", "warning", "error", "exception")
    if isinstance(f, ast.Name) and f.id in ("log_list", "log_section"):
        return True
    return False


_SCOPES = (ast.FunctionDef, ast.AsyncFunctionDef, ast.Lambda, ast.ClassDef)
_COMPS = (ast.ListComp, ast.SetComp, ast.DictComp, ast.GeneratorExp)


def _alpha_rename(fn):
    """Rename, in place, the local variables of an outermost function to _v0, _v1, ... in order of first occurrence:
    a consistent injective renaming of identifiers that can only denote locals of this function, so two functions
    have the same normal form only if they differ by the names of such locals (behaviour-preserving).
    Selected: names stored directly in the function's own scope (assignment, for/with/except targets, walrus outside
    comprehensions); and comprehension targets all of whose occurrences lie inside comprehensions binding them.
    Never selected: parameters (of this or any nested function/lambda), global/nonlocal names, names bound by import,
    nested def/class names.  Functions containing a class body, or calling locals()/vars()/eval()/exec(), are left alone."""
    params, declared, imported = set(), set(), set()
    for n in ast.walk(fn):
        if isinstance(n, ast.ClassDef):
            return
        if isinstance(n, ast.Name) and n.id in ("locals", "vars", "eval", "exec", "globals"):
            return
        if isinstance(n, (ast.FunctionDef, ast.AsyncFunctionDef, ast.Lambda)):
            a = n.args
            for x in a.args + a.kwonlyargs + a.posonlyargs + ([a.vararg] if a.vararg else []) + ([a.kwarg] if a.kwarg else []):
                params.add(x.arg)
            if not isinstance(n, ast.Lambda):
                params.add(n.name)
        if isinstance(n, (ast.Global, ast.Nonlocal)):
            declared.update(n.names)
        if isinstance(n, (ast.Import, ast.ImportFrom)):
            imported.update((al.asname or al.name).split(".")[0] for al in n.names)
        if isinstance(n, (ast.MatchAs, ast.MatchStar)) and n.name:
            imported.add(n.name)          # capture patterns: left alone
        if isinstance(n, ast.MatchMapping) and n.rest:
            imported.add(n.rest)
        if isinstance(n, ast.Name) and len(n.id) > 2 and n.id.startswith("_v") and n.id[2:].isdigit():
            return                          # would collide with the canonical names
    own, comp_bound, outside_comp = set(), set(), set()

    def walk(node, in_nested_scope, comps):
        # comps: tuple of sets of names bound by the enclosing comprehensions
        if isinstance(node, _COMPS):
            bound = set()
            for g in node.generators:
                for t in ast.walk(g.target):
                    if isinstance(t, ast.Name):
                        bound.add(t.id)
            comp_bound.update(bound)
            comps = comps + (bound,)
        for child in ast.iter_child_nodes(node):
            nested = in_nested_scope or (isinstance(child, _SCOPES) and child is not fn)
            if isinstance(child, ast.Name):
                if isinstance(child.ctx, ast.Store) and not nested and not comps:
                    own.add(child.id)
                if not any(child.id in b for b in comps):
                    outside_comp.add(child.id)
            elif isinstance(child, ast.ExceptHandler) and child.name and not nested:
                own.add(child.name)
            walk(child, nested, comps)

    walk(fn, False, ())
    banned = params | declared | imported
    selected = (own | (comp_bound - outside_comp)) - banned
    if not selected:
        return
    order = {}

    def number(node):
        for child in ast.iter_child_nodes(node):
            if isinstance(child, ast.Name) and child.id in selected and child.id not in order:
                order[child.id] = f"_v{len(order)}"
            if isinstance(child, ast.ExceptHandler) and child.name in selected and child.name not in order:
                order[child.name] = f"_v{len(order)}"
            number(child)

    number(fn)
    for n in ast.walk(fn):
        if isinstance(n, ast.Name) and n.id in order:
            n.id = order[n.id]
        elif isinstance(n, ast.ExceptHandler) and n.name in order:
            n.name = order[n.name]


class _Normalise(ast.NodeTransformer):
    def _body(self, body):
        out = []
        for i, s in enumerate(body):
            if _is_docstring(s) or _is_log_call(s):
                continue
            out.append(self.visit(s))
        return out or [ast.Pass()]

    def generic_visit(self, node):
        for field, old in ast.iter_fields(node):
            if field in ("body", "orelse", "finalbody") and isinstance(old, list) and old and isinstance(old[0], ast.stmt):
                setattr(node, field, self._body(old))
            elif isinstance(old, list):
                setattr(node, field, [self.visit(x) if isinstance(x, ast.AST) else x for x in old])
            elif isinstance(old, ast.AST):
                setattr(node, field, self.visit(old))
        return node

    _depth = 0

    def visit_FunctionDef(self, node):
        if self._depth == 0:
            _alpha_rename(node)
        self._depth += 1
        try:
            return self._visit_function(node)
        finally:
            self._depth -= 1

    visit_AsyncFunctionDef = visit_FunctionDef

    def _visit_function(self, node):
        node.returns = None
        for a in node.args.args + node.args.kwonlyargs + node.args.posonlyargs:
            a.annotation = None
        if node.args.vararg:
            node.args.vararg.annotation = None
        if node.args.kwarg:
            node.args.kwarg.annotation = None
        node.type_comment = None
        return self.generic_visit(node)

    def visit_AnnAssign(self, node):
        # x: T = v   ->  x = v   (annotations are not behaviour)
        if node.value is None:
            return ast.Pass()
        return ast.Assign(targets=[self.visit(node.target)], value=self.visit(node.value), lineno=0)


def norm_dump(node) -> str:
    import copy
    n = _Normalise().visit(copy.deepcopy(node))
    return ast.dump(n, include_attributes=False)


def find_def(tree: ast.AST, qualname: str):
    """Find 'func', 'Class.method' or 'Class' (whole class) in a module; None if absent."""
    parts = qualname.split(".")
    scope = tree
    for i, p in enumerate(parts):
        found = None
        for s in getattr(scope, "body", []):
            if isinstance(s, (ast.FunctionDef, ast.AsyncFunctionDef, ast.ClassDef)) and s.name == p:
                found = s
                break
        if found is None:
            return None
        scope = found
    return scope


def find_assign(tree: ast.AST, name: str):
    for s in tree.body:
        if isinstance(s, ast.Assign) and len(s.targets) == 1 and isinstance(s.targets[0], ast.Name) and s.targets[0].id == name:
            return s.value
        if isinstance(s, ast.AnnAssign) and isinstance(s.target, ast.Name) and s.target.id == name:
            return s.value
    return None


# ----------------------------------------------------------------------------------------------
# Coq printing
# ----------------------------------------------------------------------------------------------
def coq_str(s: str) -> str:
    if not s:
        return "([] : str)"
    return "[" + "; ".join(str(ord(c)) for c in s) + "]%N"


def coq_str_list(l) -> str:
    if not l:
        return "([] : list str)"
    return "[" + ";\n   ".join(coq_str(s) for s in l) + "]"


# ----------------------------------------------------------------------------------------------
# Fragment registry
# ----------------------------------------------------------------------------------------------
class Fragment:
    def __init__(self, name, file, props, coq_name, coq_type, expected, defs=None, literal=None, printer=None, doc="", fn=None):
        self.name = name            # directory under tools/shapes
        self.file = file            # path relative to the repo root
        self.props = props          # property ids whose tie depends on this fragment
        self.coq_name = coq_name
        self.coq_type = coq_type
        self.expected = expected    # variant (or literal) emitted when the source is unrecognised
        self.defs = defs            # list of qualified names making up the fragment (shape fragments)
        self.literal = literal      # module-level name (literal fragments)
        self.printer = printer
        self.doc = doc
        self.fn = fn                # custom extractor: fn(module_ast, repo_path) -> value, raises Unrecognised


FRAGMENTS: list[Fragment] = []
TABLE_IMPORTS: list[str] = ["From CM Require Import Base.TableTypes."]


class Unrecognised(Exception):
    pass



def shape(name, file, props, coq_name, coq_type, expected, defs, doc=""):
    FRAGMENTS.append(Fragment(name, file, props, coq_name, coq_type, expected, defs=defs, doc=doc))


def literal(name, file, props, coq_name, coq_type, expected, literal_name, printer, doc=""):
    FRAGMENTS.append(Fragment(name, file, props, coq_name, coq_type, expected, literal=literal_name, printer=printer, doc=doc))


def custom(name, file, props, coq_name, coq_type, expected, fn, printer=None, doc=""):
    """fn(module_ast, repo_path) returns the table value or raises Unrecognised(why)."""
    FRAGMENTS.append(Fragment(name, file, props, coq_name, coq_type, expected, fn=fn, printer=printer, doc=doc))


# ---- the fragments ---------------------------------------------------------------------------
shape("resultset_merge", "src/codemodder/result.py", ["C12", "C06"],
      "resultset_variant", "rs_variant", "TotalOrWithIor",
      ["ResultSet.add_result", "ResultSet.__or__", "ResultSet.__ior__", "list_dict_or"],
      doc="ResultSet.add_result / __or__ / __ior__ (absence = dict.__ior__) / list_dict_or")

# further fragments are appended by tools/fragments_*.py (imported below) so that each model file
# keeps its table next to its shapes
for _extra in sorted(HERE.glob("fragments_*.py")):
    exec(compile(_extra.read_text(), str(_extra), "exec"), globals())


# ----------------------------------------------------------------------------------------------
def fragment_dump(tree, defs) -> str:
    parts = []
    for q in defs:
        d = find_def(tree, q)
        parts.append(f"{q}=" + (norm_dump(d) if d is not None else "<absent>"))
    return "\n".join(parts)


def known_variants(frag: Fragment) -> dict[str, str]:
    out = {}
    d = SHAPES / frag.name
    for f in sorted(d.glob("*.py")):
        # several files may describe the same variant: Variant.py, Variant__2.py ...
        variant = f.stem.split("__")[0]
        out.setdefault(variant, [])
        out[variant].append(fragment_dump(ast.parse(f.read_text()), frag.defs))
    return out


# ----------------------------------------------------------------------------------------------
# Canonical view.  tools/shapes/_ref/ holds a copy of the source files the fragments read, as they stood when the
# recognisers were written.  A function of the current tree that has the same NORMAL FORM as its reference (same
# code up to docstrings, log calls, annotations and the names of its local variables) is behaviourally the same
# function, so the recognisers -- some of which look for particular local names -- are shown the reference text of
# that function instead.  Functions that differ in any other way are shown as they are.  A stale reference only
# means that no substitution happens.
# ----------------------------------------------------------------------------------------------
REF = SHAPES / "_ref"


def _substitute_container(cur, ref) -> int:
    n = 0
    ref_defs = {}
    for s in getattr(ref, "body", []):
        if isinstance(s, (ast.FunctionDef, ast.AsyncFunctionDef, ast.ClassDef)):
            ref_defs.setdefault(s.name, s)
    for i, s in enumerate(list(getattr(cur, "body", []))):
        r = ref_defs.get(getattr(s, "name", None))
        if r is None or type(r) is not type(s):
            continue
        if isinstance(s, ast.ClassDef):
            n += _substitute_container(s, r)
        elif ast.dump(s) != ast.dump(r) and norm_dump(s) == norm_dump(r) \
                and ast.dump(s.args) == ast.dump(r.args) and [ast.dump(d) for d in s.decorator_list] == [ast.dump(d) for d in r.decorator_list]:
            cur.body[i] = r
            n += 1
    return n


def canonical_view(repo: Path):
    """-> (path to read sources from, [(file, functions substituted)], cleanup callable)"""
    import shutil
    import tempfile
    texts, subs = {}, []
    if REF.is_dir():
        for ref in sorted(REF.rglob("*.py")):
            rel = ref.relative_to(REF)
            try:
                cur_tree = ast.parse((repo / rel).read_text(encoding="utf-8"))
                ref_tree = ast.parse(ref.read_text(encoding="utf-8"))
            except (OSError, SyntaxError, ValueError):
                continue
            n = _substitute_container(cur_tree, ref_tree)
            if n:
                texts[rel] = ast.unparse(ast.fix_missing_locations(cur_tree)) + "\n"
                subs.append([str(rel), n])
    if not texts:
        return repo, subs, (lambda: None)
    mirror = Path(tempfile.mkdtemp(prefix="verif_canon_", dir=os.environ.get("VERIF_SCRATCH") or None))
    shutil.copytree(repo / "src", mirror / "src", ignore=shutil.ignore_patterns("__pycache__", "*.pyc"))
    for rel, text in texts.items():
        (mirror / rel).write_text(text, encoding="utf-8")
    return mirror, subs, (lambda: shutil.rmtree(mirror, ignore_errors=True))


def translate(repo: Path):
    view, subs, cleanup = canonical_view(repo)
    try:
        text, info = _translate(view)
        if info["unrecognised"] and REF.is_dir() and (REF / "src").is_dir():
            # an unrecognised fragment keeps the value it has on the reference sources (= the tree the recognisers were last
            # refreshed against) instead of a fixed default: the tie is reported broken either way, but the model that the
            # search and the finding classes run against then still describes the code as it was, so a harmless rewrite
            # of a recognised function cannot turn a listed finding into a violation with a concrete input
            _, ref_info = _translate(REF, fallback=None)
            ref_values = {n: d["value"] for n, d in ref_info["fragments"].items() if d["status"] == "ok"}
            text, info = _translate(view, fallback=ref_values)
    finally:
        cleanup()
    info["alpha_equivalent_functions_shown_as_reference"] = subs
    return text, info


def _translate(repo: Path, fallback=None):
    dup = [n for n in {f.coq_name for f in FRAGMENTS} if sum(1 for f in FRAGMENTS if f.coq_name == n) > 1]
    if dup:
        raise RuntimeError(f"two fragments emit the same Coq name: {dup}")
    values, unrecognised, details = {}, [], {}
    lines = ["(* GENERATED by tools/translate.py from the current working tree of the repository. Do not edit. *)",
             *TABLE_IMPORTS, ""]
    cache = {}
    for frag in FRAGMENTS:
        src = repo / frag.file
        status, value, why = "ok", None, ""
        try:
            if src not in cache:
                cache[src] = ast.parse(src.read_text(encoding="utf-8"))
            tree = cache[src]
            if frag.fn is not None:
                try:
                    value = frag.fn(tree, repo)
                except Unrecognised as e:
                    status, why = "unrecognised", str(e)
            elif frag.defs is not None:
                got = fragment_dump(tree, frag.defs)
                if all(find_def(tree, q) is None for q in frag.defs):
                    got = "<all definitions absent>"   # never matches a shape: renamed/removed code is not recognised
                for variant, dumps in known_variants(frag).items():
                    if got in dumps:
                        value = variant
                        break
                if value is None:
                    status, why = "unrecognised", "shape of " + ", ".join(frag.defs) + " matches no known variant"
            else:
                node = find_assign(tree, frag.literal)
                if node is None:
                    status, why = "unrecognised", f"module-level name {frag.literal} not found"
                else:
                    try:
                        value = ast.literal_eval(node)
                    except Exception as e:  # not a literal any more
                        status, why = "unrecognised", f"{frag.literal} is not a literal: {e}"
        except (OSError, SyntaxError) as e:
            status, why = "unrecognised", f"cannot read/parse {frag.file}: {e}"
        if status != "ok":
            unrecognised.append({"fragment": frag.name, "file": frag.file, "props": frag.props, "why": why})
            value = fallback[frag.name] if fallback and frag.name in fallback else frag.expected
        values[frag.coq_name] = value
        details[frag.name] = {"file": frag.file, "props": frag.props, "status": status, "value": value, "coq": frag.coq_name}
        term = frag.printer(value) if frag.printer else str(value)
        lines.append(f"(* {frag.file}: {frag.doc or frag.name}{'  -- UNRECOGNISED, expected value emitted' if status != 'ok' else ''} *)")
        lines.append(f"Definition {frag.coq_name} : {frag.coq_type} := {term}.")
        lines.append("")
    return "\n".join(lines), {"values": values, "unrecognised": unrecognised, "fragments": details}


def write_if_changed(path: Path, text: str):
    if path.exists() and path.read_text() == text:
        return False
    tmp = path.with_suffix(path.suffix + f".tmp{os.getpid()}")
    tmp.write_text(text)
    os.replace(tmp, path)
    return True


def main():
    ap = argparse.ArgumentParser()
    ap.add_argument("--repo", default=os.environ.get("VERIF_REPO", "/repo"))
    ap.add_argument("--out", default=str(HERE.parent / "coq" / "Generated"))
    a = ap.parse_args()
    out = Path(a.out)
    out.mkdir(parents=True, exist_ok=True)
    text, info = translate(Path(a.repo))
    write_if_changed(out / "Tables.v", text + "\n")
    write_if_changed(out / "tables.json", json.dumps(info, indent=1, sort_keys=True) + "\n")
    for u in info["unrecognised"]:
        print(f"translate: UNRECOGNISED {u['fragment']} ({u['file']}): {u['why']}", file=sys.stderr)
    return 3 if info["unrecognised"] else 0


if __name__ == "__main__":
    try:
        sys.exit(main())
    except Exception as e:  # pragma: no cover
        import traceback
        traceback.print_exc()
        sys.exit(2)
